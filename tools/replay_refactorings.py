#!/usr/bin/env python3
"""Replay every archived behaviour-preserving refactoring (refactorings/*/patch.diff) against all checks in one process each (tools/allchecks.py);
every non-zero exit is a false alarm / analysis error to be triaged.  usage: python3-vt tools/replay_refactorings.py [dir] [--jobs J]"""
import glob, os, shutil, subprocess, sys, tempfile
from concurrent.futures import ThreadPoolExecutor
VERIF = os.path.dirname(os.path.dirname(os.path.abspath(__file__)))


def one(d):
    tmp = tempfile.mkdtemp(prefix="dfvrr_")
    try:
        shutil.copytree("/repo/dfols", os.path.join(tmp, "dfols"), ignore=shutil.ignore_patterns("__pycache__"))
        shutil.copytree("/repo/docs", os.path.join(tmp, "docs"), ignore=shutil.ignore_patterns("build", "*.png", "*.html"))
        r = subprocess.run(["git", "apply", "--unsafe-paths", os.path.join(d, "patch.diff")], cwd=tmp, capture_output=True, text=True)
        if r.returncode != 0:
            return d, None
        r = subprocess.run([sys.executable, os.path.join(VERIF, "tools", "allchecks.py"), tmp], capture_output=True, text=True, cwd=VERIF)
        return d, [ln for ln in r.stdout.splitlines() if len(ln.split(" ", 2)) >= 2 and ln.split(" ", 2)[1].isdigit() and ln.split(" ", 2)[1] != "0"]
    finally:
        shutil.rmtree(tmp, ignore_errors=True)


def main():
    a = sys.argv[1:]
    jobs = int(a[a.index("--jobs") + 1]) if "--jobs" in a else 12
    base = a[0] if a and not a[0].startswith("--") else os.path.join(VERIF, "refactorings")
    dirs = sorted(d for d in glob.glob(os.path.join(base, "*")) if os.path.exists(os.path.join(d, "patch.diff")))
    bad = 0
    with ThreadPoolExecutor(max_workers=jobs) as ex:
        for d, res in ex.map(one, dirs):
            if res is None:
                print("DOES-NOT-APPLY", os.path.basename(d)); bad += 1
            elif res:
                bad += 1
                print(os.path.basename(d)); [print("   " + x[:260]) for x in res]
    print("%d refactorings, %d not silent" % (len(dirs), bad))


main()
