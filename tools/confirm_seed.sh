#!/bin/bash
# usage: SEEDBASE=/tmp/seed2 tools/confirm_seed.sh <PID> <k>
# Confirms a sub-agent's seeded change in a fresh scratch worktree of /repo HEAD (demo passes clean, patch applies, 118 tests pass with it, demo fails with it)
# and runs every check against that patched worktree (--root), so /repo itself is never touched.  The worktree is removed afterwards.
set -u
PID=$1; K=$2
SRC=${SEEDBASE:-/tmp/seed}/$PID/_seed/$K
WT=/tmp/seedchk_$PID$K
rm -rf $WT; git -C /repo worktree prune
git -C /repo worktree add -q --detach $WT ${BASE:-HEAD} || exit 9
cd $WT
PYTHONPATH=$WT timeout 600 /venv/bin/python $SRC/demo.py > $WT.out 2>&1; C0=$?
git apply $SRC/patch.diff; A=$?
T=$(PYTHONPATH=$WT /venv/bin/python -m pytest -q -p no:cacheprovider -x dfols/tests 2>&1 | tail -1)
PYTHONPATH=$WT timeout 600 /venv/bin/python $SRC/demo.py > $WT.out 2>&1; C1=$?
echo "SEED $PID-$K demo_clean=$C0 applies=$A tests='$T' demo_patched=$C1"
cd /verif
CAUGHT=""
for c in C01 C02 C03 C04 C06 C07 C08 C09 C10 C11 C12 C13 C14 C15 C16 C17 C18 C19 C20; do
  DFV_NO_EVIDENCE=1 python3-vt -m dfv check $c --root $WT --no-evidence > $WT.chk 2>&1; E=$?
  if [ $E -ne 0 ]; then CAUGHT="$CAUGHT $c($E)"; grep -v "^      " $WT.chk | grep -v KNOWN-FINDING | grep -v "^VIOLATION" | cut -c1-230 | head -2 | sed "s/^/   $c: /"; fi
done
echo "SEED $PID-$K caught_by:$CAUGHT"
git -C /repo worktree remove --force $WT; rm -f $WT.out $WT.chk
