#!/usr/bin/env python3
"""Regenerate /verif/MANIFEST.json from the per-property table below (run after adding a rule module)."""
import json
import os

VERIF = os.path.dirname(os.path.dirname(os.path.abspath(__file__)))

# pid -> (technique, level text, level note, design ref)
CLAIMS = {
 "C07": ("AST/CFG lints: call-signature binding of all resolved internal calls, dominator queries on solve's CFG, "
         "registry set-comparison code<->code<->docs, raise inventory over the call graph, nullness typestate of exit_info",
         "Static decision, over every call site / every path of solve and solve_main, of the structural clauses behind 'bad input is "
         "reported, not raised': every internal call binds to its callee's signature; every input-error assignment is first-error-wins "
         "and the graceful return dominates everything that can evaluate; each documented invalid-argument class has a guard; exit-code "
         "and parameter registries agree between code, result object and docs; unknown key ends in ValueError; explicit raises reachable "
         "from solve are documented/opt-in; exit_info is never None where it is dereferenced. Not a claim about implicit NumPy/SciPy exceptions.",
         "Trusted: CPython ast, purpose-built receiver resolution (0 unresolved calls, reported in evidence), frozen table of documented invalid-argument classes in dfv/tables.py.",
         "DESIGN.md 4/C07"),
 "C20": ("AST table agreement (to_dict / from_dict / __init__ / __str__), nullable-flow of None->NaN per field, guard analysis on __str__'s CFG",
         "Static decision of the structural clauses of the JSON round trip: keys written = keys read = constructor fields, each routed to the "
         "field of the same name; only plain data leave to_dict and NaN replacement covers the whole dict; None is mapped back to NaN for every "
         "float-valued field; __str__ never applies a numeric conversion or len() to a possibly-None field; diagnostic columns hold scalars. "
         "pandas/json library semantics are not decided.",
         "Trusted: CPython ast; np.array(list, dtype=float) maps None to NaN; json emits what to_dict's plain types contain.",
         "DESIGN.md 4/C20"),
}

NOT_APPLICABLE = {
 "C05": "every clause quantifies over numerical trajectories (distance of the returned objective from the true constrained minimum); no clause has a shape-of-code form that is not already another property (DESIGN.md 4/C05)",
}

NOT_YET = {}


def main():
    props = [json.loads(l) for l in open(os.path.join(VERIF, "properties.jsonl"))]
    checks = []
    na = []
    for p in props:
        pid = p["id"]
        modpath = os.path.join(VERIF, "dfv", "rules", pid.lower() + ".py")
        if pid in CLAIMS and os.path.exists(modpath):
            tech, text, note, ref = CLAIMS[pid]
            checks.append({
                "property_id": pid,
                "quick_cmd": "python3-vt -m dfv check %s --tier quick" % pid,
                "thorough_cmd": "python3-vt -m dfv check %s --tier thorough" % pid,
                "evidence_file": "/verif/evidence/%s.json" % pid,
                "replay_cmd_template": "python3-vt -m dfv explain {path}",
                "engine": "dfv",
                "level_claimed": {"category": "other", "text": text, "design_ref": ref},
                "level_note": note,
                "technique": "static analysis: " + tech,
            })
        elif pid in NOT_APPLICABLE:
            na.append({"property_id": pid, "reason": NOT_APPLICABLE[pid]})
        else:
            na.append({"property_id": pid, "reason": NOT_YET.get(pid, "static check designed (DESIGN.md section 4) but not built yet in this commit; not claimed until its rule module exists")})
    man = {
        "version": 1,
        "setup_cmd": "python3-vt -m dfv selfcheck",
        "hooks": {
            "guard": "DFOLS_VERIF",
            "enable": "none needed: the checks are static and read /repo/dfols/*.py and /repo/docs/*.rst; no instrumentation exists",
            "baseline_off_cmd": "cd /repo && /venv/bin/python -m pytest -ra -q -p no:cacheprovider --timeout=900 --continue-on-collection-errors",
            "source_commits": [],
            "add_only": True,
        },
        "engines": [{
            "name": "dfv",
            "path": "/verif/dfv",
            "serves_properties": [c["property_id"] for c in checks],
            "kind_free_text": "purpose-built static analyser for dfols (python3-vt, stdlib ast + networkx): program model with receiver/callable "
                              "resolution, statement CFG with atomic conditions, dominators/control dependence, reaching definitions, set-of-states "
                              "forward data-flow, value-flow graph with role provenance, frame typing, finite order-domain decision tables, affine normal forms",
        }],
        "checks": checks,
        "not_applicable": na,
        "notes": "Every check exits 0 (held, possibly with KNOWN-FINDING lines), 1 (VIOLATION) or 2 (ANALYSIS-ERROR: vanished anchor / unrecognised idiom). "
                 "Known findings live in /verif/known_findings.json. Nothing in /verif imports or runs dfols.",
    }
    with open(os.path.join(VERIF, "MANIFEST.json"), "w") as fh:
        json.dump(man, fh, indent=1)
    print("MANIFEST.json: %d checks, %d not_applicable" % (len(checks), len(na)))


if __name__ == "__main__":
    main()
