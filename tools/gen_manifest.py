#!/usr/bin/env python3
"""Regenerate /verif/MANIFEST.json from the per-property table below (run after adding a rule module)."""
import json
import os

VERIF = os.path.dirname(os.path.dirname(os.path.abspath(__file__)))

# rules added in round 5 (appended to the level text of the property they belong to)
ROUND5 = {
 "C02": " Also decided: every call of the nsamples callback passes (radius, lower bound on the radius, iteration counter, run counter) in the documented order with no arithmetic (C02-6b, 25 sibling sites).",
 "C03": " Also decided: every Model method that stores an objective value adds h at the exact clipped / projected point objfun saw (C03-5b, exactness facts of the frame interpreter); "
        "a store of the first sample of an evaluation is followed on every path by the loop that averages in the other samples run (C03-9b).",
 "C04": " Also decided: a negative predicted reduction hands back an exit on every path to the return of calculate_ratio, so a positive ratio means the objective was reduced (C04-5b); loops over the points "
        "furthest from the incumbent stop before the incumbent, by their own limit or by every caller's argument (C04-7); the selection tables demand that a finite candidate replaces a NaN incumbent in the incumbent moves too.",
 "C06": " Also decided: every box projector is handed the lower and the upper end of one box (C06-7).",
 "C07": " Also decided: every %-format of the package binds its arguments and a single conversion is never handed a value that can be a tuple (C07-21, reaching definitions + return expressions of callees); every instance "
        "attribute read through self is assigned by its class's constructor on every path (C07-22); an exit reported by a callee is handed on by every Controller method (C07-19b) and the main loop never goes round with an "
        "exit in hand (C07-19c); range validators accept exactly lower <= value <= upper (18-row decision table, C07-5c) and every parameter that fails its check is reported (C07-5d).",
 "C10": " The atoms of the truth tables are labelled with the writes that can reach their evaluation point, so a boolean local computed before a counter is updated and a same-looking test made after it are different propositions; last_successful_run is only ever assigned a run number (C10-4b).",
 "C11": " Also decided: the saved Jacobian and its labels never alias the live arrays (C11-2b).",
 "C16": " The affine executor follows every path through the if statements of shift_base (invariant broken on every path = violation, on some = undecided); a local re-based by the incumbent's relative position is followed on every path by shift_base of the same vector (C16-3b).",
 "C17": " Also decided: a record added to the set is stored where the point count puts it -- np.insert at npt() read before the count changes, or an append under a test that the set is full (C17-9); a swap of two records re-points the incumbent index both ways (C17-5b).",
 "C18": " Also decided: every increase of npt for the next run is clamped to restarts.max_npt on every path to the next solve_main call and appended points are bounded by max_npt minus the points held (C18-10); "
        "the recorded best value cannot rise inside a run because a geometry loop reached the incumbent (C18-11 = C04-7); the initial radius is validated against the cap every growth of delta is held to (C18-3b).",
 "C19": " Also decided: a row saved for restoring is a copy, not a view of the row that is overwritten in between (C19-4; keeps the rank-deficiency fallback independent of its random selectors).",
}

# pid -> (technique, level text, level note, design ref)
CLAIMS = {
 "C07": ("AST/CFG lints: call-signature binding of all resolved internal calls, dominator queries on solve's CFG, "
         "registry set-comparison code<->code<->docs, raise inventory over the call graph, nullness typestate of exit_info, "
         "definite-assignment data-flow over every function reachable from solve, guard check of the package's own parameter updates (second update raises)",
         "Static decision, over every call site / every path of solve and solve_main, of the structural clauses behind 'bad input is "
         "reported, not raised': every internal call binds to its callee's signature; every input-error assignment is first-error-wins "
         "and the graceful return dominates everything that can evaluate; each documented invalid-argument class has a guard; exit-code "
         "and parameter registries agree between code, result object and docs; unknown key ends in ValueError; explicit raises reachable "
         "from solve are documented/opt-in; exit_info is never None where it is dereferenced; no local can be read before assignment (exceptions frozen with reasons, their "
         "premises such as a parameter lower bound re-checked); every parameter update made by the package itself is guarded so that it cannot be a second update of a key the user set (truth-table entailment for flags); each type validator "
         "accepts only when isinstance(value, type) holds for the value it was given; the restart geometry loop cannot index past its list; the asserted precondition of the coordinate "
         "initialiser is established by solve for the npt of every run (validation guard + data-flow over later assignments); shapes of x0/bounds/scaling are validated before any arithmetic that combines them; the rhobeg-vs-bound-gap test is made in the coordinates rhobeg lives in; no division of Python-typed numbers by a square root / modulus of data that can vanish is reachable from solve without a test or floor on every path (ZeroDivisionError), and a parameter used as such a denominator has a range that excludes zero; no assert in solve reads one of its arguments; a try around a float-to-int conversion of a quotient that handles NaN (ValueError) also handles infinity (OverflowError); every cycle of solve_main's loop passes a call that reaches the objective, reduce_rho or a restart (structural premise of termination), every other while loop is ended by a counter, an exit object returned by a call in the main loop is tested before the loop goes round, and a Gram-Schmidt result is tested before it is normalised. Not a claim about implicit NumPy/SciPy exceptions.",
         "Trusted: CPython ast, purpose-built receiver resolution (0 unresolved calls, reported in evidence), frozen table of documented invalid-argument classes in dfv/tables.py.",
         "DESIGN.md 4/C07"),
 "C20": ("AST table agreement (to_dict / from_dict / __init__ / __str__), nullable-flow of None->NaN per field, belief-based (contradiction) guard analysis on __str__'s CFG, "
         "value-flow query that no raw return value of objfun/h/prox_uh/nsamples reaches a result field by plain copies",
         "Static decision of the structural clauses of the JSON round trip: keys written = keys read = constructor fields, each routed to the "
         "field of the same name; only plain data leave to_dict and NaN replacement covers the whole dict; None is mapped back to NaN for every "
         "float-valued field; __str__ never applies a numeric conversion or len() to a possibly-None field, and to_dict converts no field that a constructor call of the package leaves None (input-error results) outside a None test; diagnostic columns hold scalars, table rows are uniquely labelled and an empty table is never summarised; NaN replacement visits every "
         "element of nested containers; integer Model arrays keep an integer dtype at every re-binding (dtype inference through helpers). "
         "pandas/json library semantics are not decided.",
         "Trusted: CPython ast; np.array(list, dtype=float) maps None to NaN; json emits what to_dict's plain types contain.",
         "DESIGN.md 4/C20"),
 "C02": ("single-sink call-graph check, typestate data-flow (guard->increment->call) over the CFG of every evaluating function, dominator/control-dependence "
         "proof of the x0 entry obligation at each solve_main call site, role provenance of soln.nf/nx on the value-flow graph, counting data-flow for NX, "
         "origin slice of every sampling-loop bound",
         "Static decision on every path and every call site of the structure that makes the budget and the counters exact: objfun is called in one function reached "
         "from 3 sites; each evaluation is reached only in typestate 'NF<MAXFUN tested, NF incremented once'; the unguarded x0 evaluation is covered by an obligation "
         "proved at each call site of solve_main; soln.nf/nx slice back only to the counters and no stale local is returned after hand-over to the Controller; NX is "
         "incremented exactly once per point before the first sample and the evaluated x is loop-invariant; every sample count originates from max(nsamples(..),1) and the sampling loop "
         "can end early only under the budget guard. "
         "The statement is itself structural, so this is essentially the whole property.",
         "Trusted: CPython ast; CFG/dominators (networkx); counters identified as whatever flows into the 'Function eval %i at point %i' log ports.",
         "DESIGN.md 4/C02"),
 "C03": ("role provenance (backward slice with tuple-position matching and cross-role seeds) on the interprocedural value-flow graph; per-call-site record "
         "coherence via reaching definitions and CFG path queries; AST agreement of result tuples; shape analysis of objective stores",
         "Static decision of: xmin_eval_num / jacmin_eval_nums / Model.eval_num[_save] are fed only by the point counter and sample-count fields only by sample "
         "counters; at every change_point/add_new_point/save_point call the four record components derive from the same evaluation, with no other evaluation between "
         "it and the read of the point counter (stores made through helpers are checked at the helpers' call sites); extra samples are averaged into the slot that received the first one; slot fields, final selection and hard-restart merge move all components together; each stored objective is "
         "sumsq(residual)[+h] with h exactly when it may be set; every exit selects through get_final_results; evaluation results stored in records are fresh objects (no caller-visible alias of a user return value). Not decided: 'to rounding', 'resid is the mean'.",
         "Trusted: CPython ast, reaching definitions, field-based (flow-insensitive) treatment of object fields.",
         "DESIGN.md 4/C03"),
 "C04": ("typestate data-flow 'pending evaluation result' over the CFG after each evaluate_objective call site; dominator query in soft_restart; finite order-domain "
         "decision tables of selection guards; def-use check that every return takes its record from get_final_results",
         "Static decision, on every CFG path after each of the 11 evaluation call sites, that the evaluated point is offered to change_point/add_new_point/save_point "
         "(exempt: nothing evaluated, value is NaN); that the incumbent save dominates every point-moving call of soft_restart; that every selection guard takes the "
         "strictly smaller value (complete table over orderings); that all exits return the final selection. Values themselves are not decided.",
         "Trusted: CPython ast; CFG; the three record consumers are Model.change_point/add_new_point/save_point.",
         "DESIGN.md 4/C04"),
 "C08": ("finite order-domain decision tables over {None, NaN, lo<hi} for every selection guard (AST interpretation of the guard), NaN-awareness lint for arg-min "
         "over stored objectives, must-pass-through of the incumbent re-selection, enclosing-try scan along call-graph reachability to objfun, who-may-call rule for "
         "finiteness-checking scipy.linalg routines in logging-only code",
         "Static decision that selection is NaN-total (a NaN candidate never replaces a finite holder, a finite candidate replaces a NaN holder, empty slot filled, "
         "guard never raises; each row decided by walking the CFG to the store), that arg-min over stored objective values ignores NaN and the re-selection after a re-sample cannot be "
         "skipped, that no try statement can swallow an exception raised by the user's objective, that code running only under a logging option cannot raise on non-finite data, that every step solver is reached only after the interpolated model was tested finite, and that the projected step solvers never divide by a norm of the model Hessian that can vanish (zero Jacobian: NaN step, ValueError out of solve). "
         "Termination / finiteness of the returned x under faults are not decided.",
         "Trusted: IEEE comparison semantics of NaN as implemented in the table evaluator; numpy.nanargmin ignores NaN.",
         "DESIGN.md 4/C08"),
 "C10": ("control-dependence of every ExitInformation construction on the fact its message states; truth-table entailment over normalised atoms for conditionally "
         "overwritten messages; counting data-flow for nruns over all breaks/continues/returns of solve_main",
         "Static decision, at every construction site of an exit message that states a fact, that the fact is a control dependence (or path-entailed) of the "
         "construction (values accumulated in locals are expanded through their reaching definitions), that rho can never be below rhoend (interval reasoning shared with C18-8, so "
         "'rho has reached rhoend' is built exactly at rho == rhoend), that on every path to the one result constructor a success flag implies a tested-finite objective (typestate), and that the run counter is incremented exactly once per run end on every path and threaded through solve.",
         "Trusted: CPython ast; CFG; normalisation of comparisons over a total order (counters are integers).",
         "DESIGN.md 4/C10"),
 "C01": ("abstract interpretation over a coordinate-frame domain {U,A,R,?} with exactness facts (context-sensitive, one run per configuration of scaling/projections/"
         "regulariser/bound pattern), reaching-definition routing check of every evaluate_objective argument, affine normal forms for shift_base, who-may-write inventory, "
         "reflection equivariance of the two x0 clamp stanzas",
         "Static decision of 'which operation is last on every path': objfun has one call site; every evaluated point is assigned only from Model.as_absolute_coordinates; "
         "in every configuration each clamp/scaling/callback site has frame-consistent operands and the value reaching objfun and soln.x carries the facts lo:user.xl and "
         "hi:user.xu (no arithmetic after the last clamp against the user's bounds); xbase/sl/su are written only by Model.__init__/shift_base and shift_base keeps sl+xbase, "
         "su+xbase, points+xbase invariant. The statement is structural, so this is essentially the whole property (known finding: un-scaling after the clamp).",
         "Trusted: IEEE min/max return an operand; bounds consistent (lower <= upper); dykstra summary justified by C15-2; copy/view semantics of the NumPy calls modelled in dfv/frames.py.",
         "DESIGN.md 4/C01"),
 "C06": ("0-CFA propagation of callable/tuple role atoms from solve's parameters to every callback call site, signature binding of starred user tuples, "
         "frame interpretation of projector lists and callback arguments per configuration",
         "Static decision of the pass-through and frame clauses only: every call of role h/prox_uh/objfun star-expands exactly the tuple of its own role; no user tuple is "
         "star-expanded into a fixed-arity internal callee and no None default can be star-expanded; every projector handed to dykstra acts in the frame of the projected point; "
         "callbacks are evaluated in user coordinates; every regularised sub-problem solver is called over the whole box/projection list of the problem (C06-6). Convergence to the regularised optimum is numerical and NOT decided.",
         "Trusted: CPython ast; the frame algebra of dfv/frames.py.",
         "DESIGN.md 4/C06"),
 "C09": ("frame/exactness interpretation under the configurations with projections, mutation inventory of every list that may hold user projections, interpreter run with "
         "scaling and projections both requested, lower-bound check of the sweep budget (parameter table range + every max_iter argument)",
         "Static decision that with projections every x handed to objfun (x0 included) is the unmodified output of a Dykstra call whose last projector clamps against copies of "
         "the user's bounds; that the projection list is a fresh list with the box appended once after all user projectors and never mutated afterwards; that scaling is None "
         "whenever projections are given; that every Dykstra call performs at least one sweep (max_iter >= 1 at each call site); the point handed to a user projector is never read again (C09-3c); Dykstra stops only after the last set of a sweep (C09-3d). The sqrt(p*tol) distance bound itself is numerical (its premises are C15-3/4).",
         "Trusted: dykstra summary (result = last projector's output, C15-2); at least one sweep runs.",
         "DESIGN.md 4/C09"),
 "C11": ("must-pass-through queries pairing the Jacobian assignment with the label snapshot, value-flow alias query (no .copy()-free path from Model.eval_num to the stored labels), "
         "role provenance of the labels, shape/guard/loop analysis of the single un-scaling statement in solve",
         "Static decision that matrix and labels are produced and travel together (interpolation, saved slot, final selection, hard-restart merge), that the label snapshot is a copy, "
         "that labels are point numbers, and that the returned Jacobian is rescaled exactly once (column i divided by scaling_changes[1][i], outside every other loop, under exactly "
         "`scaling_changes is not None and jacmin is not None`); every entry method of Model that can write the matrix can write the labels and vice versa (effect summaries); the design matrix of the interpolation system is built from the stored evaluated positions; logging/diagnostic observers do not write solver state. Equality with an independent fit is numerical and not decided.",
         "Trusted: CPython ast; CFG; np.ndarray.copy() returns a fresh array.",
         "DESIGN.md 4/C11"),
 "C12": ("reaching definitions on every return of trsbox/alt_trust_step, shape check of d_within_bounds, loop-form lint and call-graph recursion check, "
         "reflection equivariance of the lower/upper bound blocks (statements translated to sympy, reflected, compared as canonical forms), flag-aware CFG path queries for masked work vectors, "
         "abstract interpretation over linear forms in operator words H(.), E_k(.) with Houdini-style candidate invariants at loop heads (dfv/linrel.py; sympy normalises coefficients)",
         "Static decision of five clauses of the pure-Python path only: every returned step comes out of d_within_bounds (clamp + pinning + '- xopt'); the lower-bound and "
         "upper-bound handling of trsbox/alt_trust_step/d_within_bounds are exact reflections of each other (x -> -x); and every loop of "
         "the sub-problem routines is a for over a range fixed before the loop with no recursion (the routine returns for every input); a work vector written only under the active-set mask has its "
         "off-mask entries defined again between every change of the mask and its next whole use; and gnew - H d == g is an inductive consequence of the statements of trsbox/alt_trust_step over the reals "
         "(every update of d is paired with H times the same increment in gnew; hred stays H times the reduced step), up to the final clipping; the index found by a scanning loop (iact, isav, idx_hit) is reset on every path back into the scan. Norm bound, model decrease and Cauchy decrease "
         "are numerical and NOT decided; the optional Fortran back end is outside the analysed source.",
         "Trusted: CPython ast; CFG; real arithmetic (rounding is not modelled); d_within_bounds treated as the identity for the gradient relation (its own clause is C12-1).",
         "DESIGN.md 4/C12, 9.5"),
 "C13": ("definition/mutation inventory of the projector list in each ctrsbox_* routine, dominator queries in Controller.trust_region_step, frame interpretation of the step routines (model_value callback frame included), loop-form lint, reflection equivariance of trsbox_linear's bound handling",
         "Static decision that the trust-region ball pball(., centre, radius) of the routine's own centre/radius is the last set handed to Dykstra over a fresh copy of the caller's "
         "list; that every regularised step passes `pred_reduction < 0 => d = 0` with pred_reduction computed from the returned (gopt, H, d); frame agreement at all arithmetic/clamp/"
         "dykstra sites of the step routines; the geometry point is centre + an output of the box solver over the box relative to the centre, and it is the candidate with the larger |c + g.s| of one computed for +g and one for -g (both compared before either is returned); no step routine modifies an array argument in place; totality. Box to 1e-12, global optimality to 1e-6 and ||d|| <= Delta(1+1e-8) are numerical and NOT decided.",
         "Trusted: dykstra summary (C15-2); CPython ast.",
         "DESIGN.md 4/C13"),
 "C14": ("symbolic comparison of allocation/return shapes and a must-pass-through/last-write check of the clamp loop in both random-direction generators, "
         "interval reasoning (+/-c*delta, min/max, signs of relative bounds) over the coordinate-step stores, reflection equivariance of the lower/upper handling in get_scale / the generators / initialise_coordinate_directions",
         "Static decision of the generator clauses only: at least num_pts columns are allocated and exactly the first num_pts returned; the last write to every returned column on every "
         "path is a clamp against (lower, upper) over range(num_pts); each step stored by initialise_coordinate_directions lies in [-2*delta, 2*delta]; the "
         "lower- and upper-bound branches are exact reflections of each other. Distances, affine independence and conditioning of the initial set are numerical and NOT decided.",
         "Trusted: CPython ast; CFG.",
         "DESIGN.md 4/C14"),
 "C15": ("counting data-flow for the sweep counter, reaching definitions of the returned variable, placement/shape check of the stopping accumulator, symbolic execution of one "
         "inner iteration over affine normal forms",
         "Static decision that dykstra performs at most max_iter sweeps, that its result is exactly the last projector's output, and of the two premises of the sqrt(p*tol) feasibility "
         "bound (the stopping quantity sums the squared change of every correction vector of the sweep; each sub-step moves x by exactly the change of its correction vector; the loop "
         "tests the caller's tol / max_iter, which are never re-assigned), that every projector call sits in a loop over all sets so that the routine stops only after the last set of a sweep, that pbox is an exact two-sided clamp of its arguments and pball never divides by a quantity that can vanish (it is applied at its own centre whenever a step is zero), and that the value handed to a projector is not reused after the call (a projector may modify its argument). "
         "Distances and 1e-3 optimality are numerical and NOT decided.",
         "Trusted: CPython ast; integer-coefficient affine arithmetic of dfv/affine.py; the radius handed to pball is positive.",
         "DESIGN.md 4/C15"),
 "C16": ("typestate data-flow (flag may-be-true / cleared / written-while-true) over every Model method with the read-set of interpolation_matrix computed from the call graph, "
         "ownership inventory, affine normal forms for shift_base, re-basing check of live relative locals at shift_base call sites",
         "Static decision that every mutation of what the cached factorisation depends on clears factorisation_current on every path, that only factorise_geom_system validates the cache "
         "after recomputing Q, R, that no Model field is written outside the class, that no stored array is modified in place through a local it is a view of, that shift_base is an "
         "affine no-op for model values and the assembled model, and that both parts (constant, gradient) of the fitted model and of every Lagrange polynomial are rows of one solution of the interpolation system, read by the layout the design matrix is written in, and that the gradient handed to the step solvers is 2 J'(model_const + J x_opt) with x_opt read when the model is assembled. "
         "Interpolation / least-squares / Lagrange identities are numerical and NOT decided.",
         "Trusted: CPython ast; CFG; np.dot(J, .) is linear.",
         "DESIGN.md 4/C16"),
 "C17": ("sibling cross-check of the per-point record across change_point/swap_points/add_new_point/add_new_sample, shape analysis of sample-count and objective stores, "
         "complete decision tables of selection guards, bound check of every store to the incumbent index, guard check of the incumbent re-selection after re-sampling, alias query for the saved-point slot, rational normal form of the running-mean update (sympy.cancel)",
         "Static decision that the five per-point arrays move together under relocation/append/replace/re-sample, that sample counts are 1 on replace and +1 on re-sample, that each stored "
         "objective is sumsq(residual)[+h], that incumbent moves and the final selection have correct tables for ordering, ties, NaN and None, that kopt stays below npt(), that re-selection after a re-sample is skipped only when every value is NaN (guards and must-pass-through), that extra samples go to the slot of their point, "
         "that the saved record never aliases live arrays, and that the running-mean update of a re-sampled residual equals (n*old + new)/(n+1) as a rational function (sample-count reads phased against the increment). "
         "Rounding error of the running mean is not decided.",
         "Trusted: CPython ast; IEEE NaN comparison semantics in the table evaluator.",
         "DESIGN.md 4/C17"),
 "C18": ("forward data-flow of the ordering fact delta >= rho with max/min/literal-factor inference rules, method summaries and validated option implications; writer inventory of rho "
         "with parameter-table ranges; growth-cap lint; lock-step (stale copy) check of Controller.rhoend vs solve_main's rhoend; per-column append-count data-flow and docs agreement; reflection equivariance of the bound test in done_with_current_rho; counting data-flow for the run counter recorded in the table; "
         "interval reasoning over the if-chain of reduce_rho and the parameter-table ranges (rho stays in [rhoend, old rho])",
         "Static decision that delta >= rho is provable at every break/continue/return and recording point, that rho has its four writers with non-increasing reducer cases, that growth "
         "of delta is wrapped in min(., 1e10), that the controller's and the main loop's rhoend are rescaled identically, and that the diagnostic table gets exactly one append per "
         "column per recorded iteration with documented columns, the recorded best point/objective are those of the final selection (better of saved point and incumbent) and at most one row is recorded per iteration; rhobeg/rhoend are not re-assigned between validation and the first run; and, by interval reasoning over the cases of reduce_rho and the inclusive ranges of the parameter table, that "
         "rhoend <= rho, rho > 0, rho never increases within a run (restart factor of rhoend in (0, 1]) and rho strictly decreases whenever reduce_rho runs (every case, with parameter factors rejected at 1 by solve's validation: without it solve does not return). Monotone best objective and 2 <= npt <= max depend on values and are NOT decided.",
         "Trusted: rhobeg > rhoend > 0 on entry (validated by solve, C07-3); floating-point sqrt/multiplication monotone (the interval reasoning is over the reals).",
         "DESIGN.md 4/C18"),
 "C19": ("guarded taint over the call graph (global-RNG uses vs documented random options, dominance-based guards; documented random options proved off by default from the parameter table), nondeterminism/hidden-state inventory, flow-sensitive ownership "
         "lattice {caller, fresh} over solve with alias summaries of callees",
         "Static decision that every numpy.random use reachable from solve is guarded on every call path by an option documented as random (one checked exception), that no other "
         "nondeterminism or hidden state exists (globals, process-dependent calls, set iteration, mutated default arguments, mutable objects in class bodies, library routines that draw their own random start vector, e.g. ARPACK without v0=), and that caller-owned mutable arguments are copied before any in-place operation and never handed on un-copied. The statement is "
         "structural apart from the determinism of NumPy/SciPy kernels, which is trusted.",
         "Trusted: copy/view semantics of astype/asarray/slicing/list(); frozen table of documented random options in dfv/tables.py.",
         "DESIGN.md 4/C19"),
}

NOT_APPLICABLE = {
 "C05": "every clause quantifies over numerical trajectories (distance of the returned objective from the true constrained minimum); no clause has a shape-of-code form that is not already another property (DESIGN.md 4/C05)",
}

NOT_YET = {}


def main():
    props = [json.loads(l) for l in open(os.path.join(VERIF, "properties.jsonl"))]
    checks = []
    na = []
    for p in props:
        pid = p["id"]
        modpath = os.path.join(VERIF, "dfv", "rules", pid.lower() + ".py")
        if pid in CLAIMS and os.path.exists(modpath):
            tech, text, note, ref = CLAIMS[pid]
            text = text + ROUND5.get(pid, "")
            checks.append({
                "property_id": pid,
                "quick_cmd": "python3-vt -m dfv check %s --tier quick" % pid,
                "thorough_cmd": "python3-vt -m dfv check %s --tier thorough" % pid,
                "evidence_file": "/verif/evidence/%s.json" % pid,
                "replay_cmd_template": "python3-vt -m dfv explain {path}",
                "engine": "dfv",
                "level_claimed": {"category": "other", "text": text, "design_ref": ref},
                "level_note": note,
                "technique": "static analysis: " + tech,
            })
        elif pid in NOT_APPLICABLE:
            na.append({"property_id": pid, "reason": NOT_APPLICABLE[pid]})
        else:
            na.append({"property_id": pid, "reason": NOT_YET.get(pid, "static check designed (DESIGN.md section 4) but not built yet in this commit; not claimed until its rule module exists")})
    man = {
        "version": 1,
        "setup_cmd": "python3-vt -m dfv selfcheck",
        "hooks": {
            "guard": "DFOLS_VERIF",
            "enable": "none needed: the checks are static and read /repo/dfols/*.py and /repo/docs/*.rst; no instrumentation exists",
            "baseline_off_cmd": "cd /repo && /venv/bin/python -m pytest -ra -q -p no:cacheprovider --timeout=900 --continue-on-collection-errors",
            "source_commits": [],
            "add_only": True,
        },
        "engines": [{
            "name": "dfv",
            "path": "/verif/dfv",
            "serves_properties": [c["property_id"] for c in checks],
            "kind_free_text": "purpose-built static analyser for dfols (python3-vt, stdlib ast + networkx): program model with receiver/callable "
                              "resolution, statement CFG with atomic conditions, dominators/control dependence, reaching definitions, set-of-states "
                              "forward data-flow, value-flow graph with role provenance, frame typing, finite order-domain decision tables decided by CFG walks, affine normal forms, "
                              "reflection equivariance (sympy as normaliser), helper inlining / wrapped-consumer summaries",
        }],
        "checks": checks,
        "not_applicable": na,
        "notes": "Every check exits 0 (held, possibly with KNOWN-FINDING lines), 1 (VIOLATION) or 2 (ANALYSIS-ERROR: vanished anchor / unrecognised idiom). "
                 "Known findings live in /verif/known_findings.json. Nothing in /verif imports or runs dfols.",
    }
    with open(os.path.join(VERIF, "MANIFEST.json"), "w") as fh:
        json.dump(man, fh, indent=1)
    print("MANIFEST.json: %d checks, %d not_applicable" % (len(checks), len(na)))


if __name__ == "__main__":
    main()
