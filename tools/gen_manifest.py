#!/usr/bin/env python3
"""Regenerate /verif/MANIFEST.json from the per-property table below (run after adding a rule module)."""
import json
import os

VERIF = os.path.dirname(os.path.dirname(os.path.abspath(__file__)))

# pid -> (technique, level text, level note, design ref)
CLAIMS = {
 "C07": ("AST/CFG lints: call-signature binding of all resolved internal calls, dominator queries on solve's CFG, "
         "registry set-comparison code<->code<->docs, raise inventory over the call graph, nullness typestate of exit_info",
         "Static decision, over every call site / every path of solve and solve_main, of the structural clauses behind 'bad input is "
         "reported, not raised': every internal call binds to its callee's signature; every input-error assignment is first-error-wins "
         "and the graceful return dominates everything that can evaluate; each documented invalid-argument class has a guard; exit-code "
         "and parameter registries agree between code, result object and docs; unknown key ends in ValueError; explicit raises reachable "
         "from solve are documented/opt-in; exit_info is never None where it is dereferenced. Not a claim about implicit NumPy/SciPy exceptions.",
         "Trusted: CPython ast, purpose-built receiver resolution (0 unresolved calls, reported in evidence), frozen table of documented invalid-argument classes in dfv/tables.py.",
         "DESIGN.md 4/C07"),
 "C20": ("AST table agreement (to_dict / from_dict / __init__ / __str__), nullable-flow of None->NaN per field, guard analysis on __str__'s CFG",
         "Static decision of the structural clauses of the JSON round trip: keys written = keys read = constructor fields, each routed to the "
         "field of the same name; only plain data leave to_dict and NaN replacement covers the whole dict; None is mapped back to NaN for every "
         "float-valued field; __str__ never applies a numeric conversion or len() to a possibly-None field; diagnostic columns hold scalars. "
         "pandas/json library semantics are not decided.",
         "Trusted: CPython ast; np.array(list, dtype=float) maps None to NaN; json emits what to_dict's plain types contain.",
         "DESIGN.md 4/C20"),
 "C02": ("single-sink call-graph check, typestate data-flow (guard->increment->call) over the CFG of every evaluating function, dominator/control-dependence "
         "proof of the x0 entry obligation at each solve_main call site, role provenance of soln.nf/nx on the value-flow graph, counting data-flow for NX, "
         "origin slice of every sampling-loop bound",
         "Static decision on every path and every call site of the structure that makes the budget and the counters exact: objfun is called in one function reached "
         "from 3 sites; each evaluation is reached only in typestate 'NF<MAXFUN tested, NF incremented once'; the unguarded x0 evaluation is covered by an obligation "
         "proved at each call site of solve_main; soln.nf/nx slice back only to the counters and no stale local is returned after hand-over to the Controller; NX is "
         "incremented exactly once per point before the first sample and the evaluated x is loop-invariant; every sample count originates from max(nsamples(..),1). "
         "The statement is itself structural, so this is essentially the whole property.",
         "Trusted: CPython ast; CFG/dominators (networkx); counters identified as whatever flows into the 'Function eval %i at point %i' log ports.",
         "DESIGN.md 4/C02"),
 "C03": ("role provenance (backward slice with tuple-position matching and cross-role seeds) on the interprocedural value-flow graph; per-call-site record "
         "coherence via reaching definitions and CFG path queries; AST agreement of result tuples; shape analysis of objective stores",
         "Static decision of: xmin_eval_num / jacmin_eval_nums / Model.eval_num[_save] are fed only by the point counter and sample-count fields only by sample "
         "counters; at every change_point/add_new_point/save_point call the four record components derive from the same evaluation, with no other evaluation between "
         "it and the read of the point counter; slot fields, final selection and hard-restart merge move all components together; each stored objective is "
         "sumsq(residual)[+h] with h exactly when it may be set; every exit selects through get_final_results. Not decided: 'to rounding', 'resid is the mean'.",
         "Trusted: CPython ast, reaching definitions, field-based (flow-insensitive) treatment of object fields.",
         "DESIGN.md 4/C03"),
 "C04": ("typestate data-flow 'pending evaluation result' over the CFG after each evaluate_objective call site; dominator query in soft_restart; finite order-domain "
         "decision tables of selection guards; def-use check that every return takes its record from get_final_results",
         "Static decision, on every CFG path after each of the 11 evaluation call sites, that the evaluated point is offered to change_point/add_new_point/save_point "
         "(exempt: nothing evaluated, value is NaN); that the incumbent save dominates every point-moving call of soft_restart; that every selection guard takes the "
         "strictly smaller value (complete table over orderings); that all exits return the final selection. Values themselves are not decided.",
         "Trusted: CPython ast; CFG; the three record consumers are Model.change_point/add_new_point/save_point.",
         "DESIGN.md 4/C04"),
 "C08": ("finite order-domain decision tables over {None, NaN, lo<hi} for every selection guard (AST interpretation of the guard), NaN-awareness lint for arg-min "
         "over stored objectives, enclosing-try scan along call-graph reachability to objfun",
         "Static decision that selection is NaN-total (a NaN candidate never replaces a finite holder, a finite candidate replaces a NaN holder, empty slot filled, "
         "guard never raises), that arg-min over stored objective values ignores NaN, and that no try statement can swallow an exception raised by the user's objective. "
         "Termination / finiteness of the returned x under faults are not decided.",
         "Trusted: IEEE comparison semantics of NaN as implemented in the table evaluator; numpy.nanargmin ignores NaN.",
         "DESIGN.md 4/C08"),
 "C10": ("control-dependence of every ExitInformation construction on the fact its message states; truth-table entailment over normalised atoms for conditionally "
         "overwritten messages; counting data-flow for nruns over all breaks/continues/returns of solve_main",
         "Static decision, at every construction site of an exit message that states a fact, that the fact is a control dependence (or path-entailed) of the "
         "construction, and that the run counter is incremented exactly once per run end on every path and threaded through solve. 'rho equals rhoend' (needs rho >= rhoend) "
         "is not decided.",
         "Trusted: CPython ast; CFG; normalisation of comparisons over a total order (counters are integers).",
         "DESIGN.md 4/C10"),
}

NOT_APPLICABLE = {
 "C05": "every clause quantifies over numerical trajectories (distance of the returned objective from the true constrained minimum); no clause has a shape-of-code form that is not already another property (DESIGN.md 4/C05)",
}

NOT_YET = {}


def main():
    props = [json.loads(l) for l in open(os.path.join(VERIF, "properties.jsonl"))]
    checks = []
    na = []
    for p in props:
        pid = p["id"]
        modpath = os.path.join(VERIF, "dfv", "rules", pid.lower() + ".py")
        if pid in CLAIMS and os.path.exists(modpath):
            tech, text, note, ref = CLAIMS[pid]
            checks.append({
                "property_id": pid,
                "quick_cmd": "python3-vt -m dfv check %s --tier quick" % pid,
                "thorough_cmd": "python3-vt -m dfv check %s --tier thorough" % pid,
                "evidence_file": "/verif/evidence/%s.json" % pid,
                "replay_cmd_template": "python3-vt -m dfv explain {path}",
                "engine": "dfv",
                "level_claimed": {"category": "other", "text": text, "design_ref": ref},
                "level_note": note,
                "technique": "static analysis: " + tech,
            })
        elif pid in NOT_APPLICABLE:
            na.append({"property_id": pid, "reason": NOT_APPLICABLE[pid]})
        else:
            na.append({"property_id": pid, "reason": NOT_YET.get(pid, "static check designed (DESIGN.md section 4) but not built yet in this commit; not claimed until its rule module exists")})
    man = {
        "version": 1,
        "setup_cmd": "python3-vt -m dfv selfcheck",
        "hooks": {
            "guard": "DFOLS_VERIF",
            "enable": "none needed: the checks are static and read /repo/dfols/*.py and /repo/docs/*.rst; no instrumentation exists",
            "baseline_off_cmd": "cd /repo && /venv/bin/python -m pytest -ra -q -p no:cacheprovider --timeout=900 --continue-on-collection-errors",
            "source_commits": [],
            "add_only": True,
        },
        "engines": [{
            "name": "dfv",
            "path": "/verif/dfv",
            "serves_properties": [c["property_id"] for c in checks],
            "kind_free_text": "purpose-built static analyser for dfols (python3-vt, stdlib ast + networkx): program model with receiver/callable "
                              "resolution, statement CFG with atomic conditions, dominators/control dependence, reaching definitions, set-of-states "
                              "forward data-flow, value-flow graph with role provenance, frame typing, finite order-domain decision tables, affine normal forms",
        }],
        "checks": checks,
        "not_applicable": na,
        "notes": "Every check exits 0 (held, possibly with KNOWN-FINDING lines), 1 (VIOLATION) or 2 (ANALYSIS-ERROR: vanished anchor / unrecognised idiom). "
                 "Known findings live in /verif/known_findings.json. Nothing in /verif imports or runs dfols.",
    }
    with open(os.path.join(VERIF, "MANIFEST.json"), "w") as fh:
        json.dump(man, fh, indent=1)
    print("MANIFEST.json: %d checks, %d not_applicable" % (len(checks), len(na)))


if __name__ == "__main__":
    main()
