#!/usr/bin/env python3
"""Manual mutation probe: copy /repo/dfols + docs to a temp dir, apply one textual replacement, run checks with --root.
usage: tools/mut.py <file relative to repo> <old> <new> <PID> [<PID> ...]    (old must occur exactly once unless --all)"""
import os, shutil, subprocess, sys, tempfile

def main():
    args = sys.argv[1:]
    allocc = False
    if args and args[0] == "--all":
        allocc = True
        args = args[1:]
    rel, old, new = args[0], args[1], args[2]
    pids = args[3:]
    tmp = tempfile.mkdtemp(prefix="dfvmut_")
    try:
        shutil.copytree("/repo/dfols", os.path.join(tmp, "dfols"), ignore=shutil.ignore_patterns("__pycache__", "tests"))
        shutil.copytree("/repo/docs", os.path.join(tmp, "docs"), ignore=shutil.ignore_patterns("build"))
        p = os.path.join(tmp, rel)
        s = open(p).read()
        old = old.encode().decode("unicode_escape"); new = new.encode().decode("unicode_escape")
        n = s.count(old)
        if n == 0 or (n > 1 and not allocc):
            print("pattern occurs %d times" % n); return 3
        s = s.replace(old, new)
        open(p, "w").write(s)
        compile(s, p, "exec")
        for pid in pids:
            r = subprocess.run(["python3-vt", "-m", "dfv", "check", pid, "--root", tmp, "--no-evidence"], cwd="/verif", capture_output=True, text=True,
                               env=dict(os.environ, DFV_NO_EVIDENCE="1"))
            out = [l for l in r.stdout.splitlines() if not l.startswith("      ")]
            print("== %s exit %d" % (pid, r.returncode))
            for l in out[-8:]:
                print("   " + l[:230])
            if r.stderr.strip():
                print(r.stderr[-600:])
    finally:
        shutil.rmtree(tmp, ignore_errors=True)

main()
