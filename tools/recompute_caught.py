#!/usr/bin/env python3
"""Recompute meta.json:caught_by_checks of archived seeds with the current checks (scratch copies, tools/allchecks.py).
usage: python3-vt tools/recompute_caught.py [--round N] [--jobs J]   prints seeds whose set changed / that no check catches / that no longer apply."""
import glob, json, os, shutil, subprocess, sys, tempfile
from concurrent.futures import ThreadPoolExecutor
VERIF = os.path.dirname(os.path.dirname(os.path.abspath(__file__)))


def one(d):
    tmp = tempfile.mkdtemp(prefix="dfvrc_")
    try:
        shutil.copytree("/repo/dfols", os.path.join(tmp, "dfols"), ignore=shutil.ignore_patterns("__pycache__"))
        shutil.copytree("/repo/docs", os.path.join(tmp, "docs"), ignore=shutil.ignore_patterns("build", "*.png", "*.html"))
        r = subprocess.run(["git", "apply", "--unsafe-paths", os.path.join(d, "patch.diff")], cwd=tmp, capture_output=True, text=True)
        if r.returncode != 0:
            return d, None
        r = subprocess.run([sys.executable, os.path.join(VERIF, "tools", "allchecks.py"), tmp], capture_output=True, text=True, cwd=VERIF)
        caught = []
        for ln in r.stdout.splitlines():
            p = ln.split(" ", 2)
            if len(p) >= 2 and p[1].isdigit() and int(p[1]) != 0:
                caught.append((p[0], int(p[1])))
        return d, caught
    finally:
        shutil.rmtree(tmp, ignore_errors=True)


def main():
    a = sys.argv[1:]
    rnd = int(a[a.index("--round") + 1]) if "--round" in a else None
    jobs = int(a[a.index("--jobs") + 1]) if "--jobs" in a else 12
    dirs = []
    for d in sorted(glob.glob(os.path.join(VERIF, "seeded", "*"))):
        m = json.load(open(os.path.join(d, "meta.json")))
        if rnd is None or m.get("round") == rnd:
            dirs.append(d)
    with ThreadPoolExecutor(max_workers=jobs) as ex:
        for d, caught in ex.map(one, dirs):
            mp = os.path.join(d, "meta.json")
            m = json.load(open(mp))
            if caught is None:
                print("DOES-NOT-APPLY", os.path.basename(d)); continue
            # a check "catches" a seed when it reports a violation (exit 1); exit 2 (undecided) is listed separately
            new = sorted(c for c, e in caught if e == 1)
            und = sorted(c for c, e in caught if e == 2)
            old = m.get("caught_by_checks")
            if old != new or not new:
                print("%s: %s -> %s%s" % (os.path.basename(d), old, new, (" undecided " + str(und)) if und else ""))
            m["caught_by_checks"] = new
            if und:
                m["undecided_checks"] = und
            else:
                m.pop("undecided_checks", None)
            json.dump(m, open(mp, "w"), indent=1)


main()
