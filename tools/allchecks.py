#!/usr/bin/env python3
"""Run the quick tier of every claimed check against one source tree in ONE process (shared engine), no evidence written.
usage: python3-vt tools/allchecks.py <root>      prints one line `Cxx <exit> <first violation / error key>` per check.
Used by tools/mutsweep.py (exploratory gap finder; not a registered check)."""
import importlib, io, os, sys, contextlib, traceback
sys.path.insert(0, os.path.dirname(os.path.dirname(os.path.abspath(__file__))))
os.environ["DFV_NO_EVIDENCE"] = "1"
ALL = "C01 C02 C03 C04 C06 C07 C08 C09 C10 C11 C12 C13 C14 C15 C16 C17 C18 C19 C20".split()


def run_all(root, pids=ALL):
    from dfv.engine import Engine
    from dfv.report import Report
    from dfv.loader import AnalysisError
    out = {}
    try:
        eng = Engine(root)
    except Exception as ex:
        return dict((p, (2, "engine: %s" % ex)) for p in pids)
    for pid in pids:
        try:
            mod = importlib.import_module("dfv.rules.%s" % pid.lower())
            rep = Report(pid, "quick", 0)
            buf = io.StringIO()
            with contextlib.redirect_stdout(buf):
                mod.run(eng, rep)
                code, lines = rep.finalize(hashes=eng.prog.hashes, resolver_stats=eng.res.stats(), write=False)
            first = ""
            for ln in lines:
                if ln.startswith("      ") or "KNOWN-FINDING" in ln or ln.startswith("VIOLATION"):
                    continue
                if code != 0:
                    first = ln.strip()[:200]
                    break
            out[pid] = (code, first)
        except AnalysisError as ex:
            out[pid] = (2, "AnalysisError %s" % str(ex)[:150])
        except Exception as ex:
            out[pid] = (2, "internal %s" % traceback.format_exc()[-200:].replace("\n", " "))
    return out


if __name__ == "__main__":
    res = run_all(sys.argv[1])
    for p in ALL:
        print(p, res[p][0], res[p][1])
