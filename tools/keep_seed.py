#!/usr/bin/env python3
"""Archive a confirmed sub-agent seed under /verif/seeded/<PID>-<k>/ (patch.diff, demo.py, notes.md, meta.json).
usage: tools/keep_seed.py PID k "<needs>" "<caught by (checks/rules)>" "<initially: caught|missed + what was strengthened>" """
import json, os, shutil, subprocess, sys
pid, k, needs, caught, initially = sys.argv[1:6]
src = "%s/%s/_seed/%s" % (os.environ.get("SEEDBASE", "/tmp/seed"), pid, k)
dst = "/verif/seeded/%s-%s" % (pid, k)
os.makedirs(dst, exist_ok=True)
for f in ("patch.diff", "demo.py", "notes.md"):
    shutil.copy(os.path.join(src, f), os.path.join(dst, f))
head = subprocess.run(["git", "-C", "/repo", "rev-parse", "--short", "HEAD"], capture_output=True, text=True).stdout.strip()
stat = subprocess.run(["git", "-C", "/repo", "apply", "--stat", os.path.join(dst, "patch.diff")], capture_output=True, text=True).stdout.strip()
meta = {
    "property": pid,
    "origin": "independent sub-agent given only the property text and a scratch worktree of /repo at %s (nothing from /verif)" % head,
    "patch_stat": stat,
    "needs_to_manifest": needs,
    "confirmed_by_me": {
        "how": "tools/try_seed.sh %s %s all -- fresh scratch worktree of /repo HEAD: demo.py on the clean tree, `git apply patch.diff`, the 118 tests, demo.py again; then patch applied to /repo, every check run, `git -C /repo checkout -- .`" % (pid, k),
        "demo_clean_tree": "exit 0 (PASS)",
        "tests_with_patch": "118 passed",
        "demo_with_patch": "exit 1 (FAIL)",
    },
    "caught_by": caught,
    "initially": initially,
}
json.dump(meta, open(os.path.join(dst, "meta.json"), "w"), indent=1)
print("kept", dst)
