#!/bin/bash
# usage: tools/try_seed.sh <PID> <k> [all]   -- confirm a sub-agent's seeded change and run the checks against it
# 1. fresh scratch worktree of /repo HEAD: demo passes clean, patch applies, tests pass with patch, demo fails with patch
# 2. apply the patch to /repo, run the check(s), undo
set -u
PID=$1; K=$2; MODE=${3:-own}
SRC=${SEEDBASE:-/tmp/seed}/$PID/_seed/$K
WT=/tmp/seedchk_$PID$K
rm -rf $WT; git -C /repo worktree prune
git -C /repo worktree add -q --detach $WT HEAD || exit 9
cd $WT
echo "--- demo on clean tree"; PYTHONPATH=$WT timeout 300 /venv/bin/python $SRC/demo.py > /tmp/seedchk_out.txt 2>&1; C0=$?; tail -2 /tmp/seedchk_out.txt
git apply $SRC/patch.diff; A=$?
echo "--- patch applies: $A"; git diff --stat | tail -1
echo "--- tests with patch"; PYTHONPATH=$WT /venv/bin/python -m pytest -q -p no:cacheprovider -x dfols/tests 2>&1 | tail -1
echo "--- demo with patch"; PYTHONPATH=$WT timeout 300 /venv/bin/python $SRC/demo.py > /tmp/seedchk_out.txt 2>&1; C1=$?; tail -2 /tmp/seedchk_out.txt
echo "demo exit clean=$C0 patched=$C1"
cd /verif; git -C /repo worktree remove --force $WT
echo "--- checks against /repo with the patch applied"
git -C /repo apply $SRC/patch.diff || { echo "cannot apply to /repo"; exit 8; }
if [ "$MODE" = "all" ]; then LIST="C01 C02 C03 C04 C06 C07 C08 C09 C10 C11 C12 C13 C14 C15 C16 C17 C18 C19 C20"; else LIST=$PID; fi
for c in $LIST; do
  DFV_NO_EVIDENCE=1 python3-vt -m dfv check $c --no-evidence > /tmp/seedchk_c.txt 2>&1; E=$?
  if [ $E -ne 0 ]; then echo "== $c exit $E"; grep -v "^      " /tmp/seedchk_c.txt | grep -v KNOWN-FINDING | cut -c1-260 | head -6; fi
done
git -C /repo checkout -- .
git -C /repo status --short | head -3
echo "--- done"
