#!/usr/bin/env python3
"""Which rule ids have been seen *firing* by the self-test?  (A rule id that discharges obligations on the clean tree but never fires on any variant is a
candidate for vacuity -- C02-6's break clause was one.)  usage: python3-vt tools/rule_coverage.py [--jobs N]"""
import json, os, re, shutil, subprocess, sys, tempfile
from concurrent.futures import ThreadPoolExecutor
VERIF = os.path.dirname(os.path.dirname(os.path.abspath(__file__)))
sys.path.insert(0, VERIF)
from dfv.selftest.catalogue import V
from dfv.selftest.run import _seeded_variants, REPO
RID = re.compile(r"\b(C\d\d-\d+[a-z]?\.[A-Za-z0-9-]+)")


def scratch():
    tmp = tempfile.mkdtemp(prefix="dfvcov_")
    shutil.copytree(os.path.join(REPO, "dfols"), os.path.join(tmp, "dfols"), ignore=shutil.ignore_patterns("__pycache__", "tests"))
    shutil.copytree(os.path.join(REPO, "docs"), os.path.join(tmp, "docs"), ignore=shutil.ignore_patterns("build", "*.png", "*.html"))
    return tmp


def one(job):
    var, pid = job
    tmp = scratch()
    try:
        if var.get("patch"):
            if subprocess.run(["git", "apply", "--unsafe-paths", var["patch"]], cwd=tmp, capture_output=True).returncode:
                return var["id"], pid, set()
        else:
            edits = var.get("edits") or [(var["path"], var["old"], var["new"])]
            for ed in edits:
                p = os.path.join(tmp, ed[0])
                t = open(p).read()
                if ed[1] not in t:
                    return var["id"], pid, set()
                open(p, "w").write(t.replace(ed[1], ed[2]))
        r = subprocess.run([sys.executable, "-m", "dfv", "check", pid, "--root", tmp, "--no-evidence"], cwd=VERIF, capture_output=True, text=True, env=dict(os.environ, DFV_NO_EVIDENCE="1"))
        fired = set()
        for line in r.stdout.splitlines():
            if line.startswith(("VIOLATION", "KNOWN-FINDING", "      ")) or " tier=" in line:
                continue
            m = RID.search(line)
            if m:
                fired.add(m.group(1))
        return var["id"], pid, fired
    finally:
        shutil.rmtree(tmp, ignore_errors=True)


def main():
    jobs = 16
    work = [(v, p) for v in V if v["kind"] == "FIRE" for p in v["pids"]] + list(_seeded_variants())
    with ThreadPoolExecutor(max_workers=jobs) as ex:
        res = list(ex.map(one, work))
    fired = {}
    for vid, pid, rs in res:
        for r in rs:
            fired.setdefault(r, []).append(vid)
    # rule ids present in the evidence of the clean tree
    known = {}
    for f in sorted(os.listdir(os.path.join(VERIF, "evidence"))):
        txt = open(os.path.join(VERIF, "evidence", f)).read()
        for r in set(RID.findall(txt)):
            known.setdefault(r, f[:3])
    # violations reported on the clean tree as known findings also count as 'seen firing'
    kf = json.load(open(os.path.join(VERIF, "known_findings.json")))
    for k in kf.get("findings", []):
        m = RID.search(k.get("key", "") if isinstance(k, dict) else str(k))
        if m:
            fired.setdefault(m.group(1), []).append("known-finding")
    # ids that only carry an instance count (require_count) are not rules
    count_only = set(r for r in known if r.split(".", 1)[1] in ("frame-agreement", "exit-sites"))
    never = sorted(r for r in known if r not in fired and r not in count_only)
    print("%d rule ids in the evidence, %d seen firing, %d never seen firing:" % (len(known), len([r for r in known if r in fired]), len(never)))
    for r in never:
        print("   ", r)


if __name__ == "__main__":
    main()
