#!/usr/bin/env python3
"""Exploratory gap finder (NOT a registered check, nothing in MANIFEST.json runs it): a sampled sweep of small syntactic mutants of /repo/dfols.

For each sampled mutant: scratch copy of dfols/ + docs/ in a mkdtemp directory (removed afterwards), the 118 tests are run on it; if they still pass the
quick tier of every check is run against the copy (tools/allchecks.py, one process).  A mutant that survives the tests AND every check is printed as a
*survivor*: either an equivalent mutant, a change that breaks no listed property, or a gap of the checkers -- to be triaged by reading.  The sweep is the
only place where dfols is executed, and only through its own test-suite; the verdict of every check is still static.

usage: python3-vt tools/mutsweep.py --n 400 --seed 5 --jobs 8 --out /tmp/mutsweep.jsonl [--files solver.py,controller.py] [--ops cmp,bool,...]
"""
import ast
import json
import os
import random
import shutil
import subprocess
import sys
import tempfile
from concurrent.futures import ThreadPoolExecutor

VERIF = os.path.dirname(os.path.dirname(os.path.abspath(__file__)))
REPO = "/repo"
FILES = ["solver.py", "controller.py", "model.py", "util.py", "trust_region.py", "params.py", "diagnostic_info.py"]
CMP = {ast.Lt: [ast.LtE, ast.Gt], ast.LtE: [ast.Lt], ast.Gt: [ast.GtE, ast.Lt], ast.GtE: [ast.Gt], ast.Eq: [ast.NotEq], ast.NotEq: [ast.Eq],
       ast.Is: [ast.IsNot], ast.IsNot: [ast.Is]}
SIB = {"sl": "su", "su": "sl", "xl": "xu", "xu": "xl", "nf": "nx", "nx": "nf", "delta": "rho", "rho": "delta", "rhobeg": "rhoend", "rhoend": "rhobeg",
       "lower": "upper", "upper": "lower", "minimum": "maximum", "maximum": "minimum", "argsh": "argsf", "argsf": "argsh", "xlb": "xub", "xub": "xlb",
       "sl_abs": "su_abs", "su_abs": "sl_abs", "min": "max", "max": "min", "nsamples": "eval_num", "eval_num": "nsamples", "objsave": "objval",
       "rsave": "xsave", "xsave": "rsave", "kopt": "k", "nanargmin": "nanargmax", "argmin": "argmax", "any": "all", "all": "any"}


def seg(src_lines, node):
    """(start offset, end offset) of node in the joined source."""
    off = [0]
    for l in src_lines:
        off.append(off[-1] + len(l))
    # col offsets are utf8 byte offsets; the sources are ascii apart from comments -- convert through bytes
    def pos(line, col):
        b = src_lines[line - 1].encode("utf8")[:col]
        return off[line - 1] + len(b.decode("utf8"))
    return pos(node.lineno, node.col_offset), pos(node.end_lineno, node.end_col_offset)


def enclosing_function(tree):
    m = {}
    def walk(n, name):
        for c in ast.iter_child_nodes(n):
            nm = name
            if isinstance(c, (ast.FunctionDef, ast.ClassDef)):
                nm = (name + "." if name else "") + c.name
            m[id(c)] = nm
            walk(c, nm)
    walk(tree, "")
    return m


def mutants_of(fname, src):
    import copy
    tree = ast.parse(src)
    lines = src.splitlines(True)
    fn_of = enclosing_function(tree)
    out = []

    def add(node, new_node, op, stmt=False):
        try:
            s, e = seg(lines, node)
            txt = ast.unparse(new_node)
        except Exception:
            return
        if not stmt:
            txt = "(" + txt + ")"
        out.append(dict(file=fname, line=node.lineno, func=fn_of.get(id(node), ""), op=op, before=src[s:e][:120], after=txt[:120], s=s, e=e, txt=txt))

    docstrings = set()
    for n in ast.walk(tree):
        if isinstance(n, (ast.FunctionDef, ast.ClassDef, ast.Module)) and n.body and isinstance(n.body[0], ast.Expr) and isinstance(n.body[0].value, ast.Constant):
            docstrings.add(id(n.body[0]))
    for n in ast.walk(tree):
        if isinstance(n, ast.Compare) and len(n.ops) == 1 and type(n.ops[0]) in CMP:
            for k in CMP[type(n.ops[0])]:
                m = copy.deepcopy(n); m.ops = [k()]
                add(n, m, "cmp")
        elif isinstance(n, ast.BoolOp):
            m = copy.deepcopy(n); m.op = ast.Or() if isinstance(n.op, ast.And) else ast.And()
            add(n, m, "bool")
        elif isinstance(n, ast.BinOp) and isinstance(n.op, (ast.Add, ast.Sub)) and not isinstance(n.left, ast.Constant) :
            if isinstance(n.left, ast.Constant) and isinstance(n.left.value, str):
                continue
            m = copy.deepcopy(n); m.op = ast.Sub() if isinstance(n.op, ast.Add) else ast.Add()
            add(n, m, "arith")
        elif isinstance(n, ast.Constant) and type(n.value) is int and 0 <= n.value <= 3:
            for d in (1, -1):
                m = ast.Constant(n.value + d)
                add(n, m, "const")
        elif isinstance(n, ast.Constant) and type(n.value) is bool:
            add(n, ast.Constant(not n.value), "boolconst")
        elif isinstance(n, ast.UnaryOp) and isinstance(n.op, ast.Not):
            add(n, copy.deepcopy(n.operand), "unnot")
        elif isinstance(n, ast.Call):
            simple = [i for i, a in enumerate(n.args) if isinstance(a, (ast.Name, ast.Attribute, ast.Subscript))]
            for i in simple:
                if i + 1 in simple and ast.dump(n.args[i]) != ast.dump(n.args[i + 1]):
                    m = copy.deepcopy(n); m.args[i], m.args[i + 1] = m.args[i + 1], m.args[i]
                    add(n, m, "argswap")
        if isinstance(n, ast.Name) and n.id in SIB and isinstance(n.ctx, ast.Load):
            add(n, ast.Name(SIB[n.id], ast.Load()), "sibling")
        elif isinstance(n, ast.Attribute) and n.attr in SIB and isinstance(n.ctx, ast.Load):
            m = copy.deepcopy(n); m.attr = SIB[n.attr]
            add(n, m, "sibling")
        if isinstance(n, (ast.If, ast.While)) :
            add(n.test, ast.UnaryOp(ast.Not(), copy.deepcopy(n.test)), "negtest")
        if isinstance(n, (ast.AugAssign,)) or (isinstance(n, ast.Assign) and any(isinstance(t, (ast.Attribute, ast.Subscript)) for t in n.targets)) \
                or (isinstance(n, ast.Expr) and isinstance(n.value, ast.Call) and id(n) not in docstrings):
            if isinstance(n, ast.Expr) and isinstance(n.value.func, ast.Attribute) and n.value.func.attr in ("debug", "info", "warning", "error"):
                continue
            add(n, ast.Pass(), "delete", stmt=True)
        if isinstance(n, ast.Break):
            add(n, ast.Continue(), "brk", stmt=True)
        elif isinstance(n, ast.Continue):
            add(n, ast.Break(), "brk", stmt=True)
    return out


def allchecks(root):
    r = subprocess.run([sys.executable, os.path.join(VERIF, "tools", "allchecks.py"), root], capture_output=True, text=True, timeout=900, cwd=VERIF)
    res = {}
    for ln in r.stdout.splitlines():
        p = ln.split(" ", 2)
        if len(p) >= 2 and p[0].startswith("C") and p[1].isdigit():
            res[p[0]] = (int(p[1]), p[2] if len(p) > 2 else "")
    if not res:
        res = {"ERR": (2, r.stderr[-300:])}
    return res


def one(m):
    tmp = tempfile.mkdtemp(prefix="dfvsweep_")
    try:
        shutil.copytree(os.path.join(REPO, "dfols"), os.path.join(tmp, "dfols"), ignore=shutil.ignore_patterns("__pycache__"))
        shutil.copytree(os.path.join(REPO, "docs"), os.path.join(tmp, "docs"), ignore=shutil.ignore_patterns("build", "*.png", "*.html"))
        p = os.path.join(tmp, "dfols", m["file"])
        src = open(p).read()
        new = src[:m["s"]] + m["txt"] + src[m["e"]:]
        try:
            compile(new, p, "exec")
        except SyntaxError:
            m["tests"] = "syntax"
            return m
        open(p, "w").write(new)
        try:
            r = subprocess.run(["/venv/bin/python", "-m", "pytest", "-q", "-x", "-p", "no:cacheprovider", "--timeout=60", "dfols/tests"], cwd=tmp,
                               env=dict(os.environ, PYTHONPATH=tmp), capture_output=True, text=True, timeout=400)
            m["tests"] = "pass" if r.returncode == 0 else "fail"
        except subprocess.TimeoutExpired:
            m["tests"] = "timeout"
        if m["tests"] == "pass":
            res = allchecks(tmp)
            m["checks"] = dict((k, v[0]) for k, v in res.items() if v[0] != 0)
            m["first"] = dict((k, v[1][:160]) for k, v in res.items() if v[0] != 0)
        return m
    finally:
        shutil.rmtree(tmp, ignore_errors=True)


def main():
    a = sys.argv[1:]
    def opt(name, dflt):
        if name in a:
            return a[a.index(name) + 1]
        return dflt
    n = int(opt("--n", "100")); seed = int(opt("--seed", "1")); jobs = int(opt("--jobs", "8")); outp = opt("--out", "/tmp/mutsweep.jsonl")
    files = opt("--files", ",".join(FILES)).split(",")
    ops = opt("--ops", "")
    funcs = opt("--funcs", "")
    allm = []
    for f in files:
        allm += mutants_of(f, open(os.path.join(REPO, "dfols", f)).read())
    if ops:
        allm = [m for m in allm if m["op"] in ops.split(",")]
    if funcs:
        allm = [m for m in allm if any(m["func"].endswith(x) for x in funcs.split(","))]
    rnd = random.Random(seed)
    rnd.shuffle(allm)
    sample = allm[:n]
    print("%d candidate mutants, %d sampled" % (len(allm), len(sample)), flush=True)
    surv = 0; killed_tests = 0; caught = 0
    with open(outp, "a") as fh, ThreadPoolExecutor(max_workers=jobs) as ex:
        for m in ex.map(one, sample):
            rec = dict((k, v) for k, v in m.items() if k not in ("s", "e", "txt"))
            fh.write(json.dumps(rec) + "\n"); fh.flush()
            if m["tests"] != "pass":
                killed_tests += 1
            elif m.get("checks"):
                caught += 1
            else:
                surv += 1
                print("SURVIVOR %s:%d %s [%s] %s -> %s" % (m["file"], m["line"], m["func"], m["op"], m["before"].replace("\n", " ")[:90], m["after"][:90]), flush=True)
    print("done: %d killed by the tests, %d survive the tests and are caught by a check, %d survive both" % (killed_tests, caught, surv))


if __name__ == "__main__":
    main()
