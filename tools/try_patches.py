#!/usr/bin/env python3
"""Run every check against each patch of a directory tree, on scratch copies of /repo (removed afterwards).

usage: python3-vt tools/try_patches.py <dir-with-*/patch.diff> [--jobs N] [--checks C01,C02]
Prints, per patch, the checks that did not exit 0 with their first violation / analysis-error lines.
Meant for behaviour-preserving refactorings (every non-zero exit is a false alarm to be triaged) and for a first look at seeded changes.
"""
import glob
import os
import shutil
import subprocess
import sys
import tempfile
from concurrent.futures import ThreadPoolExecutor

VERIF = os.path.dirname(os.path.dirname(os.path.abspath(__file__)))
REPO = "/repo"
ALL = "C01 C02 C03 C04 C06 C07 C08 C09 C10 C11 C12 C13 C14 C15 C16 C17 C18 C19 C20".split()


def one(job):
    patch, checks = job
    tmp = tempfile.mkdtemp(prefix="dfvpatch_")
    out = []
    try:
        shutil.copytree(os.path.join(REPO, "dfols"), os.path.join(tmp, "dfols"), ignore=shutil.ignore_patterns("__pycache__"))
        shutil.copytree(os.path.join(REPO, "docs"), os.path.join(tmp, "docs"), ignore=shutil.ignore_patterns("build", "*.png", "*.html"))
        r = subprocess.run(["git", "apply", "--unsafe-paths", patch], cwd=tmp, capture_output=True, text=True)
        if r.returncode != 0:
            return (patch, [("-", 9, "patch does not apply: %s" % r.stderr.strip()[:200])])
        env = dict(os.environ, DFV_NO_EVIDENCE="1")
        for c in checks:
            r = subprocess.run([sys.executable, "-m", "dfv", "check", c, "--root", tmp, "--no-evidence"], cwd=VERIF, capture_output=True, text=True, env=env, timeout=900)
            if r.returncode != 0:
                lines = [l for l in r.stdout.splitlines() if l and not l.startswith("      ") and "KNOWN-FINDING" not in l and not l.startswith("VIOLATION")]
                out.append((c, r.returncode, "\n      ".join(l[:300] for l in lines[:5]) + ("\n      " + r.stderr.strip()[-300:] if r.returncode not in (1, 2) else "")))
        return (patch, out)
    finally:
        shutil.rmtree(tmp, ignore_errors=True)


def main():
    args = sys.argv[1:]
    jobs = 16
    checks = ALL
    if "--jobs" in args:
        i = args.index("--jobs"); jobs = int(args[i + 1]); del args[i:i + 2]
    if "--checks" in args:
        i = args.index("--checks"); checks = args[i + 1].split(","); del args[i:i + 2]
    patches = []
    for a in args:
        if a.endswith(".diff"):
            patches.append(a)
        else:
            patches += sorted(glob.glob(os.path.join(a, "*", "patch.diff")))
    patches = [os.path.abspath(p) for p in patches]
    with ThreadPoolExecutor(max_workers=jobs) as ex:
        res = list(ex.map(one, [(p, checks) for p in patches]))
    bad = 0
    for patch, out in res:
        if out:
            bad += 1
            print("== %s" % patch)
            for (c, rc, txt) in out:
                print("   %s exit %d\n      %s" % (c, rc, txt))
        else:
            print("ok %s" % patch)
    print("%d patches, %d with a non-zero check" % (len(res), bad))


if __name__ == "__main__":
    main()
