"""dfv -- static-analysis checkers for the dfols properties C01..C20.

Nothing in this package imports or runs dfols.  Everything is decided from the
AST of /repo/dfols/*.py and the text of /repo/docs/*.rst.
"""
REPO = "/repo"
