"""Self-test harness: apply catalogue edits to scratch copies of the current /repo and run the checks against them.

Scratch copies live in mkdtemp directories outside /repo and /verif and are removed as soon as the variant is judged.
Nothing from dfols is executed: variants are only compile()d and analysed.
"""
import os
import shutil
import subprocess
import sys
import tempfile
import time
from concurrent.futures import ThreadPoolExecutor

from .. import REPO
from .catalogue import V

VERIF = os.path.dirname(os.path.dirname(os.path.dirname(os.path.abspath(__file__))))


def _seeded_variants():
    """Confirmed sub-agent seeds kept under /verif/seeded/<id>/ : patch.diff applied to the scratch copy with `git apply`;
    meta.json names the checks that must catch it (field caught_by_checks)."""
    import json
    out = []
    sd = os.path.join(VERIF, "seeded")
    if not os.path.isdir(sd):
        return out
    for d in sorted(os.listdir(sd)):
        mp = os.path.join(sd, d, "meta.json")
        pp = os.path.join(sd, d, "patch.diff")
        if os.path.exists(mp) and os.path.exists(pp):
            meta = json.load(open(mp))
            for pid in meta.get("caught_by_checks", []):
                out.append(({"id": "seed-" + d, "kind": "FIRE", "pids": [pid], "patch": pp, "expect": None, "path": None}, pid))
    return out


ALL_PIDS = "C01 C02 C03 C04 C06 C07 C08 C09 C10 C11 C12 C13 C14 C15 C16 C17 C18 C19 C20".split()


def _refactoring_variants():
    """Behaviour-preserving refactorings written by independent sub-agents (/verif/refactorings/<id>/patch.diff + notes.md): every check must stay silent
    on every one of them."""
    out = []
    rd = os.path.join(VERIF, "refactorings")
    if not os.path.isdir(rd):
        return out
    for d in sorted(os.listdir(rd)):
        pp = os.path.join(rd, d, "patch.diff")
        if os.path.exists(pp):
            for pid in ALL_PIDS:
                out.append(({"id": "refac-" + d, "kind": "SILENT", "pids": [pid], "patch": pp, "expect": None, "path": None}, pid))
    return out


def _one(job):
    var, pid = job
    if var.get("patch"):
        return _one_patch(var, pid)
    if var.get("edits"):
        return _one_multi(var, pid)
    src = os.path.join(REPO, var["path"])
    try:
        text = open(src).read()
    except OSError:
        return (var["id"], pid, "skipped", "file missing")
    n = text.count(var["old"])
    if n == 0 or (n > 1 and not var["all"]):
        return (var["id"], pid, "skipped", "anchor text occurs %d times" % n)
    new_text = text.replace(var["old"], var["new"])
    try:
        compile(new_text, src, "exec")
    except SyntaxError as e:
        return (var["id"], pid, "error", "variant does not compile: %s" % e)
    tmp = tempfile.mkdtemp(prefix="dfvself_")
    try:
        shutil.copytree(os.path.join(REPO, "dfols"), os.path.join(tmp, "dfols"), ignore=shutil.ignore_patterns("__pycache__", "tests"))
        shutil.copytree(os.path.join(REPO, "docs"), os.path.join(tmp, "docs"), ignore=shutil.ignore_patterns("build", "*.png", "*.html"))
        with open(os.path.join(tmp, var["path"]), "w") as fh:
            fh.write(new_text)
        env = dict(os.environ, DFV_NO_EVIDENCE="1")
        r = subprocess.run([sys.executable, "-m", "dfv", "check", pid, "--root", tmp, "--no-evidence"], cwd=VERIF, capture_output=True, text=True, env=env, timeout=600)
        out = r.stdout
        if var["kind"] == "FIRE":
            if r.returncode == 1 and "VIOLATION" in out and (not var["expect"] or any(e in out for e in var["expect"].split("|"))):
                return (var["id"], pid, "fired", "")
            return (var["id"], pid, "missed", "exit %d; expected a VIOLATION mentioning %r; tail: %s" % (r.returncode, var["expect"], out[-300:].replace("\n", " | ")))
        if r.returncode == 0 and "VIOLATION" not in out:
            return (var["id"], pid, "silent", "")
        return (var["id"], pid, "false-alarm", "exit %d on a behaviour-preserving rewrite; tail: %s" % (r.returncode, (out + r.stderr)[-400:].replace("\n", " | ")))
    except subprocess.TimeoutExpired:
        return (var["id"], pid, "error", "timeout")
    finally:
        shutil.rmtree(tmp, ignore_errors=True)


def _one_multi(var, pid):
    """Several textual edits (possibly in several files, docs included) applied together."""
    texts = {}
    for ed in var["edits"]:
        path, old, new = ed[0], ed[1], ed[2]
        allocc = len(ed) > 3 and ed[3]
        src = os.path.join(REPO, path)
        if path not in texts:
            try:
                texts[path] = open(src).read()
            except OSError:
                return (var["id"], pid, "skipped", "file missing")
        if texts[path].count(old) == 0 or (texts[path].count(old) != 1 and not allocc):
            return (var["id"], pid, "skipped", "anchor text of %s occurs %d times" % (path, texts[path].count(old)))
        texts[path] = texts[path].replace(old, new)
    for path, t in texts.items():
        if path.endswith(".py"):
            try:
                compile(t, path, "exec")
            except SyntaxError as e:
                return (var["id"], pid, "error", "variant does not compile: %s" % e)
    tmp = tempfile.mkdtemp(prefix="dfvself_")
    try:
        shutil.copytree(os.path.join(REPO, "dfols"), os.path.join(tmp, "dfols"), ignore=shutil.ignore_patterns("__pycache__", "tests"))
        shutil.copytree(os.path.join(REPO, "docs"), os.path.join(tmp, "docs"), ignore=shutil.ignore_patterns("build", "*.png", "*.html"))
        for path, t in texts.items():
            with open(os.path.join(tmp, path), "w") as fh:
                fh.write(t)
        env = dict(os.environ, DFV_NO_EVIDENCE="1")
        r = subprocess.run([sys.executable, "-m", "dfv", "check", pid, "--root", tmp, "--no-evidence"], cwd=VERIF, capture_output=True, text=True, env=env, timeout=600)
        out = r.stdout
        if var["kind"] == "FIRE":
            if r.returncode == 1 and "VIOLATION" in out and (not var["expect"] or any(e in out for e in var["expect"].split("|"))):
                return (var["id"], pid, "fired", "")
            return (var["id"], pid, "missed", "exit %d; tail: %s" % (r.returncode, out[-300:].replace("\n", " | ")))
        if r.returncode == 0 and "VIOLATION" not in out:
            return (var["id"], pid, "silent", "")
        return (var["id"], pid, "false-alarm", "exit %d on a behaviour-preserving rewrite; tail: %s" % (r.returncode, (out + r.stderr)[-400:].replace("\n", " | ")))
    finally:
        shutil.rmtree(tmp, ignore_errors=True)


def _one_patch(var, pid):
    tmp = tempfile.mkdtemp(prefix="dfvself_")
    try:
        shutil.copytree(os.path.join(REPO, "dfols"), os.path.join(tmp, "dfols"), ignore=shutil.ignore_patterns("__pycache__"))
        shutil.copytree(os.path.join(REPO, "docs"), os.path.join(tmp, "docs"), ignore=shutil.ignore_patterns("build", "*.png", "*.html"))
        r = subprocess.run(["git", "apply", "--unsafe-paths", var["patch"]], cwd=tmp, capture_output=True, text=True)
        if r.returncode != 0:
            return (var["id"], pid, "skipped", "patch no longer applies: %s" % r.stderr.strip()[:120])
        for root, _d, files in os.walk(os.path.join(tmp, "dfols")):
            for f in files:
                if f.endswith(".py"):
                    try:
                        compile(open(os.path.join(root, f)).read(), f, "exec")
                    except SyntaxError as e:
                        return (var["id"], pid, "error", "does not compile: %s" % e)
        env = dict(os.environ, DFV_NO_EVIDENCE="1")
        r = subprocess.run([sys.executable, "-m", "dfv", "check", pid, "--root", tmp, "--no-evidence"], cwd=VERIF, capture_output=True, text=True, env=env, timeout=600)
        if var["kind"] == "SILENT":
            if r.returncode == 0 and "VIOLATION" not in r.stdout:
                return (var["id"], pid, "silent", "")
            return (var["id"], pid, "false-alarm", "exit %d on a behaviour-preserving refactoring; tail: %s" % (r.returncode, (r.stdout + r.stderr)[-400:].replace("\n", " | ")))
        if r.returncode == 1 and "VIOLATION" in r.stdout:
            return (var["id"], pid, "fired", "")
        return (var["id"], pid, "missed", "exit %d; tail: %s" % (r.returncode, r.stdout[-300:].replace("\n", " | ")))
    finally:
        shutil.rmtree(tmp, ignore_errors=True)


def run_variants(pids=None, kinds=("FIRE", "SILENT"), jobs=16, ids=None):
    work = []
    for var in V:
        if var["kind"] not in kinds:
            continue
        if ids and var["id"] not in ids:
            continue
        for pid in var["pids"]:
            if pids and pid not in pids:
                continue
            work.append((var, pid))
    if "FIRE" in kinds:
        for (var, pid) in _seeded_variants():
            if pids and pid not in pids:
                continue
            if ids and var["id"] not in ids:
                continue
            work.append((var, pid))
    if "SILENT" in kinds:
        for (var, pid) in _refactoring_variants():
            if pids and pid not in pids:
                continue
            if ids and var["id"] not in ids:
                continue
            work.append((var, pid))
    t0 = time.time()
    with ThreadPoolExecutor(max_workers=jobs) as ex:
        res = list(ex.map(_one, work))
    return res, time.time() - t0


def summarise(res):
    out = {"fired": 0, "missed": 0, "silent": 0, "false-alarm": 0, "skipped": 0, "error": 0}
    for (_v, _p, st, _m) in res:
        out[st] += 1
    return out


def main(argv):
    import argparse
    ap = argparse.ArgumentParser(prog="dfv selftest")
    ap.add_argument("--pid", action="append")
    ap.add_argument("--kind", action="append")
    ap.add_argument("--id", action="append")
    ap.add_argument("--jobs", type=int, default=16)
    a = ap.parse_args(argv)
    res, dt = run_variants(a.pid, tuple(a.kind) if a.kind else ("FIRE", "SILENT"), a.jobs, a.id)
    for (vid, pid, st, msg) in res:
        if st not in ("fired", "silent"):
            print("%-34s %-4s %-11s %s" % (vid, pid, st, msg[:400]))
    s = summarise(res)
    print("selftest: %s in %.1f s" % (s, dt))
    return 0 if not (s["missed"] or s["false-alarm"] or s["error"]) else 2
