"""Self-test catalogue: edits applied to a scratch copy of the *current* /repo (never to /repo itself).

  FIRE    one construct broken in a way the existing tests do not notice; the named check must exit 1 and its output must
          mention `expect` (a fragment of the rule id / key that identifies the broken construct).
  SILENT  behaviour-preserving rewrite; the named checks must keep their verdict (exit 0, no VIOLATION).

An edit whose `old` text is absent (because /repo changed) is *skipped* and counted as skipped -- never a failure.
Every variant must still compile (compile() only; nothing is executed).
"""

F = "FIRE"
S = "SILENT"

V = []


def add_multi(vid, kind, pids, edits, expect=None):
    V.append({"id": vid, "kind": kind, "pids": pids if isinstance(pids, (list, tuple)) else [pids], "edits": edits, "expect": expect, "path": None, "all": False})


def add(vid, kind, pids, path, old, new, expect=None, all_occurrences=False):
    V.append({"id": vid, "kind": kind, "pids": pids if isinstance(pids, (list, tuple)) else [pids], "path": path, "old": old, "new": new,
              "expect": expect, "all": all_occurrences})


# --------------------------------------------------------------------------------------------------- FIRE
add("budget-guard-controller-gt", F, "C02", "dfols/controller.py", "if self.nf >= self.maxfun:", "if self.nf > self.maxfun:", "C02-1")
add("budget-guard-x0-gt", F, "C02", "dfols/solver.py", "            if nf >= maxfun:", "            if nf > maxfun:", "C02-1")
add("nx-per-sample", F, "C02", "dfols/controller.py", "            if not incremented_nx:\n                self.nx += 1\n                incremented_nx = True", "            self.nx += 1", "C02-5")
add("stale-nf-returned", F, "C02", "dfols/solver.py", "return x, rvec, obj, jacmin, nsamples, control.nf, control.nx, nruns_so_far, exit_info",
    "return x, rvec, obj, jacmin, nsamples, nf, control.nx, nruns_so_far, exit_info", "C02-3b")
add("pt-num-is-nf", F, "C02", "dfols/controller.py", "eval_num=self.nf, pt_num=self.nx,", "eval_num=self.nf, pt_num=self.nf,", "C02-4")
add("drop-max-nsamples-1", F, "C02", "dfols/solver.py",
    "number_of_samples = max(nsamples(control.delta, control.rho, current_iter, nruns_so_far), 1)\n            rvec_list, obj_list, num_samples_run, exit_info = control.evaluate_objective(x, number_of_samples, params)",
    "number_of_samples = nsamples(control.delta, control.rho, current_iter, nruns_so_far)\n            rvec_list, obj_list, num_samples_run, exit_info = control.evaluate_objective(x, number_of_samples, params)", "C02-6")
add("hard-restart-loop-le", F, "C02", "dfols/solver.py", "not params(\"restarts.use_soft_restarts\") and nf < maxfun and", "not params(\"restarts.use_soft_restarts\") and nf <= maxfun and", "C02-2")
add("second-objfun-call", F, ["C02", "C01"], "dfols/controller.py", "        gopt, H = self.model.build_full_model()  # save here, to calculate predicted value from geometry step",
    "        gopt, H = self.model.build_full_model()  # save here, to calculate predicted value from geometry step\n        _probe = self.objfun(remove_scaling(self.model.xopt(abs_coordinates=True), self.scaling_changes), *self.argsf)", "single-sink")

add("change-point-labelled-nf", F, "C03", "dfols/controller.py",
    "self.model.change_point(knew, xnew, rvec_list[0, :], self.nx)  # expect step, not absolute x\n        for i in range(1, num_samples_run):\n            self.model.add_new_sample(knew, rvec_extra=rvec_list[i, :])\n\n        # Estimate actual",
    "self.model.change_point(knew, xnew, rvec_list[0, :], self.nf)  # expect step, not absolute x\n        for i in range(1, num_samples_run):\n            self.model.add_new_sample(knew, rvec_extra=rvec_list[i, :])\n\n        # Estimate actual", "C03-1")
add("slot-fields-crossed", F, "C03", "dfols/model.py", "            self.nsamples_save = nsamples\n            self.eval_num_save = eval_num", "            self.nsamples_save = eval_num\n            self.eval_num_save = nsamples", "C03-1")
add("final-record-mixed", F, "C03", "dfols/model.py", "self.jacsave, self.nsamples_save, self.eval_num_save, self.jacsave_eval_nums", "self.jacsave, self.nsamples_save, self.eval_num[self.kopt], self.jacsave_eval_nums", "C03-4")
add("save-wrong-point", F, "C03", "dfols/solver.py",
    "control.model.save_point(x, np.mean(rvec_list[:num_samples_run, :], axis=0), num_samples_run, control.nx,\n                                             x_in_abs_coords=True)\n                nruns_so_far += 1",
    "control.model.save_point(control.model.xopt(abs_coordinates=True), np.mean(rvec_list[:num_samples_run, :], axis=0), num_samples_run, control.nx,\n                                             x_in_abs_coords=True)\n                nruns_so_far += 1", "C03-3")
add("soft-restart-swap-back", F, "C03", "dfols/controller.py", "self.model.ropt(), self.model.nsamples[self.model.kopt],\n                              self.model.eval_num[self.model.kopt], x_in_abs_coords=True)",
    "self.model.ropt(), self.nx,\n                              self.model.nsamples[self.model.kopt], x_in_abs_coords=True)", "C03-1")
add("x0-exit-without-h", F, "C03", "dfols/solver.py", "            if h is not None:\n                obj0_avg += h(remove_scaling(x0, scaling_changes), *argsh)\n", "", "C03-5")
add("model-init-label-1", F, ["C03", "C11"], "dfols/model.py", "self.eval_num[0] = x0_eval_num", "self.eval_num[0] = 1", "labels|evaluation-number")
add("merge-without-eval-num", F, "C03", "dfols/solver.py", "(xmin, rmin, objmin, nsamples_min, xmin_eval_num) = (xmin2, rmin2, objmin2, nsamples2, xmin_eval_num2)",
    "(xmin, rmin, objmin, nsamples_min) = (xmin2, rmin2, objmin2, nsamples2)", "C03-4")

add("drop-save-after-ratio", F, "C04", "dfols/solver.py",
    "            if exit_info is not None:\n                # Quitting/restarting without adding the new point to the model - save it, in case it is the best so far\n                if num_samples_run > 0:\n                    control.model.save_point(x, np.mean(rvec_list[:num_samples_run, :], axis=0), num_samples_run, control.nx,\n                                             x_in_abs_coords=True)\n                if exit_info.able_to_do_restart()",
    "            if exit_info is not None:\n                if exit_info.able_to_do_restart()", "C04-1")
add("drop-save-geometry-step", F, "C04", "dfols/controller.py",
    "        if exit_info is not None:\n            if num_samples_run > 0:\n                self.model.save_point(x, np.mean(rvec_list[:num_samples_run, :], axis=0), num_samples_run, self.nx,\n                                      x_in_abs_coords=True)\n            return exit_info  # didn't fix geometry - return & quit",
    "        if exit_info is not None:\n            return exit_info  # didn't fix geometry - return & quit", "C04-1")
add("incumbent-save-after-geometry", F, "C04", "dfols/controller.py",
    "        self.model.save_point(self.model.xopt(abs_coordinates=True), self.model.ropt(), self.model.nsamples[self.model.kopt],\n                              self.model.eval_num[self.model.kopt], x_in_abs_coords=True)\n",
    "", "C04-2")
add("change-point-le", F, ["C04", "C17"], "dfols/model.py", "if allow_kopt_update and (self.objval[k] < self.objopt() or np.isnan(self.objopt())):", "if allow_kopt_update and (self.objval[k] > self.objopt() or np.isnan(self.objopt())):", "ORDER")
add("final-selection-ge", F, ["C04", "C17"], "dfols/model.py", "or self.objopt() <= self.objsave:", "or self.objopt() >= self.objsave:", "ORDER")
add("return-bypasses-selection", F, ["C04", "C03"], "dfols/solver.py",
    "    return x, rvec, obj, jacmin, nsamples, control.nf, control.nx, nruns_so_far, exit_info, diagnostic_info, x_eval_num, jac_eval_nums",
    "    return control.model.xopt(abs_coordinates=True), rvec, obj, jacmin, nsamples, control.nf, control.nx, nruns_so_far, exit_info, diagnostic_info, x_eval_num, jac_eval_nums", "final-selection")

add("input-error-arity", F, "C07", "dfols/solver.py", "OptimResults(None, None, None, None, 0, 0, 0, exit_flag, exit_msg, None, None)", "OptimResults(None, None, None, None, 0, 0, 0, exit_flag, exit_msg)", "C07-1")
add("rhobeg-guard-weakened", F, "C07", "dfols/solver.py", "if exit_info is None and rhobeg <= 0.0:", "if exit_info is None and rhobeg < 0.0:", "C07-3")
add("maxfun-guard-removed", F, "C07", "dfols/solver.py",
    "    if exit_info is None and maxfun <= 0:\n        exit_info = ExitInformation(EXIT_INPUT_ERROR, \"maxfun must be strictly positive\")\n", "", "missing-guard")
add("first-error-not-first", F, "C07", "dfols/solver.py", "if exit_info is None and rhoend <= 0.0:", "if rhoend <= 0.0:", "C07-2")
add("exit-attr-deleted", F, "C07", "dfols/solver.py", "        self.EXIT_LINALG_ERROR = EXIT_LINALG_ERROR\n", "", "C07-4")
add("typo-param-key", F, "C07", "dfols/controller.py", "params(\"restarts.soft.move_xk\")", "params(\"restarts.soft.move_xkk\")", "C07-5")
add("unknown-key-returns-none", F, "C07", "dfols/params.py", "            raise ValueError(\"Unknown parameter '%s'\" % key)", "            return None", "C07-6")
add("new-raise-in-solve-path", F, "C07", "dfols/controller.py", "        if num_steps < 1:  # not actually adding new directions\n            return None",
    "        if num_steps < 1:  # not actually adding new directions\n            raise RuntimeError(\"nothing to add\")", "C07-7")
add("break-without-exit-info", F, "C07", "dfols/solver.py",
    "                exit_info = ExitInformation(EXIT_SUCCESS, \"All points within noise level\")\n                nruns_so_far += 1\n                break  # quit",
    "                nruns_so_far += 1\n                break  # quit", "C07-9")
add("message-stem-missing", F, "C07", "dfols/controller.py", "        elif self.flag == EXIT_EVAL_ERROR:\n            return \"Error (function evaluation): \" + self.msg\n", "", "no-stem")
add("evaluation-before-validation", F, "C07", "dfols/solver.py", "    exit_info = None\n    if bounds is not None and len(bounds) != 2:",
    "    _r0 = objfun(x0, *argsf)\n    exit_info = None\n    if bounds is not None and len(bounds) != 2:", "before-graceful-return")

add("save-point-nan-holder", F, ["C08", "C17"], "dfols/model.py", "if self.objsave is None or np.isnan(self.objsave) or obj <= self.objsave:", "if self.objsave is None or obj <= self.objsave:", "NAN_HOLDER")
add("argmin-not-nan-aware", F, "C08", "dfols/model.py", "self.kopt = np.nanargmin(objvals)", "self.kopt = np.argmin(objvals)", "C08-1c")
add("try-around-evaluation", F, "C08", "dfols/controller.py",
    "            rvec_list[i, :], obj_list[i] = eval_least_squares_with_regularisation(self.objfun, remove_scaling(x, self.scaling_changes), self.h,\n                                            argsf=self.argsf, argsh=self.argsh, verbose=self.do_logging, eval_num=self.nf, pt_num=self.nx,\n                                            full_x_thresh=params(\"logging.n_to_print_whole_x_vector\"),\n                                            check_for_overflow=params(\"general.check_objfun_for_overflow\"))",
    "            try:\n                rvec_list[i, :], obj_list[i] = eval_least_squares_with_regularisation(self.objfun, remove_scaling(x, self.scaling_changes), self.h,\n                                            argsf=self.argsf, argsh=self.argsh, verbose=self.do_logging, eval_num=self.nf, pt_num=self.nx,\n                                            full_x_thresh=params(\"logging.n_to_print_whole_x_vector\"),\n                                            check_for_overflow=params(\"general.check_objfun_for_overflow\"))\n            except Exception:\n                rvec_list[i, :] = np.nan", "C08-2")
add("merge-nan-old", F, "C08", "dfols/solver.py", "if objmin2 < objmin or np.isnan(objmin):", "if objmin2 < objmin:", "NAN_HOLDER")

add("drop-nruns-noise-exit", F, "C10", "dfols/solver.py",
    "                exit_info = ExitInformation(EXIT_SUCCESS, \"All points within noise level\")\n                nruns_so_far += 1\n", "                exit_info = ExitInformation(EXIT_SUCCESS, \"All points within noise level\")\n", "C10-5")
add("unsuccessful-restarts-gt", F, "C10", "dfols/controller.py",
    "            if nruns_so_far - self.last_successful_run >= params(\"restarts.max_unsuccessful_restarts\"):\n                exit_info = ExitInformation(EXIT_SUCCESS",
    "            if nruns_so_far - self.last_successful_run > params(\"restarts.max_unsuccessful_restarts\"):\n                exit_info = ExitInformation(EXIT_SUCCESS", "C10-")
add("small-objective-without-h", F, "C10", "dfols/controller.py",
    "sumsq(np.mean(rvec_list[:num_samples_run, :], axis=0)) + self.h(remove_scaling(x, self.scaling_changes),*self.argsh) <= self.model.min_objective_value():",
    "sumsq(np.mean(rvec_list[:num_samples_run, :], axis=0)) <= self.model.min_objective_value():", "C10-1")
add("x0-double-count-back", F, "C10", "dfols/solver.py",
    "                break  # stop evaluating at x0 (this run is counted in the return statement below)", "                nruns_so_far += 1\n                break  # stop evaluating at x0", "C10-5")
add("rhoend-exit-unguarded", F, "C10", "dfols/solver.py", "            elif control.rho > rhoend:\n                # Reduce rho", "            elif control.rho > rhoend and finished_growing:\n                # Reduce rho", "C10-2")
add("tolerance-min-instead-of-max", F, "C10", "dfols/model.py", "return max(self.abs_tol, self.rel_tol * self.objbeg)", "return min(self.abs_tol, self.rel_tol * self.objbeg)", "C10-1b")

add("as-absolute-without-clamp", F, ["C01"], "dfols/model.py",
    "return np.minimum(np.maximum(self.xl_abs, self.xbase + np.minimum(np.maximum(self.sl, x), self.su)), self.xu_abs)", "return self.xbase + x", "exactness")
add("shift-base-sign", F, ["C01"], "dfols/model.py", "        self.sl = self.sl - xbase_shift\n", "        self.sl = self.sl + xbase_shift\n", "C01-5")
add("x0-not-scaled", F, "C01", "dfols/solver.py", "    x0 = apply_scaling(x0, scaling_changes)\n", "", "C01-")
add("evaluate-unclamped-sum", F, "C01", "dfols/controller.py",
    "            x = self.model.as_absolute_coordinates(xnew)\n            rvec_list, obj_list, num_samples_run, exit_info = self.evaluate_objective(x, number_of_samples, params)\n\n            # Handle exit conditions (f < min obj value or maxfun reached)\n            if exit_info is not None:\n                if num_samples_run > 0:\n                    self.model.save_point(x, np.mean(rvec_list[:num_samples_run, :], axis=0), num_samples_run, self.nx,\n                                          x_in_abs_coords=True)\n                return exit_info  # return & quit\n\n            if self.model.npt() < self.model.num_pts:",
    "            x = self.model.xbase + xnew\n            rvec_list, obj_list, num_samples_run, exit_info = self.evaluate_objective(x, number_of_samples, params)\n\n            # Handle exit conditions (f < min obj value or maxfun reached)\n            if exit_info is not None:\n                if num_samples_run > 0:\n                    self.model.save_point(x, np.mean(rvec_list[:num_samples_run, :], axis=0), num_samples_run, self.nx,\n                                          x_in_abs_coords=True)\n                return exit_info  # return & quit\n\n            if self.model.npt() < self.model.num_pts:", "C01-2")
add("arithmetic-after-x0-clamp", F, "C01", "dfols/solver.py", "    x0[idx] = xu[idx]\n", "    x0[idx] = xu[idx] - 0.0\n", "exactness")
add("outer-clamp-dropped", F, "C01", "dfols/model.py",
    "            return np.minimum(np.maximum(self.xl_abs, self.xbase + np.minimum(np.maximum(self.sl, self.points[k, :]), self.su)), self.xu_abs)",
    "            return self.xbase + np.minimum(np.maximum(self.sl, self.points[k, :]), self.su)", "exactness")
add("x0-projection-conditional", F, ["C01", "C09"], "dfols/solver.py",
    "            warnings.warn(\"x0 not feasible w.r.t given constraints, adjusting\", RuntimeWarning)\n        x0 = xp.copy()", "            warnings.warn(\"x0 not feasible w.r.t given constraints, adjusting\", RuntimeWarning)\n            x0 = xp.copy()", "")

add("h-gets-argsprox", F, "C06", "dfols/controller.py", "obj += self.h(remove_scaling(x, self.scaling_changes), *self.argsh)\n            # since m(0) = h(x)",
    "obj += self.h(remove_scaling(x, self.scaling_changes), *self.argsprox)\n            # since m(0) = h(x)", "C06-1")
add("argsprox-field-crossed", F, "C06", "dfols/controller.py", "self.argsprox = argsprox\n", "self.argsprox = argsh\n", "C06-1")
add("h-in-internal-frame", F, "C06", "dfols/model.py", "self.objval[k] += self.h(remove_scaling(self.as_absolute_coordinates(x), self.scaling_changes), *self.argsh)", "self.objval[k] += self.h(self.xbase + x, *self.argsh)", "callback")
add("star-argsprox-back", F, "C06", "dfols/trust_region.py", "g_Fu = gradient_Fu(xopt, g, H, u, prox_uh, d)", "g_Fu = gradient_Fu(xopt, g, H, u, prox_uh, d, *argsprox)", "C06-2")
add("relative-box-projector", F, ["C06", "C13"], "dfols/controller.py", "proj = lambda x: pbox(x, self.model.xbase + self.model.sl, self.model.xbase + self.model.su)  # bounds in absolute coordinates, like x\n            d, gnew, crvmin = ctrsbox_sfista(self.model.xopt(abs_coordinates=True), gopt, np.zeros(H.shape), [proj], 1,",
    "proj = lambda x: pbox(x, self.model.sl, self.model.su)\n            d, gnew, crvmin = ctrsbox_sfista(self.model.xopt(abs_coordinates=True), gopt, np.zeros(H.shape), [proj], 1,", "projector-frame")

add("box-projector-first", F, "C09", "dfols/solver.py", "        projections.append(bproj)", "        projections.insert(0, bproj)", "C09-")
add("scaling-with-projections", F, "C09", "dfols/solver.py", "    if projections and scaling_within_bounds:\n        scaling_within_bounds = False", "    if projections and scaling_within_bounds:\n        pass", "C09-5")
add("arithmetic-after-dykstra", F, "C09", "dfols/model.py", "            return dykstra(self.projections, self.xbase + x)", "            return dykstra(self.projections, self.xbase + x) + 0.0", "C09-1")
add("callers-projection-list-mutated", F, ["C09", "C19"], "dfols/solver.py", "        projections = list(projections)\n        projections.append(bproj)", "        projections.append(bproj)", "")

add("unscale-multiply", F, "C11", "dfols/solver.py", "jacmin[:, i] = jacmin[:, i] / scaling_changes[1][i]", "jacmin[:, i] = jacmin[:, i] * scaling_changes[1][i]", "C11-4")
add("unscale-shift-component", F, "C11", "dfols/solver.py", "jacmin[:, i] = jacmin[:, i] / scaling_changes[1][i]", "jacmin[:, i] = jacmin[:, i] / scaling_changes[0][i]", "C11-4")
add("labels-alias", F, "C11", "dfols/model.py", "self.model_jac_eval_nums = self.eval_num.copy()", "self.model_jac_eval_nums = self.eval_num", "C11-2")
add("merge-jac-without-labels", F, "C11", "dfols/solver.py", "                jacmin = jacmin2\n                jacmin_eval_nums = jacmin_eval_nums2", "                jacmin = jacmin2", "C11-1")
add("unscale-extra-guard", F, "C11", "dfols/solver.py", "    if scaling_changes is not None and jacmin is not None:\n        for i in range(n):", "    if scaling_changes is not None and jacmin is not None and nruns == 1:\n        for i in range(n):", "C11-4")

add("trsbox-return-unclipped", F, "C12", "dfols/trust_region.py", "        return d_within_bounds(d, xopt, sl, su, xbdi), gnew, crvmin", "        return d, gnew, crvmin", "C12-1")
add("alt-step-while-true", F, ["C12", "C13"], "dfols/trust_region.py", "    for ii in range(MAX_LOOP_ITERS):\n        if nact >= n - 1:", "    while True:\n        if nact >= n - 1:", "totality")
add("ball-first", F, "C13", "dfols/trust_region.py",
    "    P = list(projections)  # make a copy of the projections list\n    P.append(trproj)\n    def proj(d0):\n        p = dykstra(P, xopt+d0, max_iter=d_max_iters, tol=d_tol)\n        # we want the step only, so we subtract xopt\n        # from the new point: proj(xk+d) - xk\n        return p - xopt\n\n    MAX_LOOP_ITERS = 100 * n ** 2",
    "    P = list(projections)  # make a copy of the projections list\n    P.insert(0, trproj)\n    def proj(d0):\n        p = dykstra(P, xopt+d0, max_iter=d_max_iters, tol=d_tol)\n        # we want the step only, so we subtract xopt\n        # from the new point: proj(xk+d) - xk\n        return p - xopt\n\n    MAX_LOOP_ITERS = 100 * n ** 2", "C13-1")
add("zero-step-guard-weakened", F, "C13", "dfols/controller.py", "            if pred_reduction < 0.0:\n                d = np.zeros(d.shape)", "            if pred_reduction < 0.0 and self.model.projections:\n                d = np.zeros(d.shape)", "C13-2")
add("ball-wrong-radius", F, "C13", "dfols/trust_region.py", "    trproj = lambda w: pball(w, xbase, Delta)", "    trproj = lambda w: pball(w, xbase, 2 * Delta)", "C13-1")

add("generator-returns-fewer", F, "C14", "dfols/util.py", "    return results[:, :num_pts].T", "    return results[:, :num_pts-1].T", "C14-1")
add("clamp-loop-short", F, "C14", "dfols/util.py", "    for i in range(num_pts):\n        results[:, i] = np.maximum(np.minimum(results[:, i], upper), lower)\n    return results.T",
    "    for i in range(num_pts - 1):\n        results[:, i] = np.maximum(np.minimum(results[:, i], upper), lower)\n    return results.T", "C14-2")

add("dykstra-counter-plus-2", F, "C15", "dfols/util.py", "        n += 1\n\n    return x", "        n += 2\n\n    return x", "C15-1")
add("dykstra-correction-sign", F, "C15", "dfols/util.py", "            y[i,:] = x - (prev_x - prev_y)", "            y[i,:] = x - (prev_x + prev_y)", "C15-4")
add("dykstra-or", F, "C15", "dfols/util.py", "    while n < max_iter and cI >= tol:", "    while n < max_iter or cI >= tol:", "C15-1")
add("dykstra-skips-last-projector", F, "C15", "dfols/util.py", "        for i in range(0,p):\n            # Update iterate", "        for i in range(0,p-1):\n            # Update iterate", "C15-2")
add("dykstra-prev-y-view", F, "C15", "dfols/util.py", "            prev_y = y[i,:].copy()", "            prev_y = y[i,:]", "C15-4")
add("dykstra-accumulator-conditional", F, "C15", "dfols/util.py", "            cI += np.linalg.norm(prev_y - y[i,:])**2", "            if i > 0:\n                cI += np.linalg.norm(prev_y - y[i,:])**2", "C15-3")

add("add-point-no-invalidation", F, "C16", "dfols/model.py",
    "        if obj < self.objopt() or np.isnan(self.objopt()):\n            self.kopt = self.npt() - 1\n\n        self.factorisation_current = False", "        if obj < self.objopt() or np.isnan(self.objopt()):\n            self.kopt = self.npt() - 1\n", "C16-1")
add("model-const-sign", F, "C16", "dfols/model.py", "        self.model_const += np.dot(self.model_jac, xbase_shift)", "        self.model_const -= np.dot(self.model_jac, xbase_shift)", "C16-3")
add("xnew-not-rebased", F, "C16", "dfols/solver.py", "                xnew = xnew - base_shift  # before xopt is updated\n", "", "C16-3")
add("controller-writes-kopt", F, "C16", "dfols/controller.py", "        self.last_successful_iter = 0\n        self.rhoend =", "        self.last_successful_iter = 0\n        self.model.kopt = 0\n        self.rhoend =", "C16-2")
add("resample-no-invalidation", F, "C16", "dfols/model.py", "        self.factorisation_current = False  # interpolation matrix is centred at xopt, which may have moved\n", "", "C16-1")

add("replace-keeps-nsamples", F, "C17", "dfols/model.py", "        self.nsamples[k] = 1\n        self.eval_num[k] = eval_num", "        self.eval_num[k] = eval_num", "C17-")
add("resample-plus-2", F, "C17", "dfols/model.py", "        self.nsamples[k] += 1\n", "        self.nsamples[k] += 2\n", "C17-3")
add("kopt-out-of-range", F, "C17", "dfols/model.py", "            self.kopt = self.npt() - 1", "            self.kopt = self.npt()", "C17-5")
add("swap-forgets-nsamples", F, "C17", "dfols/model.py", "        self.nsamples[[k1, k2]] = self.nsamples[[k2, k1]]\n", "", "C17-1")

add("snap-threshold-half", F, "C18", "dfols/solver.py", "            if control.delta <= 1.5 * control.rho:  # cap trust region radius at rho", "            if control.delta <= 0.5 * control.rho:  # cap trust region radius at rho", "C18-1")
add("delta-uncapped", F, "C18", "dfols/solver.py",
    "                control.delta = min(max(params(\"tr_radius.gamma_inc\") * control.delta,\n                                        params(\"tr_radius.gamma_inc_overline\") * dnorm), 1.0e10)",
    "                control.delta = max(params(\"tr_radius.gamma_inc\") * control.delta,\n                                        params(\"tr_radius.gamma_inc_overline\") * dnorm)", "C18-3")
add("reduce-rho-order", F, "C18", "dfols/controller.py", "        self.delta = max(alpha2 * self.rho, new_rho)  # self.rho = old rho\n        self.rho = new_rho", "        self.rho = new_rho\n        self.delta = alpha2 * self.rho", "C18-1")
add("rhoend-not-mirrored", F, "C18", "dfols/controller.py", "        self.rhoend = params(\"restarts.rhoend_scale\") * self.rhoend  # the new run", "        pass  # the new run", "C18-5")
add("column-append-dropped", F, "C18", "dfols/diagnostic_info.py", "        self.data[\"slow_iter\"].append(None)\n        return", "        return", "C18-4")
add("geometry-delta-without-floor", F, "C18", "dfols/controller.py", "            self.delta = max(min(0.1 * self.delta, 0.5 * dist), 1.5 * self.rho)", "            self.delta = min(0.1 * self.delta, 0.5 * dist)", "C18-1")
add("rho-written-in-loop", F, "C18", "dfols/solver.py", "                if dnorm > control.rho:\n                    control.last_successful_iter = current_iter\n\n                if exit_info is not None:\n                    if exit_info.able_to_do_restart() and params(\"restarts.use_restarts\") and params(\"restarts.use_soft_restarts\"):",
    "                if dnorm > control.rho:\n                    control.last_successful_iter = current_iter\n                    control.rho = dnorm\n\n                if exit_info is not None:\n                    if exit_info.able_to_do_restart() and params(\"restarts.use_restarts\") and params(\"restarts.use_soft_restarts\"):", "C18-2")

add("x0-asarray", F, "C19", "dfols/solver.py", "    x0 = x0.astype(float)\n    n = len(x0)", "    x0 = np.asarray(x0, dtype=float)\n    n = len(x0)", "C19-3")
add("bounds-not-copied", F, "C19", "dfols/solver.py", "        xl = bounds[0].astype(float) if bounds[0] is not None else None", "        xl = bounds[0] if bounds[0] is not None else None", "C19-3")
add("rng-in-geometry-step", F, "C19", "dfols/controller.py", "        gopt, H = self.model.build_full_model()  # save here, to calculate predicted value from geometry step",
    "        gopt, H = self.model.build_full_model()  # save here, to calculate predicted value from geometry step\n        xnew = xnew + 1e-12 * np.random.normal(size=xnew.shape)", "C19-1")
add("random-init-guard-widened", F, "C19", "dfols/solver.py", "    if params(\"init.random_initial_directions\"):\n        if do_logging:\n            module_logger.info(\"Initialising (random directions)\")",
    "    if params(\"init.random_initial_directions\") or npt > n + 1:\n        if do_logging:\n            module_logger.info(\"Initialising (random directions)\")", "C19-1")
add("user-params-mutated", F, "C19", "dfols/solver.py", "        for (key, val) in user_params.items():\n            params(key, new_value=val)",
    "        for (key, val) in user_params.items():\n            params(key, new_value=val)\n        user_params.setdefault('general.check_objfun_for_overflow', True)", "C19-3")
add("n1-draw-used-outside-fallback", F, "C19", "dfols/controller.py",
    "            D_rank, diag = qr_rank(D,tol=params(\"matrix_rank.r_tol\"))\n            while D_rank != num_directions and k < 100*self.n():",
    "            D_rank, diag = qr_rank(D,tol=params(\"matrix_rank.r_tol\"))\n            D[0, :] = D[0, :] * (1.0 + 1e-12 * slctr[0])\n            while D_rank != num_directions and k < 100*self.n():", "C19-1")

add("to-dict-key-dropped", F, "C20", "dfols/solver.py", "        soln_dict['nx'] = int(self.nx)\n", "", "C20-1")
add("from-dict-crossed", F, "C20", "dfols/solver.py", "        nf = soln_dict['nf']\n        nx = soln_dict['nx']", "        nf = soln_dict['nx']\n        nx = soln_dict['nf']", "C20-1")
add("from-dict-obj-raw", F, "C20", "dfols/solver.py", "        obj = soln_dict['obj'] if soln_dict['obj'] is not None else np.nan", "        obj = soln_dict['obj']", "C20-3")
add("replace-nan-skips-lists", F, "C20", "dfols/util.py", "    elif isinstance(d, list):\n        return [replace_nan_with_none(i) for i in d]\n", "", "C20-2")
add("to-dict-raw-array", F, "C20", "dfols/solver.py", "soln_dict['resid'] = self.resid.tolist() if self.resid is not None else None", "soln_dict['resid'] = self.resid if self.resid is not None else None", "C20-2")
add("str-formats-nullable", F, "C20", "dfols/solver.py", "                output += \"Approximate Jacobian formed using evaluation points %s\\n\" % str(self.jacmin_eval_nums)",
    "                output += \"Approximate Jacobian formed using %g evaluation points\\n\" % len(self.jacobian)", "C20-4")

# --------------------------------------------------------------------------------------------------- SILENT
ALL = ["C01", "C02", "C03", "C04", "C06", "C07", "C08", "C09", "C10", "C11", "C12", "C13", "C14", "C15", "C16", "C17", "C18", "C19", "C20"]
add("s-budget-guard-not-lt", S, ["C02", "C10"], "dfols/controller.py", "if self.nf >= self.maxfun:", "if not self.nf < self.maxfun:")
add("s-budget-guard-swapped", S, ["C02", "C10"], "dfols/solver.py", "            if nf >= maxfun:", "            if maxfun <= nf:")
add("s-rename-local-x", S, ["C01", "C03", "C04"], "dfols/controller.py",
    "        x = self.model.as_absolute_coordinates(xnew)\n        rvec_list, obj_list, num_samples_run, exit_info = self.evaluate_objective(x, number_of_samples, params)\n\n        # Handle exit conditions (f < min obj value or maxfun reached)\n        if exit_info is not None:\n            if num_samples_run > 0:\n                self.model.save_point(x, np.mean(rvec_list[:num_samples_run, :], axis=0), num_samples_run, self.nx,\n                                      x_in_abs_coords=True)\n            return exit_info  # didn't fix geometry - return & quit",
    "        x_abs = self.model.as_absolute_coordinates(xnew)\n        x = x_abs\n        rvec_list, obj_list, num_samples_run, exit_info = self.evaluate_objective(x_abs, number_of_samples, params)\n\n        # Handle exit conditions (f < min obj value or maxfun reached)\n        if exit_info is not None:\n            if num_samples_run > 0:\n                self.model.save_point(x_abs, np.mean(rvec_list[:num_samples_run, :], axis=0), num_samples_run, self.nx,\n                                      x_in_abs_coords=True)\n            return exit_info  # didn't fix geometry - return & quit")
add("s-validation-order", S, ["C07", "C02"], "dfols/solver.py",
    "    if exit_info is None and rhoend <= 0.0:\n        exit_info = ExitInformation(EXIT_INPUT_ERROR, \"rhoend must be strictly positive\")\n\n    if exit_info is None and rhobeg <= rhoend:\n        exit_info = ExitInformation(EXIT_INPUT_ERROR, \"rhobeg must be > rhoend\")\n",
    "    if exit_info is None and rhobeg <= rhoend:\n        exit_info = ExitInformation(EXIT_INPUT_ERROR, \"rhobeg must be > rhoend\")\n\n    if exit_info is None and rhoend <= 0.0:\n        exit_info = ExitInformation(EXIT_INPUT_ERROR, \"rhoend must be strictly positive\")\n")
add("s-validation-flipped", S, ["C07", "C02"], "dfols/solver.py", "if exit_info is None and maxfun <= 0:", "if exit_info is None and 0 >= maxfun:")
add("s-pbox-clip", S, ["C01", "C09", "C15", "C13"], "dfols/util.py", "    return np.minimum(np.maximum(x,l), u)", "    return np.clip(x, l, u)")
add("s-hoist-remove-scaling", S, ["C01", "C02", "C06"], "dfols/controller.py",
    "        for i in range(number_of_samples):\n            if self.nf >= self.maxfun:", "        x_user = remove_scaling(x, self.scaling_changes)\n        for i in range(number_of_samples):\n            if self.nf >= self.maxfun:")
add("s-unscale-comment-and-blank", S, ["C11"], "dfols/solver.py", "    # Un-scale Jacobian\n", "    # Un-scale Jacobian (columns are divided by the width of the box)\n\n")
add("s-reformat-long-call", S, ["C02", "C01", "C10"], "dfols/controller.py",
    "            rvec_list[i, :], obj_list[i] = eval_least_squares_with_regularisation(self.objfun, remove_scaling(x, self.scaling_changes), self.h,\n                                            argsf=self.argsf, argsh=self.argsh, verbose=self.do_logging, eval_num=self.nf, pt_num=self.nx,",
    "            rvec_list[i, :], obj_list[i] = eval_least_squares_with_regularisation(\n                self.objfun, remove_scaling(x, self.scaling_changes), self.h,\n                argsf=self.argsf, argsh=self.argsh, verbose=self.do_logging,\n                pt_num=self.nx, eval_num=self.nf,")
add("s-save-point-guard-reordered", S, ["C04", "C08", "C17"], "dfols/model.py", "if self.objsave is None or np.isnan(self.objsave) or obj <= self.objsave:", "if self.objsave is None or obj <= self.objsave or np.isnan(self.objsave):")
add("s-merge-guard-not-ge", S, ["C04", "C08", "C03"], "dfols/solver.py", "if objmin2 < objmin or np.isnan(objmin):", "if np.isnan(objmin) or objmin2 < objmin:")
add("s-nruns-augassign-form", S, ["C10"], "dfols/solver.py", "                exit_info = ExitInformation(EXIT_SLOW_WARNING, \"Maximum slow iterations reached\")\n                        nruns_so_far += 1",
    "                exit_info = ExitInformation(EXIT_SLOW_WARNING, \"Maximum slow iterations reached\")\n                        nruns_so_far = nruns_so_far + 1")
add("s-shift-base-augmented", S, ["C01", "C16"], "dfols/model.py", "        self.sl = self.sl - xbase_shift\n        self.su = self.su - xbase_shift", "        self.sl -= xbase_shift\n        self.su -= xbase_shift")
add("s-dykstra-rename", S, ["C15", "C09"], "dfols/util.py", "    n = 0\n    cI = float('inf')\n    while n < max_iter and cI >= tol:\n        cI = 0", "    n = 0\n    cI = float('inf')\n    while cI >= tol and n < max_iter:\n        cI = 0")
add("s-projection-list-literal", S, ["C09", "C19"], "dfols/solver.py", "        projections = list(projections)\n        projections.append(bproj)", "        projections = list(projections)\n        # bounds last\n        projections.append(bproj)")
add("s-delta-snap-flipped", S, ["C18"], "dfols/solver.py", "            if control.delta <= 1.5 * control.rho:  # cap trust region radius at rho", "            if not control.delta > 1.5 * control.rho:  # cap trust region radius at rho")
add("s-exit-attr-order", S, ["C07"], "dfols/solver.py", "        self.EXIT_SLOW_WARNING = EXIT_SLOW_WARNING\n        self.EXIT_MAXFUN_WARNING = EXIT_MAXFUN_WARNING", "        self.EXIT_MAXFUN_WARNING = EXIT_MAXFUN_WARNING\n        self.EXIT_SLOW_WARNING = EXIT_SLOW_WARNING")
add("s-to-dict-order", S, ["C20"], "dfols/solver.py", "        soln_dict['nf'] = int(self.nf)\n        soln_dict['nx'] = int(self.nx)", "        soln_dict['nx'] = int(self.nx)\n        soln_dict['nf'] = int(self.nf)")
add("s-x0-copy-then-astype", S, ["C19", "C01"], "dfols/solver.py", "    x0 = x0.astype(float)\n    n = len(x0)", "    x0 = np.array(x0, dtype=float)\n    n = len(x0)")
add("s-swap-order", S, ["C17", "C16"], "dfols/model.py", "        self.objval[[k1, k2]] = self.objval[[k2, k1]]\n        self.eval_num[[k1, k2]] = self.eval_num[[k2, k1]]", "        self.eval_num[[k1, k2]] = self.eval_num[[k2, k1]]\n        self.objval[[k1, k2]] = self.objval[[k2, k1]]")

add_multi("s-new-parameter-added-consistently", S, ["C07", "C18"], [
    ("dfols/params.py", "        self.params[\"general.check_objfun_for_overflow\"] = True\n", "        self.params[\"general.check_objfun_for_overflow\"] = True\n        self.params[\"general.extra_option\"] = 1.5\n"),
    ("dfols/params.py", "        elif key == \"general.check_objfun_for_overflow\":\n            type_str, nonetype_ok, lower, upper = 'bool', False, None, None\n",
     "        elif key == \"general.check_objfun_for_overflow\":\n            type_str, nonetype_ok, lower, upper = 'bool', False, None, None\n        elif key == \"general.extra_option\":\n            type_str, nonetype_ok, lower, upper = 'float', False, 0.0, None\n"),
    ("docs/advanced.rst", "* :code:`general.check_objfun_for_overflow`", "* :code:`general.extra_option` - An extra option. Default is 1.5.\n* :code:`general.check_objfun_for_overflow`"),
])
add_multi("new-parameter-not-typed", F, ["C07"], [
    ("dfols/params.py", "        self.params[\"general.check_objfun_for_overflow\"] = True\n", "        self.params[\"general.check_objfun_for_overflow\"] = True\n        self.params[\"general.extra_option\"] = 1.5\n"),
    ("docs/advanced.rst", "* :code:`general.check_objfun_for_overflow`", "* :code:`general.extra_option` - An extra option. Default is 1.5.\n* :code:`general.check_objfun_for_overflow`"),
], "defaulted-not-typed")
add_multi("s-new-exit-code-added-consistently", S, ["C07", "C10"], [
    ("dfols/controller.py", "EXIT_EVAL_ERROR = -4  # error, objective evaluation error (e.g. nan result received)\n", "EXIT_EVAL_ERROR = -4  # error, objective evaluation error (e.g. nan result received)\nEXIT_OTHER_WARNING = 6  # reserved\n"),
    ("dfols/controller.py", "'EXIT_TR_INCREASE_WARNING']", "'EXIT_TR_INCREASE_WARNING', 'EXIT_OTHER_WARNING']"),
    ("dfols/controller.py", "        elif self.flag == EXIT_EVAL_ERROR:\n            return \"Error (function evaluation): \" + self.msg\n", "        elif self.flag == EXIT_EVAL_ERROR:\n            return \"Error (function evaluation): \" + self.msg\n        elif self.flag == EXIT_OTHER_WARNING:\n            return \"Warning (other): \" + self.msg\n"),
    ("dfols/solver.py", "        self.EXIT_EVAL_ERROR = EXIT_EVAL_ERROR\n", "        self.EXIT_EVAL_ERROR = EXIT_EVAL_ERROR\n        self.EXIT_OTHER_WARNING = EXIT_OTHER_WARNING\n"),
    ("docs/userguide.rst", "* :code:`soln.EXIT_EVAL_ERROR`", "* :code:`soln.EXIT_OTHER_WARNING` - reserved.\n* :code:`soln.EXIT_EVAL_ERROR`"),
])
add_multi("rhoend-direct-store-at-one-site-only", F, ["C18"], [
    ("dfols/controller.py", "        self.rhoend = params(\"restarts.rhoend_scale\") * self.rhoend  # the new run's rhoend (the main loop rescales its own copy identically)\n", ""),
    ("dfols/solver.py", "                current_iter = -1\n                nruns_so_far += 1\n                rhoend = params(\"restarts.rhoend_scale\") * rhoend\n                restart_auto_detect_full = False\n                restart_auto_detect_delta = -1.0 * np.ones((params(\"restarts.auto_detect.history\"),))\n                restart_auto_detect_chgJ = -1.0 * np.ones((params(\"restarts.auto_detect.history\"),))\n                continue  # next iteration\n            else:\n                exit_info = ExitInformation(EXIT_SUCCESS, \"All points within noise level\")",
     "                current_iter = -1\n                nruns_so_far += 1\n                rhoend = params(\"restarts.rhoend_scale\") * rhoend\n                control.rhoend = rhoend\n                restart_auto_detect_full = False\n                restart_auto_detect_delta = -1.0 * np.ones((params(\"restarts.auto_detect.history\"),))\n                restart_auto_detect_chgJ = -1.0 * np.ones((params(\"restarts.auto_detect.history\"),))\n                continue  # next iteration\n            else:\n                exit_info = ExitInformation(EXIT_SUCCESS, \"All points within noise level\")"),
], "C18-5")
add_multi("s-rhoend-chained-store-at-every-site", S, ["C18", "C10"], [
    ("dfols/controller.py", "        self.rhoend = params(\"restarts.rhoend_scale\") * self.rhoend  # the new run's rhoend (the main loop rescales its own copy identically)\n", ""),
    ("dfols/solver.py", "            rhoend = params(\"restarts.rhoend_scale\") * rhoend\n", "            rhoend = control.rhoend = params(\"restarts.rhoend_scale\") * rhoend\n", True),
])

add("sfista-zero-iterations-allowed", F, "C07", "dfols/params.py", "type_str, nonetype_ok, lower, upper = 'int', False, 1, None  # need at least one S-FISTA iteration", "type_str, nonetype_ok, lower, upper = 'int', False, 0, None", "C07-11")
add("dykstra-zero-sweeps-allowed", F, "C09", "dfols/params.py", "type_str, nonetype_ok, lower, upper = 'int', False, 1, None  # zero sweeps would return the point unprojected", "type_str, nonetype_ok, lower, upper = 'int', False, 0, None", "C09-6")
add("local-assigned-in-one-branch-only", F, "C07", "dfols/controller.py", "        dist = sqrt(distsq)\n        if update_delta:  # optional", "        if update_delta:  # optional\n            dist = sqrt(distsq)", "C07-11")
add("s-local-initialised-earlier", S, ["C07"], "dfols/trust_region.py", "    d = np.zeros(n) # start with zero vector\n    y = np.zeros(n)", "    d = np.zeros(n) # start with zero vector\n    gnew = g.copy()\n    y = np.zeros(n)")

# ---- T14 mirror symmetry
add("mirror-alt-step-upper-sign", F, "C12", "dfols/trust_region.py", "                        temp = sqrt(temp) + s[i]", "                        temp = sqrt(temp) - s[i]", "C12-3")
add("mirror-trsbox-initial-active-set", F, "C12", "dfols/trust_region.py", "    xbdi[(xopt >= su) & (g <= 0.0)] = 1", "    xbdi[(xopt >= su) & (g >= 0.0)] = 1", "C12-3")
add("mirror-pinning-wrong-bound", F, "C12", "dfols/trust_region.py", "    xnew[xbdi == 1] = su[xbdi == 1]", "    xnew[xbdi == 1] = sl[xbdi == 1]", "C12-3")
add("mirror-trsbox-linear-face", F, "C13", "dfols/trust_region.py", "            elif xnew[j] >= b[j]:\n                on_box_bdry = True\n                hit_upper = True", "            elif xnew[j] >= b[j]:\n                on_box_bdry = True\n                hit_upper = False", "C13-5")
add("mirror-get-scale-upper", F, "C14", "dfols/util.py", "            scale = min(scale, upper[j] / dirn[j])", "            scale = min(scale, lower[j] / dirn[j])", "C14-5")
add("mirror-second-step-max-min", F, "C14", "dfols/controller.py", "stepb = max(-2.0 * self.delta, self.model.sl[dirn])", "stepb = min(-2.0 * self.delta, self.model.sl[dirn])", "C14-")
add("mirror-x0-upper-stanza", F, "C01", "dfols/solver.py", "    x0[idx] = xu[idx]\n", "    x0[idx] = xl[idx]\n", "C01-")
add("mirror-rho-criterion-sign", F, "C18", "dfols/controller.py", "                bdtest = -gnew[j]", "                bdtest = gnew[j]", "C18-6")
add("s-mirror-blocks-reordered", S, ["C12"], "dfols/trust_region.py", "    xbdi[(xopt <= sl) & (g >= 0.0)] = -1\n    xbdi[(xopt >= su) & (g <= 0.0)] = 1", "    xbdi[(xopt >= su) & (g <= 0.0)] = 1\n    xbdi[(xopt <= sl) & (g >= 0.0)] = -1")
add("s-mirror-equivalent-algebra", S, ["C12"], "dfols/trust_region.py", "                    tempb = su[i] - xopt[i] - d[i]", "                    tempb = -(xopt[i] + d[i] - su[i])")
add("s-mirror-comparison-flipped", S, ["C13"], "dfols/trust_region.py", "            elif xnew[j] >= b[j]:", "            elif b[j] <= xnew[j]:")
add("random-default-widened", F, "C19", "dfols/params.py", "True if npt > (n+1)*(n+2)//2 else False", "True if npt >= (n+1)*(n+2)//2 else False", "C19-1b")
add("x0-exit-returns-raw-residual", F, ["C20", "C03"], "dfols/solver.py", "return x0, r0_avg, obj0_avg, None, num_samples_run", "return x0, r0, obj0_avg, None, num_samples_run", "")

# ---- rules added after the second seeding / refactoring round (pre-repair forms of F18b, F18c, F07f, F08c and the rewrites the new rules must tolerate)
add("reduce-rho-third-case-unclamped", F, ["C18", "C10"], "dfols/controller.py", "new_rho = max(alpha1 * self.rho, self.rhoend)  # never below rhoend (alpha1 < 1/250 is allowed)", "new_rho = alpha1 * self.rho", "new-rho-below-rhoend")
add("rhoend-scale-no-upper-bound", F, ["C18", "C10"], "dfols/params.py", "        elif key == \"restarts.rhoend_scale\":\n            type_str, nonetype_ok, lower, upper = 'float', False, 0.0, 1.0",
    "        elif key == \"restarts.rhoend_scale\":\n            type_str, nonetype_ok, lower, upper = 'float', False, 0.0, None", "restart-factor-above-one")
add("rhoend-scale-zero-accepted", F, ["C18"], "dfols/solver.py", "    if exit_info is None and params(\"restarts.rhoend_scale\") <= 0.0:\n        exit_info = ExitInformation(EXIT_INPUT_ERROR, \"restarts.rhoend_scale must be strictly positive\")\n", "", "restart-factor-zero")
add("reduce-rho-first-case-below-rhoend", F, ["C18"], "dfols/controller.py", "        if ratio <= 16.0:\n            new_rho = self.rhoend", "        if ratio <= 16.0:\n            new_rho = 0.5 * self.rho", "C18-8")
add("s-reduce-rho-first-case-threshold-moved", S, ["C18", "C10"], "dfols/controller.py", "        if ratio <= 16.0:\n            new_rho = self.rhoend", "        if ratio <= 10.0:\n            new_rho = self.rhoend")
add("reduce-rho-called-unguarded", F, ["C18"], "dfols/solver.py", "            elif control.rho > rhoend:", "            elif control.rho >= rhoend:", "C18-8|C10-2")
add("s-reduce-rho-clamp-other-order", S, ["C18", "C10"], "dfols/controller.py", "new_rho = max(alpha1 * self.rho, self.rhoend)", "new_rho = max(self.rhoend, self.rho * alpha1)")
add("diagnostic-norm-checks-finiteness", F, ["C08"], "dfols/solver.py", "sqrt(norm_J_error), np.linalg.norm(gopt), np.linalg.norm(d))", "sqrt(norm_J_error), LA.norm(gopt), LA.norm(d))", "C08-3")
add("s-diagnostic-norm-unchecked-scipy", S, ["C08"], "dfols/solver.py", "sqrt(norm_J_error), np.linalg.norm(gopt), np.linalg.norm(d))", "sqrt(norm_J_error), LA.norm(gopt, check_finite=False), LA.norm(d, check_finite=False))")
add("sampling-loop-extra-break", F, ["C02"], "dfols/controller.py", "            num_samples_run += 1\n\n        # Check if the average value was below our threshold",
    "            num_samples_run += 1\n            if obj_list[i] <= self.model.min_objective_value():\n                break\n\n        # Check if the average value was below our threshold", "sampling-loop-break-not-budget")
add("extra-samples-into-previous-slot", F, ["C03", "C17"], "dfols/controller.py", "                    self.model.add_new_sample(k+1, rvec_extra=rvec_list[i, :])", "                    self.model.add_new_sample(k, rvec_extra=rvec_list[i, :])", "extra-sample-other-slot")
add("extra-samples-loop-from-zero", F, ["C03", "C17"], "dfols/controller.py", "        for i in range(1, num_samples_run):\n            self.model.add_new_sample(knew, rvec_extra=rvec_list[i, :])\n\n        # Estimate actual",
    "        for i in range(0, num_samples_run):\n            self.model.add_new_sample(knew, rvec_extra=rvec_list[i, :])\n\n        # Estimate actual", "extra-sample-loop")
add("validator-converts-its-copy", F, ["C07"], "dfols/params.py", "    elif not isinstance(val, int):\n        return False", "    if isinstance(val, float) and val.is_integer():\n        val = int(val)\n    if not isinstance(val, int):\n        return False", "C07-5b")
add("validator-wrong-type", F, ["C07"], "dfols/params.py", "    elif not isinstance(val, float):\n        return False", "    elif not isinstance(val, (int, float)):\n        return False", "C07-5b")
add("growing-flag-and", F, ["C07"], "dfols/solver.py", "('growing.full_rank.use_full_rank_interp' in user_params or 'growing.perturb_trust_region_step' in user_params)",
    "('growing.full_rank.use_full_rank_interp' in user_params and 'growing.perturb_trust_region_step' in user_params)", "C07-10")
add("s-growing-flag-de-morgan", S, ["C07"], "dfols/solver.py", "('growing.full_rank.use_full_rank_interp' in user_params or 'growing.perturb_trust_region_step' in user_params)",
    "not ('growing.full_rank.use_full_rank_interp' not in user_params and 'growing.perturb_trust_region_step' not in user_params)")
add("restart-loop-limit-off-by-one", F, ["C07"], "dfols/controller.py", "            upper_limit = self.model.npt() - 1", "            upper_limit = self.model.npt()", "C07-12")
add("resample-early-return", F, ["C17", "C08"], "dfols/model.py", "        objvals = self.objval[:self.npt()]\n        if not np.all(np.isnan(objvals)):",
    "        if k != self.kopt and not (self.objval[k] < self.objopt()):\n            return\n        objvals = self.objval[:self.npt()]\n        if not np.all(np.isnan(objvals)):", "exit-without-reselection")
add("s-save-point-guard-clause", S, ["C03", "C04", "C08", "C11", "C17"], "dfols/model.py",
    "        if self.objsave is None or np.isnan(self.objsave) or obj <= self.objsave:  # never keep a NaN value over a finite one\n            self.xsave = xabs\n            self.rsave = rvec.copy()\n            self.objsave = obj\n            self.jacsave = self.model_jac.copy() if self.model_jac is not None else None\n            self.nsamples_save = nsamples\n            self.eval_num_save = eval_num\n            self.jacsave_eval_nums = self.model_jac_eval_nums.copy() if self.model_jac_eval_nums is not None else None\n            return True\n        else:\n            return False  # this value is worse than what we have already - didn't save",
    "        if self.objsave is not None and not np.isnan(self.objsave) and not obj <= self.objsave:\n            return False\n        self.xsave = xabs\n        self.rsave = rvec.copy()\n        self.objsave = obj\n        self.jacsave = self.model_jac.copy() if self.model_jac is not None else None\n        self.nsamples_save = nsamples\n        self.eval_num_save = eval_num\n        self.jacsave_eval_nums = self.model_jac_eval_nums.copy() if self.model_jac_eval_nums is not None else None\n        return True")
add("save-point-guard-clause-nan-blind", F, ["C08", "C17"], "dfols/model.py",
    "        if self.objsave is None or np.isnan(self.objsave) or obj <= self.objsave:  # never keep a NaN value over a finite one\n            self.xsave = xabs\n            self.rsave = rvec.copy()\n            self.objsave = obj\n            self.jacsave = self.model_jac.copy() if self.model_jac is not None else None\n            self.nsamples_save = nsamples\n            self.eval_num_save = eval_num\n            self.jacsave_eval_nums = self.model_jac_eval_nums.copy() if self.model_jac_eval_nums is not None else None\n            return True\n        else:\n            return False  # this value is worse than what we have already - didn't save",
    "        if self.objsave is not None and obj > self.objsave:\n            return False\n        self.xsave = xabs\n        self.rsave = rvec.copy()\n        self.objsave = obj\n        self.jacsave = self.model_jac.copy() if self.model_jac is not None else None\n        self.nsamples_save = nsamples\n        self.eval_num_save = eval_num\n        self.jacsave_eval_nums = self.model_jac_eval_nums.copy() if self.model_jac_eval_nums is not None else None\n        return True", "slot")

# ---- rules that the coverage report (tools/rule_coverage.py) had never seen firing
add_multi("none-default-star-expanded", F, ["C06"], [
    ("dfols/trust_region.py", "L_h, prox_uh, argsh=(), argsprox=(), func_tol=1e-3", "L_h, prox_uh, argsh=(), argsprox=None, func_tol=1e-3"),
    ("dfols/controller.py", "            d, gnew, crvmin = ctrsbox_sfista(self.model.xopt(abs_coordinates=True), gopt, np.zeros(H.shape), [proj], 1,\n                                self.h, self.lh, self.prox_uh, argsh = self.argsh, argsprox=self.argsprox, func_tol=func_tol, ",
     "            d, gnew, crvmin = ctrsbox_sfista(self.model.xopt(abs_coordinates=True), gopt, np.zeros(H.shape), [proj], 1,\n                                self.h, self.lh, self.prox_uh, argsh = self.argsh, func_tol=func_tol, "),
], "C06-3")
add("s-none-default-never-taken", S, ["C06"], "dfols/trust_region.py", "L_h, prox_uh, argsh=(), argsprox=(), func_tol=1e-3", "L_h, prox_uh, argsh=(), argsprox=None, func_tol=1e-3")
add("misspelt-logger-in-rare-branch", F, ["C07"], "dfols/controller.py", "            module_logger.info(\"Soft restart [currently, f = %g after %g function evals]\" % (self.model.objopt(), self.nf))",
    "            modul_logger.info(\"Soft restart [currently, f = %g after %g function evals]\" % (self.model.objopt(), self.nf))", "C07-1b")
add("geometry-step-absolute-box", F, ["C13"], "dfols/controller.py", "xnew = trsbox_geometry(self.model.xopt(), c, g, np.minimum(self.model.sl, 0.0), np.maximum(self.model.su, 0.0), adelt)",
    "xnew = trsbox_geometry(self.model.xopt(), c, g, np.minimum(self.model.xl_abs, 0.0), np.maximum(self.model.xu_abs, 0.0), adelt)", "C13-3")
add("convex-geometry-step-relative-centre", F, ["C13"], "dfols/controller.py", "step = ctrsbox_geometry(self.model.xopt(abs_coordinates=True), c, g, self.model.projections, adelt,",
    "step = ctrsbox_geometry(self.model.xopt(), c, g, self.model.projections, adelt,", "C13-3")
add("generator-box-not-recentred", F, ["C14"], "dfols/controller.py", "        dirn = random_directions_within_bounds(1, step_length, self.model.sl - xopt, self.model.su - xopt)[0, :]",
    "        dirn = random_directions_within_bounds(1, step_length, self.model.sl, self.model.su)[0, :]", "C14-3")
add("pbox-forgets-upper", F, ["C15"], "dfols/util.py", "    return np.minimum(np.maximum(x,l), u)", "    return np.maximum(x,l)", "C15-2b")
add("s-pbox-other-nesting", S, ["C15", "C09", "C01"], "dfols/util.py", "    return np.minimum(np.maximum(x,l), u)", "    return np.maximum(np.minimum(x,u), l)")

add("success-finiteness-guard-removed", F, ["C10"], "dfols/solver.py", "    if exit_info.flag == EXIT_SUCCESS and not np.isfinite(objmin):\n        exit_info = ExitInformation(EXIT_EVAL_ERROR, \"Objective value at the returned point is not finite\")\n", "", "C10-6")
add("success-finiteness-guard-tests-other-value", F, ["C10"], "dfols/solver.py", "    if exit_info.flag == EXIT_SUCCESS and not np.isfinite(objmin):", "    if exit_info.flag == EXIT_SUCCESS and not np.isfinite(nf):", "C10-6")
add("s-success-finiteness-guard-nested", S, ["C10", "C07"], "dfols/solver.py", "    if exit_info.flag == EXIT_SUCCESS and not np.isfinite(objmin):\n        exit_info = ExitInformation(EXIT_EVAL_ERROR, \"Objective value at the returned point is not finite\")\n",
    "    if exit_info.flag == EXIT_SUCCESS:\n        if not np.isfinite(objmin):\n            exit_info = ExitInformation(EXIT_EVAL_ERROR, \"Objective value at the returned point is not finite\")\n")

# ---- rules added for the second half of seeding round 2
add("coordinate-limit-not-validated", F, ["C07"], "dfols/solver.py", "    if exit_info is None and not params(\"init.random_initial_directions\") and npt > (n + 1) * (n + 2) // 2:\n        exit_info = ExitInformation(EXIT_INPUT_ERROR, \"npt > (n+1)(n+2)/2 needs random initial directions (init.random_initial_directions)\")\n", "", "C07-13|missing-guard")
add("hard-restart-npt-not-clamped", F, ["C07"], "dfols/solver.py", "            if not params(\"init.random_initial_directions\"):\n                npt = min(npt, (n + 1) * (n + 2) // 2)  # coordinate initial directions cannot provide more points\n", "", "C07-13")
add("s-hard-restart-npt-clamp-unconditional-order", S, ["C07", "C02"], "dfols/solver.py", "            if not params(\"init.random_initial_directions\"):\n                npt = min(npt, (n + 1) * (n + 2) // 2)  # coordinate initial directions cannot provide more points\n",
    "            if params(\"init.random_initial_directions\"):\n                pass\n            else:\n                npt = min((n + 1) * (n + 2) // 2, npt)\n")
add("jacobian-view-modified-in-place", F, ["C16"], "dfols/model.py", "            norm_J_error = np.linalg.norm(self.model_jac - J_old, ord='fro')**2\n", "            norm_J_error = np.linalg.norm(self.model_jac - J_old, ord='fro')**2\n            dg /= right_scaling[:, np.newaxis]\n", "C16-5")
add("s-jacobian-copy-then-in-place", S, ["C16", "C11"], "dfols/model.py", "        self.model_jac = dg[1:,:].T\n", "        self.model_jac = dg[1:,:].T.copy()\n        dg *= 1.0\n")
add("eval-num-array-reallocated-float", F, ["C20"], "dfols/model.py", "        self.eval_num = np.insert(self.eval_num, k, eval_num)  # add new evaluation number", "        self.eval_num = np.concatenate((self.eval_num[:k], np.zeros((1,)), self.eval_num[k:]))\n        self.eval_num[k] = eval_num", "C20-7")
add("s-eval-num-array-concatenate", S, ["C20"], "dfols/model.py", "        self.eval_num = np.insert(self.eval_num, k, eval_num)  # add new evaluation number", "        self.eval_num = np.concatenate((self.eval_num[:k], [eval_num], self.eval_num[k:]))")
add("nan-replacement-fast-path", F, ["C20"], "dfols/util.py", "    elif isinstance(d, list):\n        return [replace_nan_with_none(i) for i in d]", "    elif isinstance(d, list):\n        if len(d) > 0 and not math.isnan(min(d)):\n            return d\n        return [replace_nan_with_none(i) for i in d]", "C20-2b")
add("diagnostic-table-indexed-per-run", F, ["C20"], "dfols/diagnostic_info.py", "        return pd.DataFrame(data_to_save)", "        return pd.DataFrame(data_to_save, index=self.data[\"iter_this_run\"])", "C20-5b")
add("controller-state-in-class-body", F, ["C19"], "dfols/controller.py", "class Controller(object):\n", "class Controller(object):\n    last_iters_step_taken = []\n", "class-level-mutable")
add("dykstra-rescales-tolerance", F, ["C15", "C09"], "dfols/util.py", "    x = x0.copy()\n    p = len(P)\n", "    x = x0.copy()\n    tol = tol * max(1.0, np.dot(x0, x0))\n    p = len(P)\n", "limit-reassigned")
add("geometry-step-mirrored", F, ["C13"], "dfols/trust_region.py", "    smax = trsbox_linear(-g, lower - xbase, upper - xbase, Delta, use_fortran=use_fortran)  # maximise g' * s", "    smax = -smin", "C13-6")
add("geometry-step-clamp-mixes-frames", F, ["C13"], "dfols/controller.py", "np.minimum(self.model.sl, 0.0), np.maximum(self.model.su, 0.0), adelt)", "np.minimum(self.model.sl, 0.0), np.maximum(self.model.su, self.model.xbase), adelt)", "C13-3.frame-agreement-clamp")

# ---- pre-repair forms of F18d and F07h, C06-6
add("delta-over-tau-uncapped", F, ["C18"], "dfols/solver.py", "control.delta = min(min(params(\"tr_radius.gamma_dec\") * control.delta, dnorm) / tau, 1e10)  # tau can be 0", "control.delta = min(params(\"tr_radius.gamma_dec\") * control.delta, dnorm) / tau", "C18-3")
add("scaling-before-shape-rows", F, ["C07"], "dfols/solver.py", "    scaling_changes = None\n    if exit_info is None and scaling_within_bounds:", "    scaling_changes = None\n    if scaling_within_bounds:", "C07-2b")
add("sfista-without-the-box", F, ["C06"], "dfols/controller.py", "                d, gnew, crvmin = ctrsbox_sfista(self.model.xopt(abs_coordinates=True), gopt, H, [proj], self.delta,", "                d, gnew, crvmin = ctrsbox_sfista(self.model.xopt(abs_coordinates=True), gopt, H, [], self.delta,", "C06-6")

# ---- C16-6: fitted components are rows of one solution of the interpolation system
add("lagrange-constant-snapped-to-kronecker-delta", F, ["C16"], "dfols/model.py", "            c = soln[0]\n", "            c = 1.0 if k == self.kopt else 0.0\n", "C16-6")
add("lagrange-constants-zeros-with-one", F, ["C16"], "dfols/model.py", "            cs = soln[0, :]\n", "            cs = np.zeros((self.npt(),))\n            cs[self.kopt] = 1.0\n", "C16-6")
add("model-const-from-stored-residual", F, ["C16"], "dfols/model.py", "        self.model_const = dg[0,:] - np.dot(self.model_jac, xopt)  # shift base to xbase",
    "        self.model_const = self.fval_v[self.kopt, :] - np.dot(self.model_jac, xopt)  # shift base to xbase", "C16-6")
add("poisedness-gradient-includes-constant-row", F, ["C16"], "dfols/model.py", "            c = soln[0,k]; g = soln[1:, k]", "            c = soln[0,k]; g = soln[0:, k][1:] if False else soln[0:, k]", "C16-6")
add("s-lagrange-constants-filled-from-solution", S, ["C16"], "dfols/model.py", "            cs = soln[0, :]\n", "            cs = np.zeros((self.npt(),))\n            cs[:] = soln[0, :]\n")
add("s-lagrange-solution-renamed-and-copied", S, ["C16"], "dfols/model.py", "            c = soln[0]\n            g = soln[1:]\n            return c, g", "            const = float(soln[0])\n            grad = soln[1:].copy()\n            return const, grad")

# ---- C17-8: the running mean of a re-sampled residual
add("running-mean-weight-one-sample-ahead", F, ["C17"], "dfols/model.py", "        t = float(self.nsamples[k]) / float(self.nsamples[k] + 1)\n", "        t = float(self.nsamples[k] + 1) / float(self.nsamples[k] + 2)\n", "C17-8")
add("running-mean-weights-swapped", F, ["C17"], "dfols/model.py", "        self.fval_v[k, :] = t * self.fval_v[k, :] + (1 - t) * rvec_extra\n", "        self.fval_v[k, :] = (1 - t) * self.fval_v[k, :] + t * rvec_extra\n", "C17-8")
add("running-mean-count-incremented-first", F, ["C17"], "dfols/model.py",
    '        t = float(self.nsamples[k]) / float(self.nsamples[k] + 1)\n        self.fval_v[k, :] = t * self.fval_v[k, :] + (1 - t) * rvec_extra\n        # NOTE: how to sample when we have h? still at xpt(k), then add h(xpt(k)). Modify test if incorrect!\n        self.objval[k] = sumsq(self.fval_v[k, :])\n        if self.h is not None:\n            self.objval[k] += self.h(remove_scaling(self.as_absolute_coordinates(self.points[k, :]), self.scaling_changes), *self.argsh)\n        self.nsamples[k] += 1\n',
    '        self.nsamples[k] += 1\n        t = float(self.nsamples[k]) / float(self.nsamples[k] + 1)\n        self.fval_v[k, :] = t * self.fval_v[k, :] + (1 - t) * rvec_extra\n        # NOTE: how to sample when we have h? still at xpt(k), then add h(xpt(k)). Modify test if incorrect!\n        self.objval[k] = sumsq(self.fval_v[k, :])\n        if self.h is not None:\n            self.objval[k] += self.h(remove_scaling(self.as_absolute_coordinates(self.points[k, :]), self.scaling_changes), *self.argsh)\n', "C17-8")
add("s-running-mean-count-incremented-first-and-weights-adjusted", S, ["C17", "C03"], "dfols/model.py",
    '        t = float(self.nsamples[k]) / float(self.nsamples[k] + 1)\n        self.fval_v[k, :] = t * self.fval_v[k, :] + (1 - t) * rvec_extra\n        # NOTE: how to sample when we have h? still at xpt(k), then add h(xpt(k)). Modify test if incorrect!\n        self.objval[k] = sumsq(self.fval_v[k, :])\n        if self.h is not None:\n            self.objval[k] += self.h(remove_scaling(self.as_absolute_coordinates(self.points[k, :]), self.scaling_changes), *self.argsh)\n        self.nsamples[k] += 1\n',
    '        self.nsamples[k] += 1\n        t = float(self.nsamples[k] - 1) / float(self.nsamples[k])\n        self.fval_v[k, :] = t * self.fval_v[k, :] + (1 - t) * rvec_extra\n        # NOTE: how to sample when we have h? still at xpt(k), then add h(xpt(k)). Modify test if incorrect!\n        self.objval[k] = sumsq(self.fval_v[k, :])\n        if self.h is not None:\n            self.objval[k] += self.h(remove_scaling(self.as_absolute_coordinates(self.points[k, :]), self.scaling_changes), *self.argsh)\n')
add("running-mean-plain-half", F, ["C17"], "dfols/model.py", "        self.fval_v[k, :] = t * self.fval_v[k, :] + (1 - t) * rvec_extra\n", "        self.fval_v[k, :] = 0.5 * (self.fval_v[k, :] + rvec_extra)\n", "C17-8")
add("s-running-mean-incremental-form", S, ["C17", "C03"], "dfols/model.py", "        self.fval_v[k, :] = t * self.fval_v[k, :] + (1 - t) * rvec_extra\n",
    "        self.fval_v[k, :] = self.fval_v[k, :] + (rvec_extra - self.fval_v[k, :]) / float(self.nsamples[k] + 1)\n")
add("s-running-mean-sum-form", S, ["C17", "C03"], "dfols/model.py", "        self.fval_v[k, :] = t * self.fval_v[k, :] + (1 - t) * rvec_extra\n",
    "        nk = self.nsamples[k]\n        self.fval_v[k, :] = (nk * self.fval_v[k, :] + rvec_extra) / (nk + 1.0)\n")

# ---- C13-7: the geometry step is the better of the two extreme candidates
add("geometry-comparison-reversed", F, ["C13"], "dfols/trust_region.py", "    if abs(c + np.dot(g, smin)) >= abs(c + np.dot(g, smax)):  # choose the one with largest absolute value\n        return xbase + smin",
    "    if abs(c + np.dot(g, smin)) <= abs(c + np.dot(g, smax)):  # choose the one with largest absolute value\n        return xbase + smin", "C13-7")
add("geometry-early-return-of-the-minimiser", F, ["C13"], "dfols/trust_region.py", "    smax = trsbox_linear(-g, lower - xbase, upper - xbase, Delta, use_fortran=use_fortran)  # maximise g' * s\n",
    "    if c * np.dot(g, smin) > ZERO_THRESH:\n        return xbase + smin\n    smax = trsbox_linear(-g, lower - xbase, upper - xbase, Delta, use_fortran=use_fortran)  # maximise g' * s\n", "C13-7")
add("convex-geometry-both-candidates-same-sign", F, ["C13"], "dfols/trust_region.py", "    smax = ctrsbox_linear(xbase, -g, projections, Delta,", "    smax = ctrsbox_linear(xbase, g, projections, Delta,", "C13-7")
add("s-geometry-values-in-temporaries", S, ["C13"], "dfols/trust_region.py", "    if abs(c + np.dot(g, smin)) >= abs(c + np.dot(g, smax)):  # choose the one with largest absolute value\n        return xbase + smin",
    "    lmin = abs(c + np.dot(g, smin))\n    lmax = abs(c + np.dot(g, smax))\n    if lmax <= lmin:\n        return xbase + smin")
# ---- C14-2: an early return that skips the clamp
add("random-directions-fast-path-skips-clamp", F, ["C14"], "dfols/util.py", "    # ninactive = n - nactive\n    idx_active = np.where(active)[0]  # indices of active constraints\n",
    "    # ninactive = n - nactive\n    if nactive == 0:\n        dirns = np.random.normal(size=(num_pts, n))\n        return dirns * (delta / np.linalg.norm(dirns, axis=1)).reshape((num_pts, 1))\n    idx_active = np.where(active)[0]  # indices of active constraints\n", "C14-2")

# ---- C12-4: work vectors under the active-set mask
add_multi("alt-step-work-vector-allocated-once", F, ["C12"], [
    ("dfols/trust_region.py", "    # while True:  # label 100 here\n", "    s = np.zeros((n,))  # work vector\n    # while True:  # label 100 here\n"),
    ("dfols/trust_region.py", "        s = np.zeros((n,))\n        s[xbdi == 0] = d[xbdi == 0]\n", "        s[xbdi == 0] = d[xbdi == 0]\n"),
    ("dfols/trust_region.py", "            temp = sqrt(temp)\n            s = np.zeros((n,))\n", "            temp = sqrt(temp)\n"),
], "C12-4")
add("s-alt-step-inner-allocation-dropped", S, ["C12"], "dfols/trust_region.py", "            temp = sqrt(temp)\n            s = np.zeros((n,))\n", "            temp = sqrt(temp)\n")
add("s-alt-step-buffer-zeroed-in-place", S, ["C12"], "dfols/trust_region.py", "        s = np.zeros((n,))\n        s[xbdi == 0] = d[xbdi == 0]\n", "        s = np.empty((n,))\n        s[:] = 0.0\n        s[xbdi == 0] = d[xbdi == 0]\n")
add("s-alt-step-complementary-mask-zeroed", S, ["C12"], "dfols/trust_region.py", "        s = np.zeros((n,))\n        s[xbdi == 0] = d[xbdi == 0]\n", "        s = np.empty((n,))\n        s[xbdi != 0] = 0.0\n        s[xbdi == 0] = d[xbdi == 0]\n")

# ---- C12-5: gnew = g + H d as an algebraic consequence of the statements (linear-relation analysis)
add("cg-gradient-update-uses-other-step-length", F, ["C12"], "dfols/trust_region.py", "            gnew += stplen * hs\n", "            gnew += blen * hs\n", "C12-5")
add("alt-step-hred-not-updated-with-cosine", F, ["C12"], "dfols/trust_region.py", "            hred = cth * hred + sth * hs\n", "            hred = hred + sth * hs\n", "C12-5")
add("alt-step-gradient-update-sign", F, ["C12"], "dfols/trust_region.py", "            gnew += (cth - 1.0) * hred + sth * hs\n", "            gnew += (cth - 1.0) * hred - sth * hs\n", "C12-5")
add("alt-step-hred-from-full-gradient-difference", F, ["C12"], "dfols/trust_region.py", "        hred = hs.copy()\n", "        hred = H.dot(d)\n", "C12-5")
add("s-alt-step-update-order-swapped", S, ["C12"], "dfols/trust_region.py", "            gnew += (cth - 1.0) * hred + sth * hs\n            d[xbdi == 0] = cth * d[xbdi == 0] + sth * s[xbdi == 0]\n",
    "            d[xbdi == 0] = cth * d[xbdi == 0] + sth * s[xbdi == 0]\n            gnew += (cth - 1.0) * hred + sth * hs\n")
add("s-cg-updates-written-out", S, ["C12"], "dfols/trust_region.py", "            gnew += stplen * hs\n            d += stplen * s\n", "            d = d + stplen * s\n            gnew = gnew + stplen * H.dot(s)\n")
add("s-alt-step-free-components-in-a-temporary", S, ["C12"], "dfols/trust_region.py", "            d[xbdi == 0] = cth * d[xbdi == 0] + sth * s[xbdi == 0]\n",
    "            d_free = cth * d[xbdi == 0] + sth * s[xbdi == 0]\n            d[xbdi == 0] = d_free\n")

# ---- C16-7: the assembled gradient is 2 J'(c + J x_opt) at the current incumbent
add("assembled-gradient-without-the-incumbent-term", F, ["C16"], "dfols/model.py", "        r = self.model_const + np.dot(self.model_jac, self.xopt())  # constant term (for inexact interpolation)",
    "        r = self.model_const  # constant term (for inexact interpolation)", "C16-7")
add("assembled-gradient-factor-dropped", F, ["C16"], "dfols/model.py", "        g = 2.0 * np.dot(J.T, r)  # n-vector", "        g = np.dot(J.T, r)  # n-vector", "C16-7")
add("s-assembled-gradient-spelled-differently", S, ["C16"], "dfols/model.py", "        r = self.model_const + np.dot(self.model_jac, self.xopt())  # constant term (for inexact interpolation)\n        J = self.model_jac\n",
    "        jac = self.model_jac\n        xk = self.xopt()\n        r = np.dot(jac, xk) + self.model_const\n        J = jac\n")
# ---- C12-6: the index found by a scan is reset before every scan
add("alt-step-limiting-index-reset-hoisted", F, ["C12"], "dfols/trust_region.py", "            angbd = 1.0\n            iact = None\n", "            angbd = 1.0\n", "C12-6")
add("s-scan-index-reset-by-tuple-assignment", S, ["C12"], "dfols/trust_region.py", "            angbd = 1.0\n            iact = None\n", "            angbd, iact = 1.0, None\n")

# ---- C13-8: the step routines do not modify their array arguments; C13-7 with a data-dependent first direction; C15-2c complete sweeps
add("linear-solver-zeroes-entries-of-its-argument", F, ["C13"], "dfols/trust_region.py", "    x = np.zeros((n,))\n    dirn = -g\n    cons_dirns = []\n", "    x = np.zeros((n,))\n    dirn = g\n    cons_dirns = []\n", "C13-8")
add("s-linear-solver-negates-with-numpy", S, ["C13"], "dfols/trust_region.py", "    x = np.zeros((n,))\n    dirn = -g\n    cons_dirns = []\n", "    x = np.zeros((n,))\n    dirn = np.negative(g)\n    cons_dirns = []\n")
add_multi("geometry-reinforcing-direction-returned-early", F, ["C13"], [
    ("dfols/trust_region.py", "    smin = trsbox_linear(g, lower - xbase, upper - xbase, Delta, use_fortran=use_fortran)  # minimise g' * s\n    smax = trsbox_linear(-g, lower - xbase, upper - xbase, Delta, use_fortran=use_fortran)  # maximise g' * s\n",
     "    gs = g if c <= 0.0 else -g\n    smin = trsbox_linear(gs, lower - xbase, upper - xbase, Delta, use_fortran=use_fortran)\n    if np.linalg.norm(smin) >= (1.0 - 1e-12) * Delta:\n        return xbase + smin\n    smax = trsbox_linear(-gs, lower - xbase, upper - xbase, Delta, use_fortran=use_fortran)\n"),
], "C13-7")
add_multi("s-geometry-first-direction-chosen-by-the-sign-of-c", S, ["C13"], [
    ("dfols/trust_region.py", "    smin = trsbox_linear(g, lower - xbase, upper - xbase, Delta, use_fortran=use_fortran)  # minimise g' * s\n    smax = trsbox_linear(-g, lower - xbase, upper - xbase, Delta, use_fortran=use_fortran)  # maximise g' * s\n",
     "    gs = g if c <= 0.0 else -g\n    smin = trsbox_linear(gs, lower - xbase, upper - xbase, Delta, use_fortran=use_fortran)\n    smax = trsbox_linear(-gs, lower - xbase, upper - xbase, Delta, use_fortran=use_fortran)\n"),
])
add("dykstra-flat-loop-stops-inside-a-sweep", F, ["C15", "C09"], "dfols/util.py",
    "    while n < max_iter and cI >= tol:\n        cI = 0\n        for i in range(0,p):\n            # Update iterate\n            prev_x = x.copy()\n            x = P[i](prev_x - y[i,:])\n",
    "    cI = np.full((p,), float('inf'))\n    while n < p * max_iter and np.sum(cI) >= tol:\n        for i in [n % p]:\n            # Update iterate\n            prev_x = x.copy()\n            x = P[i](prev_x - y[i,:])\n", "stop-inside-a-sweep")

# ---- C15-2d: pball is total
add("pball-pull-back-by-the-excess-distance", F, ["C15"], "dfols/util.py", "    return c + (r/np.max([np.linalg.norm(x-c),r]))*(x-c)\n",
    "    d = x - c\n    dist = np.linalg.norm(d)\n    return x - (max(dist - r, 0.0) / dist) * d\n", "C15-2d")
add("s-pball-with-named-distance", S, ["C15", "C13"], "dfols/util.py", "    return c + (r/np.max([np.linalg.norm(x-c),r]))*(x-c)\n",
    "    d = x - c\n    dist = np.linalg.norm(d)\n    return c + (r / max(dist, r)) * d\n")

# ---- C07-14: Python-float division by a root that can vanish (pre-repair form of F07i)
add("precondition-scale-not-protected-against-coincident-points", F, ["C07"], "dfols/model.py",
    "            if approx_delta == 0.0:\n                approx_delta = 1.0  # all points coincide (to rounding): nothing to scale by; the singular system is reported by the solve\n", "", "C07-14")
add("s-precondition-scale-floored", S, ["C07", "C16"], "dfols/model.py",
    "            if approx_delta == 0.0:\n                approx_delta = 1.0  # all points coincide (to rounding): nothing to scale by; the singular system is reported by the solve\n",
    "            if not approx_delta > 0.0:\n                approx_delta = 1.0\n")
add("slow-history-range-includes-zero", F, ["C07"], "dfols/params.py", "type_str, nonetype_ok, lower, upper = 'int', False, 1, None  # the average decrease is taken over this many iterations (a divisor)",
    "type_str, nonetype_ok, lower, upper = 'int', False, 0, None", "C07-14")

# ---- C07-15: no assert on an argument in solve (pre-repair form of F07k)
add_multi("bounds-pair-checked-by-assert", F, ["C07"], [
    ("dfols/solver.py", "    elif len(bounds) != 2:\n        xl = None  # reported as an input error below\n        xu = None\n    else:\n",
     "    else:\n        assert len(bounds) == 2, \"bounds must be a 2-tuple of (lower, upper), where both are arrays of size(x0)\"\n"),
], "C07-15")
add("s-bounds-pair-test-named", S, ["C07", "C01", "C09"], "dfols/solver.py", "    if bounds is not None and len(bounds) != 2:\n        exit_info = ExitInformation(EXIT_INPUT_ERROR, \"bounds must be a 2-tuple",
    "    bounds_malformed = bounds is not None and len(bounds) != 2\n    if bounds_malformed:\n        exit_info = ExitInformation(EXIT_INPUT_ERROR, \"bounds must be a 2-tuple")

# ---- C07-16: one-sided handler (pre-repair form of F07l)
add("iteration-estimate-handler-names-only-valueerror", F, ["C07"], "dfols/trust_region.py", "    except (ValueError, OverflowError):  # NaN, or an infinite bound (func_tol = 0)\n", "    except ValueError:\n", "C07-16")
add("s-iteration-estimate-handler-arithmetic-error", S, ["C07"], "dfols/trust_region.py", "    except (ValueError, OverflowError):  # NaN, or an infinite bound (func_tol = 0)\n", "    except (ValueError, ArithmeticError):\n")

# ---- C18-9: strict decrease of rho (pre-repair form of F18e)
add("alpha1-one-not-rejected", F, ["C18"], "dfols/solver.py", "    if exit_info is None and params(\"tr_radius.alpha1\") >= 1.0:\n        exit_info = ExitInformation(EXIT_INPUT_ERROR, \"tr_radius.alpha1 must be strictly less than 1\")\n", "", "C18-9")
add("reduce-rho-constant-factor-one", F, ["C18"], "dfols/controller.py", "            new_rho = sqrt(ratio) * self.rhoend", "            new_rho = 1.0 * self.rho", "C18-9")
add("alpha1-guard-weakened-to-strict", F, ["C07"], "dfols/solver.py", "    if exit_info is None and params(\"tr_radius.alpha1\") >= 1.0:", "    if exit_info is None and params(\"tr_radius.alpha1\") > 1.0:", "weakened-guard")

# ---- C07-17: every cycle of the main loop passes a progress site
add("main-loop-skips-iterations-while-delta-is-large", F, ["C07"], "dfols/solver.py", "        if do_logging:\n            module_logger.debug(\"*** Iter %g (delta = %g, rho = %g) ***\" % (current_iter, control.delta, control.rho))\n",
    "        if do_logging:\n            module_logger.debug(\"*** Iter %g (delta = %g, rho = %g) ***\" % (current_iter, control.delta, control.rho))\n        if control.delta > 1e9:\n            control.delta = 0.5 * control.delta\n            continue\n", "C07-17")

# ---- C07-18: every while loop has a counter that ends it
add("projection-initialiser-counter-not-advanced-on-one-path", F, ["C07"], "dfols/controller.py",
    "                    # rank was improved, update D_rank for next comparison\n                    D_rank = D_rank2\n                k += 1\n\n            # Try random combination of negatives...",
    "                    # rank was improved, update D_rank for next comparison\n                    D_rank = D_rank2\n                    k += 1\n\n            # Try random combination of negatives...", "C07-18")

# ---- C07-19: an exit returned by a progress call is tested before the next iteration
add("safety-step-continues-before-testing-the-exit", F, ["C07"], "dfols/solver.py",
    "                did_fix_geom, exit_info = control.check_and_fix_geometry(distsq, update_delta, number_of_samples, params)\n                if dnorm > control.rho:\n                    control.last_successful_iter = current_iter\n\n                if exit_info is not None:\n                    if exit_info.able_to_do_restart() and params(\"restarts.use_restarts\") and params(\n                            \"restarts.use_soft_restarts\"):\n                        number_of_samples = max(nsamples(control.delta, control.rho, current_iter, nruns_so_far), 1)\n                        exit_info = control.soft_restart(number_of_samples, nruns_so_far, params,\n                                                         x_in_abs_coords_to_save=None, rvec_to_save=None,\n                                                         nsamples_to_save=None)\n                        if exit_info is not None:\n                            nruns_so_far += 1\n                            break  # quit\n                        current_iter = -1",
    "                did_fix_geom, exit_info = control.check_and_fix_geometry(distsq, update_delta, number_of_samples, params)\n                if dnorm > control.rho:\n                    control.last_successful_iter = current_iter\n                if did_fix_geom and dnorm > control.rho:\n                    continue  # next iteration\n\n                if exit_info is not None:\n                    if exit_info.able_to_do_restart() and params(\"restarts.use_restarts\") and params(\n                            \"restarts.use_soft_restarts\"):\n                        number_of_samples = max(nsamples(control.delta, control.rho, current_iter, nruns_so_far), 1)\n                        exit_info = control.soft_restart(number_of_samples, nruns_so_far, params,\n                                                         x_in_abs_coords_to_save=None, rvec_to_save=None,\n                                                         nsamples_to_save=None)\n                        if exit_info is not None:\n                            nruns_so_far += 1\n                            break  # quit\n                        current_iter = -1", "C07-19")

# ---- C07-12 second clause: loop limit is the capacity, the list holds the points present (pre-repair form of F07m)
add_multi("restart-geometry-loop-bounded-by-the-capacity", F, ["C07"], [
    ("dfols/controller.py", "            upper_limit = self.model.npt()  # points held now (fewer than num_pts while still growing)\n", "            upper_limit = self.model.num_pts\n"),
    ("dfols/controller.py", "            upper_limit = self.model.npt() - 1\n", "            upper_limit = self.model.num_pts - 1\n"),
], "limit-is-the-capacity")

# ---- C07-20: Gram-Schmidt result tested before normalising (pre-repair form of F07n, one site)
add("growing-direction-normalised-without-a-test", F, ["C07"], "dfols/controller.py",
    "        if LA.norm(dirn) == 0.0:\n            dirn = random_dirn  # current directions already span the whole space: keep the random direction\n", "", "C07-20")
add("s-growing-direction-norm-in-a-local", S, ["C07"], "dfols/controller.py",
    "        if LA.norm(dirn) == 0.0:\n            dirn = random_dirn  # current directions already span the whole space: keep the random direction\n",
    "        dirn_norm = LA.norm(dirn)\n        if dirn_norm == 0.0:\n            dirn = random_dirn\n")

# ---- C08-5: division by a Hessian norm that can vanish (pre-repair form of F08d)
add("pgd-step-length-for-a-zero-hessian", F, ["C08"], "dfols/trust_region.py",
    "    if L == 0.0:\n        # H = 2*J^T*J = 0 means J = 0, so g = 2*J^T*r = 0 too: the model is constant and there is no step to take\n        # (the step length 1/L below would be infinite and the step NaN)\n        return d, gnew, crvmin\n", "", "C08-5")
add("s-pgd-zero-hessian-test-reversed", S, ["C08", "C12", "C13"], "dfols/trust_region.py",
    "    if L == 0.0:\n        # H = 2*J^T*J = 0 means J = 0, so g = 2*J^T*r = 0 too: the model is constant and there is no step to take\n        # (the step length 1/L below would be infinite and the step NaN)\n        return d, gnew, crvmin\n",
    "    if not L > 0.0:\n        return d, gnew, crvmin\n")

# ---- pre-repair forms of F03e / F04c (init.run_in_parallel), and a drain loop that skips the current entry
add("parallel-init-point-number-read-late", F, ["C03"], "dfols/controller.py",
    "                self.model.change_point(k, x - self.model.xbase, rvec_list[0, :], eval_num)  # expect step, not absolute x", "                self.model.change_point(k, x - self.model.xbase, rvec_list[0, :], self.nx)  # expect step, not absolute x", "eval_num")
add("parallel-init-drain-skips-the-current-result", F, ["C04"], "dfols/controller.py", "                    for j in range(k, num_directions + 1):", "                    for j in range(k + 1, num_directions + 1):", "C04-1")
add("parallel-init-drain-reads-the-wrong-entry", F, ["C04"], "dfols/controller.py", "                        rvec_list, obj_list, num_samples_run, _, eval_num = eval_obj_results[j]", "                        rvec_list, obj_list, num_samples_run, _, eval_num = eval_obj_results[j - 1]", "C04-1")

# ---- C20-8: to_dict and the None fields of an input-error result (pre-repair form of F20c)
add("to-dict-converts-the-objective-unconditionally", F, ["C20"], "dfols/solver.py", "        soln_dict['obj'] = float(self.obj) if self.obj is not None else None\n", "        soln_dict['obj'] = float(self.obj)\n", "C20-8")
add("s-to-dict-objective-guard-as-statement", S, ["C20"], "dfols/solver.py", "        soln_dict['obj'] = float(self.obj) if self.obj is not None else None\n",
    "        soln_dict['obj'] = None\n        if self.obj is not None:\n            soln_dict['obj'] = float(self.obj)\n")

# ---- round 5: rules added for the round-5 seeds and for F03d
# C03-5b: pre-repair form of F03d (h at the unclipped point) and a behaviour-preserving spelling of the repair
add("h-added-at-the-unclipped-point", F, ["C03"], "dfols/model.py",
    "            self.objval[k] += self.h(remove_scaling(self.as_absolute_coordinates(x), self.scaling_changes), *self.argsh)\n",
    "            self.objval[k] += self.h(remove_scaling(self.xbase + x, self.scaling_changes), *self.argsh)\n", "C03-5b")
add("s-h-point-through-a-temporary", S, ["C03", "C17", "C01", "C06"], "dfols/model.py",
    "            self.objval[k] += self.h(remove_scaling(self.as_absolute_coordinates(x), self.scaling_changes), *self.argsh)\n",
    "            x_evaluated = self.as_absolute_coordinates(x)\n            self.objval[k] += self.h(remove_scaling(x_evaluated, self.scaling_changes), *self.argsh)\n")
# C07-21: format strings
add("format-arity-one-argument-short", F, ["C07"], "dfols/controller.py",
    "module_logger.info(\"Soft restart [currently, f = %g after %g function evals]\" % (self.model.objopt(), self.nf))",
    "module_logger.info(\"Soft restart [currently, f = %g after %g function evals]\" % (self.model.objopt(),))", "C07-21")
add_multi("bad-keys-as-tuple-and-str-dropped", F, ["C07"], [
    ("dfols/params.py", "        return len(bad_keys) == 0, bad_keys\n", "        return len(bad_keys) == 0, tuple(bad_keys)\n"),
    ("dfols/solver.py", "\"Bad parameters: %s\" % str(bad_keys)", "\"Bad parameters: %s\" % bad_keys")], "C07-21")
add("s-bad-keys-as-tuple-str-kept", S, ["C07"], "dfols/params.py", "        return len(bad_keys) == 0, bad_keys\n", "        return len(bad_keys) == 0, tuple(bad_keys)\n")
add("s-bad-keys-list-str-dropped", S, ["C07"], "dfols/solver.py", "\"Bad parameters: %s\" % str(bad_keys)", "\"Bad parameters: %s\" % bad_keys")
# C04-5b: negative predicted reduction
add("model-increase-only-logged", F, ["C04"], "dfols/controller.py",
    "                exit_info = ExitInformation(EXIT_TR_INCREASE_ERROR, \"Trust region step gave model increase\")\n",
    "                module_logger.warning(\"Trust region step gave model increase\")\n", "C04-5b")
add("s-model-increase-test-swapped-operands", S, ["C04", "C07", "C10"], "dfols/controller.py", "        if pred_reduction < 0.0:\n            if len(self.model.projections) > 1:", "        if 0.0 > pred_reduction:\n            if len(self.model.projections) > 1:")
# C04-7 / C18-11: loops over the furthest points
add_multi("furthest-points-loop-unbounded", F, ["C04", "C18"], [
    ("dfols/controller.py", "        for i in range(min(num_pts_to_move, len(furthest_points) - 1)):\n            # Determine which point to update (knew)\n            knew = furthest_points[i]\n\n            # Using adelt",
     "        for i in range(num_pts_to_move):\n            # Determine which point to update (knew)\n            knew = furthest_points[i]\n\n            # Using adelt"),
    ("dfols/solver.py", "                                       control.model.npt() - 1)  # cap at number of points", "                                       control.model.npt())  # cap at number of points")], "the-incumbent")
add("s-furthest-points-loop-bounded-by-the-caller-only", S, ["C04", "C18"], "dfols/controller.py",
    "        for i in range(min(num_pts_to_move, len(furthest_points) - 1)):\n            # Determine which point to update (knew)\n            knew = furthest_points[i]\n\n            # Using adelt",
    "        for i in range(num_pts_to_move):\n            # Determine which point to update (knew)\n            knew = furthest_points[i]\n\n            # Using adelt")
add("s-furthest-points-slice-form", S, ["C04", "C18"], "dfols/controller.py",
    "        for i in range(min(num_pts_to_move, len(furthest_points) - 1)):\n            # Determine which point to update (knew)\n            knew = furthest_points[i]\n\n            # Using adelt",
    "        for knew in furthest_points[:min(num_pts_to_move, len(furthest_points) - 1)]:\n            # Using adelt")
# C18-10: npt and its maximum
add("npt-increase-guarded-not-clamped", F, ["C18"], "dfols/solver.py",
    "            npt += params(\"restarts.increase_npt_amt\")\n            npt = min(npt, params(\"restarts.max_npt\"))\n",
    "            if npt < params(\"restarts.max_npt\"):\n                npt += params(\"restarts.increase_npt_amt\")\n", "C18-10")
add("s-npt-increase-and-clamp-in-one-statement", S, ["C18", "C07"], "dfols/solver.py",
    "            npt += params(\"restarts.increase_npt_amt\")\n            npt = min(npt, params(\"restarts.max_npt\"))\n",
    "            npt = min(npt + params(\"restarts.increase_npt_amt\"), params(\"restarts.max_npt\"))\n")
add("soft-restart-appends-the-full-amount", F, ["C18"], "dfols/controller.py",
    "            num_pts_to_add = min(params(\"restarts.increase_npt_amt\"), params(\"restarts.max_npt\") - self.model.npt())\n",
    "            num_pts_to_add = params(\"restarts.increase_npt_amt\")\n", "C18-10")
# C19-4: rows saved for restoring
add("restore-from-a-view", F, ["C19"], "dfols/controller.py", "                        dk = D[k,:].copy()\n", "                        dk = D[k,:]\n", "C19-4")
# C10-3: atoms and the writes between them
add("restart-decision-reads-the-stale-run-counter", F, ["C10"], "dfols/controller.py",
    "        # A successful run is one where we reduced fopt\n        if self.model.objopt() < self.last_run_fopt:\n            self.last_successful_run = nruns_so_far\n        self.last_run_fopt = self.model.objopt()\n\n        ok_to_do_restart = (nruns_so_far - self.last_successful_run < params(\"restarts.max_unsuccessful_restarts\")) and \\\n                           (self.nf < self.maxfun)\n",
    "        ok_to_do_restart = (nruns_so_far - self.last_successful_run < params(\"restarts.max_unsuccessful_restarts\")) and \\\n                           (self.nf < self.maxfun)\n        # A successful run is one where we reduced fopt\n        if self.model.objopt() < self.last_run_fopt:\n            self.last_successful_run = nruns_so_far\n        self.last_run_fopt = self.model.objopt()\n", "C10-3")
# C16-3: base shift through a conditional
add("shift-base-recomputes-the-constant-conditionally", F, ["C16"], "dfols/model.py",
    "        self.model_const += np.dot(self.model_jac, xbase_shift)\n",
    "        if self.model_jac_eval_nums is not None:\n            self.model_const = self.ropt() - np.dot(self.model_jac, self.xopt())\n", "C16-3")
add("s-shift-base-update-under-a-trivial-branch", S, ["C16", "C01"], "dfols/model.py",
    "        self.model_const += np.dot(self.model_jac, xbase_shift)\n",
    "        if self.model_jac is not None:\n            self.model_const += np.dot(self.model_jac, xbase_shift)\n        else:\n            self.model_const = self.model_const + np.dot(self.model_jac, xbase_shift)\n")
# C17-9: pre-repair form of F17b (record appended behind the unused rows of a growing set) and an equivalent spelling of the repair
add("new-point-appended-behind-the-unused-rows", F, ["C17"], "dfols/model.py", "        self.points = np.insert(self.points, k, x, axis=0)  # new row of xpt\n",
    "        self.points = np.append(self.points, x.reshape((1, self.n())), axis=0)  # new row of xpt\n", "C17-9")
add("new-point-inserted-after-the-count-changed", F, ["C17"], "dfols/model.py", "        self.eval_num = np.insert(self.eval_num, k, eval_num)  # add new evaluation number\n        self.num_pts += 1  # make sure npt is updated\n        self.npt_so_far += 1\n",
    "        self.num_pts += 1  # make sure npt is updated\n        self.npt_so_far += 1\n        self.eval_num = np.insert(self.eval_num, self.npt(), eval_num)  # add new evaluation number\n", "C17-9")
add("s-new-point-position-read-in-place", S, ["C17", "C03", "C11", "C20", "C16"], "dfols/model.py", "        self.points = np.insert(self.points, k, x, axis=0)  # new row of xpt\n",
    "        self.points = np.insert(self.points, self.npt(), x, axis=0)  # new row of xpt\n")
# C04-3 / C08-1 / C17-4 row NAN_HOLDER for the incumbent moves: pre-repair form of F04d
add("nan-incumbent-never-displaced", F, ["C04", "C08", "C17"], "dfols/model.py", "        if allow_kopt_update and (self.objval[k] < self.objopt() or np.isnan(self.objopt())):\n",
    "        if allow_kopt_update and self.objval[k] < self.objopt():\n", "NAN_HOLDER")
add("s-nan-incumbent-test-first", S, ["C04", "C08", "C17"], "dfols/model.py", "        if allow_kopt_update and (self.objval[k] < self.objopt() or np.isnan(self.objopt())):\n",
    "        if allow_kopt_update and (np.isnan(self.objopt()) or self.objval[k] < self.objopt()):\n")
# C07-19b: exits handed on by the Controller methods
add("exit-of-geometry-step-dropped-by-inverted-test", F, ["C07"], "dfols/controller.py",
    "            exit_info = self.geometry_step(knew, adelt, number_of_samples, params)\n\n            if exit_info is not None:\n                return exit_info\n\n        return None",
    "            exit_info = self.geometry_step(knew, adelt, number_of_samples, params)\n\n            if exit_info is None:\n                return exit_info\n\n        return None", "C07-19b")
add("s-exit-of-geometry-step-guard-clause", S, ["C07", "C04", "C10"], "dfols/controller.py",
    "            exit_info = self.geometry_step(knew, adelt, number_of_samples, params)\n\n            if exit_info is not None:\n                return exit_info\n\n        return None",
    "            exit_info = self.geometry_step(knew, adelt, number_of_samples, params)\n\n            if exit_info is None:\n                continue\n            return exit_info\n\n        return None")
# C02-6b: the nsamples callback is asked the documented question
add("nsamples-iteration-and-run-swapped", F, ["C02"], "dfols/solver.py", "max(nsamples(rhobeg, rhobeg, 0, nruns_so_far), 1)", "max(nsamples(rhobeg, rhobeg, nruns_so_far, 0), 1)", "C02-6b")
add("nsamples-delta-and-rho-swapped", F, ["C02"], "dfols/solver.py", "max(nsamples(control.delta, control.rho, 0, nruns_so_far), 1)", "max(nsamples(control.rho, control.delta, 0, nruns_so_far), 1)", "C02-6b")
# C07-5c / C07-5d: validators of the parameter table
add("range-validator-or-for-and", F, ["C07"], "dfols/params.py", "    else:  # is integer\n        return (lower is None or val >= lower) and (upper is None or val <= upper)\n\n\ndef check_float",
    "    else:  # is integer\n        return (lower is None or val >= lower) or (upper is None or val <= upper)\n\n\ndef check_float", "C07-5c")
add("s-range-validator-operands-swapped", S, ["C07"], "dfols/params.py", "    else:  # is integer\n        return (lower is None or val >= lower) and (upper is None or val <= upper)\n\n\ndef check_float",
    "    else:  # is integer\n        return (upper is None or upper >= val) and (lower is None or lower <= val)\n\n\ndef check_float")
add("failing-parameter-not-recorded", F, ["C07"], "dfols/params.py", "            if not self.check_param(key, self.params[key], npt):\n                bad_keys.append(key)",
    "            if not self.check_param(key, self.params[key], npt):\n                pass", "C07-5d")
# C07-22: instance attributes are set by the constructor
add("run-counter-initialisation-dropped", F, ["C07"], "dfols/controller.py", "        self.last_successful_run = 0\n", "        pass\n", "C07-22")
# C07-19c / C03-9b
add("exit-of-a-restart-carried-round-the-loop", F, ["C07"], "dfols/solver.py",
    "                    if exit_info is not None:\n                        nruns_so_far += 1\n                        break  # quit\n                    current_iter = -1\n                    nruns_so_far += 1\n                    rhoend = params(\"restarts.rhoend_scale\") * rhoend\n                    restart_auto_detect_full = False\n                    restart_auto_detect_delta = -1.0 * np.ones((params(\"restarts.auto_detect.history\"),))\n                    restart_auto_detect_chgJ = -1.0 * np.ones((params(\"restarts.auto_detect.history\"),))\n                    continue  # next iteration\n                else:\n                    exit_info = ExitInformation(EXIT_SUCCESS, \"rho has reached rhoend\")",
    "                    if exit_info is not None:\n                        nruns_so_far += 1\n                        continue  # quit\n                    current_iter = -1\n                    nruns_so_far += 1\n                    rhoend = params(\"restarts.rhoend_scale\") * rhoend\n                    restart_auto_detect_full = False\n                    restart_auto_detect_delta = -1.0 * np.ones((params(\"restarts.auto_detect.history\"),))\n                    restart_auto_detect_chgJ = -1.0 * np.ones((params(\"restarts.auto_detect.history\"),))\n                    continue  # next iteration\n                else:\n                    exit_info = ExitInformation(EXIT_SUCCESS, \"rho has reached rhoend\")", "C07-19c")
add("extra-samples-of-a-geometry-step-dropped", F, ["C03"], "dfols/controller.py",
    "        for i in range(1, num_samples_run):\n            self.model.add_new_sample(knew, rvec_extra=rvec_list[i, :])\n\n        # Estimate actual reduction",
    "        for i in range(1, num_samples_run):\n            pass\n\n        # Estimate actual reduction", "C03-9b")
add("s-extra-samples-walked-as-rows", S, ["C03", "C17", "C04"], "dfols/controller.py",
    "        for i in range(1, num_samples_run):\n            self.model.add_new_sample(knew, rvec_extra=rvec_list[i, :])\n\n        # Estimate actual reduction",
    "        for rvec_extra in rvec_list[1:num_samples_run, :]:\n            self.model.add_new_sample(knew, rvec_extra=rvec_extra)\n\n        # Estimate actual reduction")
# C16-3b / C17-5b / C06-7 (from the mutation sweep)
add("base-shift-call-dropped-rebasing-kept", F, ["C16"], "dfols/solver.py", "                control.model.shift_base(base_shift)\n", "                pass\n", "C16-3b")
add("swap-re-points-kopt-one-way-only", F, ["C17"], "dfols/model.py", "        elif self.kopt == k2:\n            self.kopt = k1\n", "        elif self.kopt == k2:\n            pass\n", "C17-5b")
add("box-projector-with-identical-ends", F, ["C06"], "dfols/controller.py", "                proj = lambda x: pbox(x, self.model.xbase + self.model.sl, self.model.xbase + self.model.su)",
    "                proj = lambda x: pbox(x, self.model.xbase + self.model.su, self.model.xbase + self.model.su)", "C06-7")
# C18-3b: pre-repair form of F18f
add("initial-radius-not-validated-against-the-cap", F, ["C18"], "dfols/solver.py", "    if exit_info is None and rhobeg > 1.0e10:\n", "    if exit_info is None and rhobeg > 1.0e300:\n", "C18-3b")
# C07-3: inverted guard of a documented invalid-argument class
add("missing-lipschitz-constant-guard-inverted", F, ["C07"], "dfols/solver.py", "        elif lh is None:\n            exit_info = ExitInformation(EXIT_INPUT_ERROR, \"Must provide lh input if h is not None\")",
    "        elif lh is not None:\n            exit_info = ExitInformation(EXIT_INPUT_ERROR, \"Must provide lh input if h is not None\")", "inverted-guard")
# C20-2c (recorded finding F20d): the repaired form must be silent
add("s-non-finite-floats-replaced", S, ["C20"], "dfols/util.py", "    elif isinstance(d, float) and math.isnan(d):\n", "    elif isinstance(d, float) and not math.isfinite(d):\n")
# robustness of C07-21 / C07-22 to two common spellings
add("s-format-arguments-in-a-local-tuple", S, ["C07"], "dfols/controller.py",
    "            module_logger.info(\"Soft restart [currently, f = %g after %g function evals]\" % (self.model.objopt(), self.nf))",
    "            log_args = (self.model.objopt(), self.nf)\n            module_logger.info(\"Soft restart [currently, f = %g after %g function evals]\" % log_args)")
add_multi("s-counters-initialised-by-a-helper-of-the-constructor", S, ["C07", "C10"], [
    ("dfols/controller.py", "        self.last_successful_run = 0\n", "        self._reset_run_counters()\n"),
    ("dfols/controller.py", "    def initialise_coordinate_directions(", "    def _reset_run_counters(self):\n        self.last_successful_run = 0\n\n    def initialise_coordinate_directions(")])
add("s-base-shift-before-the-rebasing", S, ["C16", "C01"], "dfols/solver.py", "                xnew = xnew - base_shift  # before xopt is updated\n                control.model.shift_base(base_shift)\n",
    "                control.model.shift_base(base_shift)\n                xnew = xnew - base_shift  # (base_shift was read before the shift)\n")
add("s-room-for-new-points-in-a-local", S, ["C18"], "dfols/controller.py", "            num_pts_to_add = min(params(\"restarts.increase_npt_amt\"), params(\"restarts.max_npt\") - self.model.npt())",
    "            room = params(\"restarts.max_npt\") - self.model.npt()\n            num_pts_to_add = min(params(\"restarts.increase_npt_amt\"), room)")
add("s-insert-position-written-out", S, ["C17"], "dfols/model.py", "        k = self.npt()\n        self.points = np.insert(self.points, k, x, axis=0)", "        k = min(self.num_pts, self.npt_so_far)\n        self.points = np.insert(self.points, k, x, axis=0)")
add("s-saved-row-copied-with-np-copy", S, ["C19"], "dfols/controller.py", "dk = D[k,:].copy()", "dk = np.copy(D[k,:])", all_occurrences=True)
add("s-furthest-points-limit-in-a-local", S, ["C04", "C18"], "dfols/controller.py",
    "        furthest_points = np.argsort(all_sq_dist)[::-1]  # indices from furthest to closest (last is kopt)\n\n        for i in range(min(num_pts_to_move, len(furthest_points) - 1)):\n            # Determine which point to update (knew)\n            knew = furthest_points[i]\n\n            # Using adelt",
    "        furthest_points = np.argsort(all_sq_dist)[::-1]  # indices from furthest to closest (last is kopt)\n        num_moves = min(num_pts_to_move, len(furthest_points) - 1)\n\n        for i in range(num_moves):\n            # Determine which point to update (knew)\n            knew = furthest_points[i]\n\n            # Using adelt")
add("s-model-increase-test-in-a-local", S, ["C04"], "dfols/controller.py", "        if pred_reduction < 0.0:\n            if len(self.model.projections) > 1:",
    "        model_increase = pred_reduction < 0.0\n        if model_increase:\n            if len(self.model.projections) > 1:")
add("s-max-npt-read-into-a-local", S, ["C18", "C07"], "dfols/solver.py", "            npt += params(\"restarts.increase_npt_amt\")\n            npt = min(npt, params(\"restarts.max_npt\"))\n",
    "            max_npt = params(\"restarts.max_npt\")\n            npt += params(\"restarts.increase_npt_amt\")\n            npt = min(npt, max_npt)\n")
add("last-successful-run-off-by-one", F, ["C10"], "dfols/controller.py", "            self.last_successful_run = nruns_so_far\n", "            self.last_successful_run = nruns_so_far - 1\n", "C10-4b")
