"""Interprocedural value-flow graph (def-use with reaching definitions for locals, field-based for objects).

Nodes (hashable):
  ('e', id(ast expr))          an expression occurrence
  ('d', fid, var, cfgnode)     a definition of local `var` at a CFG node
  ('p', fid, name)             a parameter
  ('r', fid)                   the return value of a function
  ('f', cls, attr)             an object field (field-based, flow-insensitive)
  ('g', module, name)          a module-level global
Edges are stored backwards:  preds[dst] = [(src, kind, info)]   "value flows from src to dst".
Kinds:
  copy      same value                         incr     dst = src +/- integer literal
  arith     dst computed from src              elem     src becomes an element/part of container dst
  index     dst = src[<non-constant>]          proj     dst = src[i] / i-th unpacked position (info = i)
  tup       src is position info=i of tuple literal dst
  iter      dst iterates over src              attr     dst = src.<info> on an untyped object
  lib       dst = libcall(.., src, ..)  (info = (name, argpos))
  user      dst = usercallback(.., src, ..) (info = (role, argpos))
  sel       dst is one of several operands (max/min/IfExp/BoolOp)
  default   parameter default value
"""
import ast

from .loader import AnalysisError, ekey
from .resolve import bind_call, _ModuleCtx
from .cfg import cfg_of
from .norm import const_value

TRANSPARENT_METHODS = {"copy", "astype", "reshape", "flatten", "ravel", "tolist", "squeeze", "view", "item"}
TRANSPARENT_LIB = {"numpy.array", "numpy.asarray", "numpy.copy", "numpy.asfarray", "numpy.ascontiguousarray",
                   "numpy.atleast_1d", "numpy.float64", "numpy.int64"}
TRANSPARENT_BUILTIN = {"int", "float", "list", "tuple", "bool"}
SELECT_BUILTIN = {"max", "min"}
ALLOC_LIB = {"numpy.zeros", "numpy.ones", "numpy.empty", "numpy.eye", "numpy.zeros_like", "numpy.ones_like", "numpy.full"}


class VFG(object):
    def __init__(self, eng):
        self.eng = eng
        self.prog = eng.prog
        self.res = eng.res
        self.preds = {}
        self.succs = None
        self.info = {}         # ('e', id) -> (fi, node)
        self.user_calls = []   # (fi, call node, role)
        self._build()

    # ------------------------------------------------------------------ construction
    def _edge(self, dst, src, kind, info=None):
        self.preds.setdefault(dst, []).append((src, kind, info))
        self.preds.setdefault(src, [])

    def E(self, fi, node):
        key = ("e", id(node))
        if key not in self.info:
            self.info[key] = (fi, node)
        return key

    def _build(self):
        for fi in self.prog.functions.values():
            self._build_function(fi)
        for mi in self.prog.modules.values():
            ctx = _ModuleCtx(mi.name)
            for name, val in mi.globals.items():
                self._edge(("g", mi.name, name), self.E(None, val), "copy")
                self.info[("e", id(val))] = (None, val)

    def _build_function(self, fi):
        cfg = cfg_of(fi)
        IN = cfg.reaching_defs()
        self._cur = (fi, cfg, IN)
        reach = cfg.reachable()
        for n, d in cfg.g.nodes(data=True):
            kind, node = d["kind"], d["ast"]
            if kind == "entry":
                continue
            if node is None:
                continue
            if kind == "cond" or kind == "foriter":
                self._expr(fi, cfg, n, node)
            elif kind == "for":
                # target defined from the iterable
                it = cfg.stmt_of(n).iter
                self._define(fi, cfg, n, node, self.E(fi, it), "iter", None)
            elif kind == "handler":
                pass
            elif kind == "stmt":
                self._stmt(fi, cfg, n, node)
        if fi.is_lambda:
            pass

    # --- statements
    def _stmt(self, fi, cfg, n, st):
        if isinstance(st, ast.Assign):
            v = self._expr(fi, cfg, n, st.value)
            for t in st.targets:
                self._define(fi, cfg, n, t, v, "copy", None)
        elif isinstance(st, ast.AnnAssign):
            if st.value is not None:
                v = self._expr(fi, cfg, n, st.value)
                self._define(fi, cfg, n, st.target, v, "copy", None)
        elif isinstance(st, ast.AugAssign):
            v = self._expr(fi, cfg, n, st.value)
            c = const_value(st.value)
            is_incr = isinstance(st.op, (ast.Add, ast.Sub)) and isinstance(c, int)
            kind = "incr" if is_incr else "arith"
            t = st.target
            if isinstance(t, ast.Name):
                dkey = self._defkey(fi, cfg, n, t.id)
                for prev in self._name_sources(fi, cfg, n, t.id):
                    self._edge(dkey, prev, kind, type(st.op).__name__)
                if not is_incr:
                    self._edge(dkey, v, "arith", "rhs")
            elif isinstance(t, ast.Attribute):
                base_atoms = self.res.ev(fi, t.value)
                self._expr(fi, cfg, n, t.value)
                for a in base_atoms:
                    if a[0] == "C":
                        f = ("f", a[1], t.attr)
                        self._edge(f, f, kind, "aug")
                        if not is_incr:
                            self._edge(f, v, "arith", "rhs")
            elif isinstance(t, ast.Subscript):
                # x[i] += v : container keeps its identity, receives an arithmetic contribution
                cont = self._store_container(fi, cfg, n, t.value)
                self._expr(fi, cfg, n, t.slice)
                for ck in cont:
                    self._edge(ck, v, "elem", "aug-" + kind)
        elif isinstance(st, ast.Return):
            if st.value is not None:
                v = self._expr(fi, cfg, n, st.value)
                self._edge(("r", fi.fid), v, "copy", ("return", n))
        elif isinstance(st, ast.Expr):
            self._expr(fi, cfg, n, st.value)
        elif isinstance(st, (ast.Assert,)):
            self._expr(fi, cfg, n, st.test)
        elif isinstance(st, ast.Raise):
            if st.exc is not None:
                self._expr(fi, cfg, n, st.exc)
        elif isinstance(st, ast.FunctionDef):
            for dflt in st.args.defaults + [k for k in st.args.kw_defaults if k is not None]:
                self._expr(fi, cfg, n, dflt)
        elif isinstance(st, ast.Delete):
            pass
        elif isinstance(st, ast.With):
            for item in st.items:
                self._expr(fi, cfg, n, item.context_expr)

    def _defkey(self, fi, cfg, n, var):
        sc = self.res.scope_of(fi, var) or fi
        return ("d", sc.fid, var, n if sc is fi else ("outer", fi.fid, n))

    def _store_container(self, fi, cfg, n, value):
        """Keys of the container object(s) denoted by `value` in a store x[..] = v / x.append(v)."""
        out = []
        if isinstance(value, ast.Name):
            dkey = self._defkey(fi, cfg, n, value.id)
            for prev in self._name_sources(fi, cfg, n, value.id):
                self._edge(dkey, prev, "copy", "weak-update")
            out.append(dkey)
        elif isinstance(value, ast.Attribute):
            self._expr(fi, cfg, n, value.value)
            for a in self.res.ev(fi, value.value):
                if a[0] == "C":
                    out.append(("f", a[1], value.attr))
        elif isinstance(value, ast.Subscript):
            out += self._store_container(fi, cfg, n, value.value)
            self._expr(fi, cfg, n, value.slice)
        return out

    def _define(self, fi, cfg, n, target, vkey, kind, info):
        if isinstance(target, ast.Name):
            self._edge(self._defkey(fi, cfg, n, target.id), vkey, kind, info)
        elif isinstance(target, (ast.Tuple, ast.List)):
            for i, t in enumerate(target.elts):
                if isinstance(t, ast.Starred):
                    self._define(fi, cfg, n, t.value, vkey, "index", None)
                else:
                    mid = ("e", id(t))
                    self.info[mid] = (fi, t)
                    self._edge(mid, vkey, "proj" if kind == "copy" else kind, i if kind == "copy" else info)
                    self._define(fi, cfg, n, t, mid, "copy", None)
        elif isinstance(target, ast.Attribute):
            self._expr(fi, cfg, n, target.value)
            for a in self.res.ev(fi, target.value):
                if a[0] == "C":
                    self._edge(("f", a[1], target.attr), vkey, kind, ("store", fi.fid, n))
        elif isinstance(target, ast.Subscript):
            self._expr(fi, cfg, n, target.slice)
            for ck in self._store_container(fi, cfg, n, target.value):
                self._edge(ck, vkey, "elem", ("store", fi.fid, n))
        elif isinstance(target, ast.Starred):
            self._define(fi, cfg, n, target.value, vkey, kind, info)

    # --- names
    def _name_sources(self, fi, cfg, n, var):
        """Keys of the definitions of `var` that reach CFG node n (or all defs of an enclosing scope / the global)."""
        sc = self.res.scope_of(fi, var)
        if sc is fi:
            out = []
            for (v, d) in cfg.reaching_defs()[n]:
                if v != var:
                    continue
                if d == cfg.entry:
                    out.append(("p", fi.fid, var))
                else:
                    out.append(("d", fi.fid, var, d))
            return out
        if sc is not None:
            # closure variable: all definitions in the enclosing function (flow-insensitive)
            ocfg = cfg_of(sc)
            out = []
            for on in ocfg.g.nodes:
                strong, weak = ocfg.defs_of(on)
                if var in strong or var in weak:
                    out.append(("p", sc.fid, var) if on == ocfg.entry else ("d", sc.fid, var, on))
            for ch in sc.children:
                if not ch.is_lambda and ch.node.name == var:
                    out.append(("fn", ch.fid))
            return out
        r = self.res.module_symbol(fi.module, var)
        if r is None:
            return []
        if r[0] == "glob":
            return [("g", r[1], r[2])]
        if r[0] == "fn":
            return [("fn", r[1].fid)]
        if r[0] == "cls":
            return [("cls", r[1].name)]
        return []

    # --- expressions
    def _expr(self, fi, cfg, n, node):
        key = self.E(fi, node)
        self.preds.setdefault(key, [])
        if isinstance(node, ast.Name):
            for s in self._name_sources(fi, cfg, n, node.id):
                self._edge(key, s, "copy", "use")
        elif isinstance(node, ast.Constant):
            pass
        elif isinstance(node, ast.Attribute):
            b = self._expr(fi, cfg, n, node.value)
            typed = False
            for a in self.res.ev(fi, node.value):
                if a[0] == "C":
                    ci = self.prog.classes.get(a[1])
                    if ci is not None and node.attr in ci.methods and (a[1], node.attr) not in self.res.stored_fields:
                        continue
                    self._edge(key, ("f", a[1], node.attr), "copy", "load")
                    typed = True
            if not typed:
                self._edge(key, b, "attr", node.attr)
        elif isinstance(node, ast.Subscript):
            b = self._expr(fi, cfg, n, node.value)
            self._expr(fi, cfg, n, node.slice)
            c = const_value(node.slice)
            if isinstance(c, int):
                self._edge(key, b, "proj", c)
            else:
                self._edge(key, b, "index", None)
        elif isinstance(node, ast.Slice):
            for sub in (node.lower, node.upper, node.step):
                if sub is not None:
                    self._expr(fi, cfg, n, sub)
        elif isinstance(node, ast.Tuple):
            for i, e in enumerate(node.elts):
                self._edge(key, self._expr(fi, cfg, n, e), "tup", i)
        elif isinstance(node, (ast.List, ast.Set)):
            for e in node.elts:
                self._edge(key, self._expr(fi, cfg, n, e), "elem", "literal")
        elif isinstance(node, ast.Dict):
            for k, v in zip(node.keys, node.values):
                if k is not None:
                    self._expr(fi, cfg, n, k)
                self._edge(key, self._expr(fi, cfg, n, v), "elem", "literal")
        elif isinstance(node, ast.BinOp) and isinstance(node.op, ast.Add) and isinstance(node.right, ast.Tuple) and isinstance(node.left, ast.Call) \
                and self._returned_arity(node.left) is not None:
            # tuple concatenation  f(..) + (a, b):  positions 0..k-1 are the positions of f's result, k.. the literal elements
            k = self._returned_arity(node.left)
            l = self._expr(fi, cfg, n, node.left)
            for i in range(k):
                mid = ("cat", id(node), i)
                self.preds.setdefault(mid, [])
                self.info[mid] = (fi, node)
                self._edge(mid, l, "proj", i)
                self._edge(key, mid, "tup", i)
            for j, e in enumerate(node.right.elts):
                self._edge(key, self._expr(fi, cfg, n, e), "tup", k + j)
        elif isinstance(node, ast.BinOp):
            l = self._expr(fi, cfg, n, node.left)
            r = self._expr(fi, cfg, n, node.right)
            cl, cr = const_value(node.left), const_value(node.right)
            if isinstance(node.op, (ast.Add, ast.Sub)) and isinstance(cr, int) and not isinstance(cr, bool):
                self._edge(key, l, "incr", cr if isinstance(node.op, ast.Add) else -cr)
            elif isinstance(node.op, ast.Add) and isinstance(cl, int):
                self._edge(key, r, "incr", cl)
            elif isinstance(node.op, ast.Mod) and isinstance(node.left, ast.Constant) and isinstance(node.left.value, str):
                self._edge(key, r, "lib", ("%", 1))
            else:
                self._edge(key, l, "arith", ("l", type(node.op).__name__))
                self._edge(key, r, "arith", ("r", type(node.op).__name__))
        elif isinstance(node, ast.UnaryOp):
            self._edge(key, self._expr(fi, cfg, n, node.operand), "arith", ("u", type(node.op).__name__))
        elif isinstance(node, ast.BoolOp):
            for v in node.values:
                self._edge(key, self._expr(fi, cfg, n, v), "sel", "boolop")
        elif isinstance(node, ast.IfExp):
            self._expr(fi, cfg, n, node.test)
            self._edge(key, self._expr(fi, cfg, n, node.body), "sel", "ifexp")
            self._edge(key, self._expr(fi, cfg, n, node.orelse), "sel", "ifexp")
        elif isinstance(node, ast.Compare):
            self._expr(fi, cfg, n, node.left)
            for c in node.comparators:
                self._expr(fi, cfg, n, c)
        elif isinstance(node, ast.Call):
            self._call(fi, cfg, n, node, key)
        elif isinstance(node, ast.Starred):
            self._edge(key, self._expr(fi, cfg, n, node.value), "copy", "star")
        elif isinstance(node, ast.Lambda):
            lf = self.res.lambda_fi[id(node)]
            self._edge(key, ("fn", lf.fid), "copy", "lambda")
            for dflt in node.args.defaults:
                self._expr(fi, cfg, n, dflt)
        elif isinstance(node, (ast.ListComp, ast.SetComp, ast.GeneratorExp, ast.DictComp)):
            # comprehension: element expressions flow in as elements; generators' iterables as 'iter'
            for gen in node.generators:
                self._edge(key, self._expr(fi, cfg, n, gen.iter), "iter", "comp")
        elif isinstance(node, ast.JoinedStr):
            for v in node.values:
                if isinstance(v, ast.FormattedValue):
                    self._edge(key, self._expr(fi, cfg, n, v.value), "lib", ("fstring", 0))
        elif isinstance(node, ast.NamedExpr):
            v = self._expr(fi, cfg, n, node.value)
            self._edge(key, v, "copy", "walrus")
            self._define(fi, cfg, n, node.target, v, "copy", None)
        return key

    def _returned_arity(self, call):
        """k if the call resolves to internal functions every tuple-return of which has k elements (and that return nothing else), else None"""
        ci = self.res.calls.get(id(call))
        if ci is None or not ci.targets:
            return None
        ks = set()
        for t in ci.targets:
            for r in self.prog.own_nodes(t):
                if isinstance(r, ast.Return):
                    if isinstance(r.value, ast.Tuple):
                        ks.add(len(r.value.elts))
                    else:
                        return None
        return ks.pop() if len(ks) == 1 else None

    def _call(self, fi, cfg, n, node, key):
        ci = self.res.calls.get(id(node))
        if ci is None:
            raise AnalysisError("call %s not classified" % ekey(node)[:50])
        # evaluate sub-expressions
        argkeys = []
        for a in node.args:
            argkeys.append(self._expr(fi, cfg, n, a))
        kwkeys = {}
        for kw in node.keywords:
            kwkeys[kw.arg] = self._expr(fi, cfg, n, kw.value)
        fkey = None
        if isinstance(node.func, ast.Attribute):
            rkey = self._expr(fi, cfg, n, node.func.value)
        else:
            rkey = None
            fkey = self._expr(fi, cfg, n, node.func)
        handled = False
        if ci.targets:
            handled = True
            for (t, bound) in self.res.call_targets(fi, node):
                is_bound = bound and t.is_method
                if ci.kind == "CTOR" or (t.qualname.endswith(".__init__") and bound):
                    self._edge(key, ("new", t.cls), "copy", ("ctor", id(node)))
                else:
                    self._edge(key, ("r", t.fid), "copy", ("call", id(node)))
                b = bind_call(node, t, is_bound)
                if is_bound and rkey is not None and t.posparams:
                    self._edge(("p", t.fid, t.posparams[0]), rkey, "copy", ("recv", id(node)))
                for p, e in b.params.items():
                    if isinstance(e, tuple):
                        dk = ("e", id(e[1]))
                        if dk not in self.info:
                            self.info[dk] = (t.parent, e[1])
                            self.preds.setdefault(dk, [])
                            self._default_expr(t, e[1])
                        self._edge(("p", t.fid, p), dk, "default", ("call", id(node)))
                    else:
                        self._edge(("p", t.fid, p), ("e", id(e)), "copy", ("arg", id(node)))
                if b.star is not None:
                    sk = ("e", id(b.star))
                    for p in b.star_params:
                        self._edge(("p", t.fid, p), sk, "index", ("stararg", id(node)))
                    if b.star_to_vararg:
                        self._edge(("p", t.fid, t.vararg), sk, "copy", ("stararg", id(node)))
                for e in b.vararg_exprs:
                    self._edge(("p", t.fid, t.vararg), ("e", id(e)), "elem", ("arg", id(node)))
        if ci.role is not None:
            handled = True
            self.user_calls.append((fi, node, ci.role))
            for i, ak in enumerate(argkeys):
                self._edge(key, ak, "user", (ci.role, i))
            for k, ak in kwkeys.items():
                self._edge(key, ak, "user", (ci.role, k))
        if handled:
            return
        name = ci.libname or "?"
        if ci.kind == "METHOD":
            if name in TRANSPARENT_METHODS:
                self._edge(key, rkey, "copy", "via ." + name + "()")
            elif name in ("append", "insert", "extend", "add", "update", "fill"):
                # mutation of the receiver: value(s) become elements of the receiver container
                cont = self._store_container(fi, cfg, n, node.func.value)
                for ak in argkeys[-1:]:
                    for ck in cont:
                        self._edge(ck, ak, "elem" if name != "extend" else "copy", ("method", name))
            elif name in ("items", "values", "keys", "get", "pop", "T", "dot", "transpose"):
                self._edge(key, rkey, "index" if name in ("items", "values", "get", "pop") else "lib", (name, "recv"))
                for i, ak in enumerate(argkeys):
                    self._edge(key, ak, "lib", (name, i))
            else:
                if rkey is not None:
                    self._edge(key, rkey, "lib", (name, "recv"))
                for i, ak in enumerate(argkeys):
                    self._edge(key, ak, "lib", (name, i))
                for k, ak in kwkeys.items():
                    self._edge(key, ak, "lib", (name, k))
            return
        if (ci.kind == "LIB" and name in TRANSPARENT_LIB) or (ci.kind == "BUILTIN" and name in TRANSPARENT_BUILTIN):
            if argkeys:
                self._edge(key, argkeys[0], "copy", "via " + name)
            for k, ak in kwkeys.items():
                self._edge(key, ak, "lib", (name, k))
            return
        if ci.kind == "BUILTIN" and name in SELECT_BUILTIN:
            for ak in argkeys:
                self._edge(key, ak, "sel", name)
            return
        if ci.kind == "LIB" and name == "numpy.append":
            if argkeys:
                self._edge(key, argkeys[0], "copy", "via numpy.append")
            for ak in argkeys[1:2]:
                self._edge(key, ak, "elem", "numpy.append")
            return
        if ci.kind == "LIB" and name == "numpy.insert":
            # np.insert(A, position, value[, axis]): a copy of A with one more entry; the position is an index, not a value that flows into the result
            if argkeys:
                self._edge(key, argkeys[0], "copy", "via numpy.insert")
            for ak in argkeys[2:3]:
                self._edge(key, ak, "elem", "numpy.insert")
            return
        for i, ak in enumerate(argkeys):
            self._edge(key, ak, "lib", (name, i))
        for k, ak in kwkeys.items():
            self._edge(key, ak, "lib", (name, k))
        if rkey is not None and ci.kind != "LIB":
            self._edge(key, rkey, "lib", (name, "recv"))

    def _default_expr(self, t, node):
        """Default-value expressions are evaluated where the function is defined (constants in this package)."""
        key = ("e", id(node))
        if isinstance(node, ast.Name):
            owner = t.parent
            if owner is None:
                r = self.res.module_symbol(t.module, node.id)
                if r and r[0] == "glob":
                    self._edge(key, ("g", r[1], r[2]), "copy", "use")
        return key

    # ------------------------------------------------------------------ queries
    def key_of(self, node):
        key = ("e", id(node))
        if key not in self.preds:
            raise AnalysisError("expression %s is not in the value-flow graph" % ekey(node)[:60])
        return key

    def describe(self, key):
        k = key[0]
        if k == "e":
            fi, node = self.info.get(key, (None, None))
            loc = ""
            if node is not None:
                st = self.prog.stmt_of(node) if fi is not None else None
                line = getattr(node, "lineno", None) or (getattr(st, "lineno", None) if st is not None else None)
                loc = "%s:%s" % (fi.fid if fi is not None else "<module>", line)
                return "%s  `%s`" % (loc, ekey(node)[:70].replace("\n", " "))
            return "expr?"
        if k == "d":
            fid, var, n = key[1], key[2], key[3]
            fi = self.prog.functions.get(fid)
            txt = ""
            if fi is not None and isinstance(n, int):
                txt = cfg_of(fi).describe(n)
            return "%s: def %s @ %s" % (fid, var, txt)
        if k == "p":
            return "%s: parameter %s" % (key[1], key[2])
        if k == "r":
            return "%s: return value" % key[1]
        if k == "f":
            return "field %s.%s" % (key[1], key[2])
        if k == "g":
            return "global %s.%s" % (key[1], key[2])
        return str(key)

    def node_expr(self, key):
        if key[0] == "e":
            return self.info.get(key, (None, None))
        return (None, None)

    def back(self, starts, follow, stop=None, max_stack=4, limit=400000, context=True, max_calls=3):
        """Backward reachability with tuple-position matching and (optionally) call/return matching.

        follow(src, kind, info, dst) -> True/False : may the walk cross this edge.
        stop(node) -> True : do not expand predecessors of node (it is recorded as a boundary).
        context=True: a walk that entered a callee through the return edge of call site c may leave it through the
        parameter edges of c only (call-string of depth max_calls; deeper entries fall back to context-insensitive).
        Returns Walk with .parent {(node, projection stack, call stack)}, .nodes, .plain, .leaves, .boundary."""
        from collections import deque
        w = Walk(self)
        dq = deque()
        for s in starts:
            st = (s, (), ())
            if st not in w.parent:
                w.parent[st] = None
                dq.append(st)
        count = 0
        while dq:
            cur = dq.popleft()
            node, stack, calls = cur
            count += 1
            if count > limit:
                raise AnalysisError("value-flow walk exceeded %d states" % limit)
            w.nodes.add(node)
            if not stack:
                w.plain.add(node)
            if stop is not None and not stack and stop(node):
                w.boundary.add(node)
                continue
            expanded = False
            if node[0] in ("f", "g"):
                calls = ()        # heap / global storage is not call-stack disciplined: forget the call string
            for (src, kind, info) in self.preds.get(node, ()):
                nstack = stack
                ncalls = calls
                k2 = kind
                if kind == "proj":
                    if len(stack) >= max_stack:
                        continue
                    nstack = stack + (info,)
                elif kind == "tup":
                    if stack:
                        if stack[-1] != info and stack[-1] is not None:
                            continue
                        nstack = stack[:-1]
                    else:
                        k2 = "elem"     # whole tuple wanted: its elements are parts of it
                if not follow(src, k2, info, node):
                    continue
                if context and isinstance(info, tuple) and len(info) == 2:
                    tag, site = info
                    if tag == "call" and node[0] == "e" and src[0] == "r":
                        # entering the callee through its return value
                        ncalls = (calls + (site,)) if len(calls) < max_calls else calls + ("*",)
                        if len(ncalls) > max_calls + 1:
                            ncalls = ncalls[-(max_calls + 1):]
                    elif tag in ("arg", "recv", "stararg", "call") and node[0] == "p":
                        # leaving a function through a parameter towards a call site
                        if calls:
                            top = calls[-1]
                            if top != "*" and top != site:
                                continue
                            ncalls = calls[:-1]
                expanded = True
                nxt = (src, nstack, ncalls)
                if nxt not in w.parent:
                    w.parent[nxt] = (cur, kind, info)
                    dq.append(nxt)
            if expanded:
                w.expanded.add(node)
            else:
                w.leaf_states.add(cur)
        w.leaves = set(n for n in w.nodes if n not in w.expanded and n not in w.boundary)
        return w


class Walk(object):
    def __init__(self, vfg):
        self.vfg = vfg
        self.parent = {}
        self.nodes = set()
        self.leaves = set()
        self.leaf_states = set()
        self.boundary = set()
        self.plain = set()     # nodes visited with an empty projection stack (the value itself, not a part of it)
        self.expanded = set()  # nodes with at least one followed predecessor in some state

    def path(self, node):
        """Hop chain (strings) from a start to node (first matching state)."""
        st = None
        for s in self.parent:
            if s[0] == node:
                st = s
                break
        out = []
        while st is not None:
            p = self.parent[st]
            if p is None:
                out.append(self.vfg.describe(st[0]))
                break
            out.append("%s   <-[%s%s]-" % (self.vfg.describe(st[0]), p[1], "" if p[2] is None or isinstance(p[2], tuple) else ":" + str(p[2])[:30]))
            st = p[0]
        return out[::-1]
