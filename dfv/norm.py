"""Normalisation of atomic conditions and small expression helpers."""
import ast

from .loader import ekey

NEG = {"lt": "ge", "le": "gt", "gt": "le", "ge": "lt", "eq": "ne", "ne": "eq", "is": "isnot", "isnot": "is",
       "in": "notin", "notin": "in", "truth": "false", "false": "truth"}
OPS = {ast.Lt: "lt", ast.LtE: "le", ast.Gt: "gt", ast.GtE: "ge", ast.Eq: "eq", ast.NotEq: "ne",
       ast.Is: "is", ast.IsNot: "isnot", ast.In: "in", ast.NotIn: "notin"}


class Atom(object):
    """Canonical atomic condition: op in {lt, le, eq, ne, is, isnot, in, notin, truth, false}; lhs/rhs AST nodes.
    (gt/ge are rewritten to lt/le with swapped operands.  Negation assumes a total order -- callers that care
    about NaN use orderdom instead.)"""
    __slots__ = ("op", "lhs", "rhs")

    def __init__(self, op, lhs, rhs=None):
        if op == "gt":
            op, lhs, rhs = "lt", rhs, lhs
        elif op == "ge":
            op, lhs, rhs = "le", rhs, lhs
        self.op, self.lhs, self.rhs = op, lhs, rhs

    def key(self):
        l, r = ekey(self.lhs), ekey(self.rhs) if self.rhs is not None else ""
        if self.op in ("eq", "ne") and r < l:
            l, r = r, l
        return (self.op, l, r)

    def __repr__(self):
        sym = {"lt": "<", "le": "<=", "eq": "==", "ne": "!=", "is": "is", "isnot": "is not", "in": "in",
               "notin": "not in"}
        if self.op == "truth":
            return ekey(self.lhs)
        if self.op == "false":
            return "not (%s)" % ekey(self.lhs)
        return "%s %s %s" % (ekey(self.lhs), sym[self.op], ekey(self.rhs))


def atom_of(test, truth=True):
    """Atomic test expression + outcome -> Atom (single two-operand comparisons; everything else is truth/false)."""
    neg = not truth
    while isinstance(test, ast.UnaryOp) and isinstance(test.op, ast.Not):
        test = test.operand
        neg = not neg
    if isinstance(test, ast.Compare) and len(test.ops) == 1:
        op = OPS[type(test.ops[0])]
        if neg:
            op = NEG[op]
        return Atom(op, test.left, test.comparators[0])
    return Atom("false" if neg else "truth", test)


def const_value(node):
    """Numeric value of a literal (incl. unary minus), else None."""
    if isinstance(node, ast.Constant) and isinstance(node.value, (int, float)) and not isinstance(node.value, bool):
        return node.value
    if isinstance(node, ast.UnaryOp) and isinstance(node.op, ast.USub):
        v = const_value(node.operand)
        return -v if v is not None else None
    if isinstance(node, ast.UnaryOp) and isinstance(node.op, ast.UAdd):
        return const_value(node.operand)
    return None


def is_none(node):
    return isinstance(node, ast.Constant) and node.value is None


def strip_calls(node, names=("copy",)):
    """x.copy() -> x (used where a copy is value-preserving)."""
    while isinstance(node, ast.Call) and isinstance(node.func, ast.Attribute) and node.func.attr in names and not node.args:
        node = node.func.value
    return node


def root_name(node):
    while isinstance(node, (ast.Attribute, ast.Subscript, ast.Call, ast.Starred)):
        node = node.func if isinstance(node, ast.Call) else node.value
    return node.id if isinstance(node, ast.Name) else None


def attr_chain(node):
    """self.model.kopt -> ['self','model','kopt'] ; None if not a pure Name/Attribute chain."""
    parts = []
    while isinstance(node, ast.Attribute):
        parts.append(node.attr)
        node = node.value
    if isinstance(node, ast.Name):
        parts.append(node.id)
        return parts[::-1]
    return None
