"""T14 -- reflection equivariance of mirrored blocks (sibling cross-check for lower/upper bound handling).

Box-constrained code handles the lower and the upper bound in twin blocks.  Under the reflection x -> -x (positions, steps and
gradients change sign, the lower bound becomes minus the upper bound, side indicators flip) the lower-side statements of a
function must turn *exactly* into its upper-side statements.  The check translates the statements of a function to sympy
expressions (computer algebra used as a normaliser of expressions; nothing of dfols is executed), applies the reflection to
the lower-side ones and compares the two multisets of canonical forms.

Which functions are mirrored, and how their names transform, is a frozen table confirmed by reading (`MIRRORED`).  A lower-side
statement without an upper-side twin is reported together with the nearest candidate.
"""
import ast

import sympy as sp

from .loader import AnalysisError, ekey
from .norm import const_value


class Spec(object):
    def __init__(self, fid, neg, swap, sswap=(), flip=(), ignore=(), reason="", only=()):
        self.only = only if callable(only) else tuple(only)       # if given: substrings of the statement text, or a predicate over the statement's AST
        self.fid = fid
        self.neg = set(neg)            # position-like names: v -> -v
        self.swap = dict(swap)         # lower-bound-like name -> upper-bound-like name (lo -> -up, up -> -lo)
        self.sswap = dict(sswap)       # scalars / masks that trade places without sign (tempa <-> tempb, idx_l <-> idx_u)
        self.flip = set(flip)          # boolean indicators: b -> not b
        self.ignore = set(ignore)      # normalised statement texts that are deliberately one-sided
        self.reason = reason


MIRRORED = [
    Spec("trust_region.alt_trust_step", neg=["xopt", "d", "s", "xbdi", "xsav"], swap={"sl": "su"}, sswap={"tempa": "tempb"},
         reason="Powell's TRSBOX, label 120: the bound on the rotation angle is computed for the lower and the upper bound of each free variable"),
    Spec("trust_region.trsbox", neg=["xopt", "d", "s", "g", "xbdi"], swap={"sl": "su"},
         reason="initial active set: variables at a bound with the gradient pointing outwards are fixed, for both bounds"),
    Spec("trust_region.d_within_bounds", neg=["xopt", "d", "xnew", "xbdi"], swap={"sl": "su"},
         reason="fixed variables are pinned to the lower / upper bound"),
    Spec("trust_region.trsbox_linear", neg=["xnew", "x", "dirn", "g"], swap={"a": "b", "a_in": "b_in"}, flip=["hit_upper"],
         reason="the active-set loop stops at whichever face of the box is hit"),
    Spec("util.get_scale", neg=["dirn"], swap={"lower": "upper"},
         reason="largest multiple of a direction that stays inside the box, for negative and positive components"),
    Spec("util.random_directions_within_bounds", neg=["dirn"], swap={"lower": "upper"}, sswap={"idx_l": "idx_u"},
         ignore=["sign = 1.0 if idx_l[idx] else -1.0"],     # one-sided by design: an active index is either on the lower or on the upper bound
         reason="active lower / upper bounds are detected and asserted symmetrically"),
    Spec("util.random_orthog_directions_within_bounds", neg=["dirn"], swap={"lower": "upper"}, sswap={"idx_l": "idx_u"},
         ignore=["sign = 1.0 if idx_l[idx] else -1.0", "results[idx, ninactive + i] = 1.0 if idx_l[idx] else -1.0"],     # one-sided by design (see above)
         reason="active lower / upper bounds are detected and asserted symmetrically"),
    Spec("controller.Controller.initialise_coordinate_directions", neg=["stepb"], swap={"sl": "su"}, sswap={"at_lower_boundary": "at_upper_boundary"},
         ignore=["stepa = self.delta if not at_upper_boundary[dirn] else -self.delta"],     # first step: +delta unless at the upper bound (one-sided by design)
         reason="second coordinate step: towards the interior when x0 sits on the lower / upper bound"),
    Spec("controller.Controller.done_with_current_rho", neg=["xnew", "gnew"], swap={"sl": "su"},
         reason="bound test of the reduction criterion for a variable on its lower / upper bound"),
    Spec("solver.solve", neg=["x0"], swap={"xl": "xu"}, only=lambda node: _solve_x0_stanza(node),
         reason="x0 is pushed onto the lower / upper bound; missing bounds default to -/+1e20"),
]


# ---------------------------------------------------------------------------------------------- AST -> sympy
class _Tr(object):
    def __init__(self, spec):
        self.spec = spec
        self.syms = {}

    def sym(self, name):
        if name not in self.syms:
            self.syms[name] = sp.Symbol(name, real=True)
        return self.syms[name]

    def base_name(self, node):
        """v, v[i], self.model.v[k], self.v  ->  'v'"""
        while isinstance(node, ast.Subscript):
            node = node.value
        if isinstance(node, ast.Attribute):
            return node.attr
        if isinstance(node, ast.Name):
            return node.id
        return None

    def ex(self, node):
        if isinstance(node, ast.Constant):
            if isinstance(node.value, bool):
                return sp.true if node.value else sp.false
            if isinstance(node.value, (int, float)):
                return sp.nsimplify(node.value) if abs(node.value) < 1e6 and float(node.value).is_integer() else sp.Float(node.value)
            if node.value is None:
                return self.sym("None")
            return self.sym("const_%d" % (abs(hash(node.value)) % 10 ** 6))
        if isinstance(node, (ast.Name, ast.Attribute, ast.Subscript)):
            b = self.base_name(node)
            if b is None:
                return self.sym("opaque_%d" % (abs(hash(ekey(node))) % 10 ** 8))
            return self.sym(b)
        if isinstance(node, ast.UnaryOp):
            v = self.ex(node.operand)
            if isinstance(node.op, ast.USub):
                return -v
            if isinstance(node.op, ast.Not):
                return sp.Function("NOT")(v)
            return v
        if isinstance(node, ast.BinOp):
            l, r = self.ex(node.left), self.ex(node.right)
            if isinstance(node.op, ast.Add):
                return l + r
            if isinstance(node.op, ast.Sub):
                return l - r
            if isinstance(node.op, ast.Mult):
                return l * r
            if isinstance(node.op, ast.Div):
                return l / r
            if isinstance(node.op, ast.Pow):
                return l ** r
            if isinstance(node.op, ast.BitAnd):
                return sp.Function("AND")(l, r)
            if isinstance(node.op, ast.BitOr):
                return sp.Function("OR")(l, r)
            return sp.Function(type(node.op).__name__)(l, r)
        if isinstance(node, ast.BoolOp):
            vals = [self.ex(v) for v in node.values]
            return sp.Function("AND" if isinstance(node.op, ast.And) else "OR")(*vals)
        if isinstance(node, ast.Compare) and len(node.ops) == 1:
            l, r = self.ex(node.left), self.ex(node.comparators[0])
            op = node.ops[0]
            if getattr(l, "is_Boolean", False) or getattr(r, "is_Boolean", False):
                return sp.Function("cmp_%s" % type(op).__name__)(l, r)
            rel = {ast.Lt: sp.Lt, ast.LtE: sp.Le, ast.Gt: sp.Gt, ast.GtE: sp.Ge, ast.Eq: sp.Eq, ast.NotEq: sp.Ne}.get(type(op))
            if rel is None:
                return sp.Function("cmp_%s" % type(op).__name__)(l, r)
            return rel(l, r, evaluate=False)
        if isinstance(node, ast.IfExp):
            return sp.Function("ifexp")(self.ex(node.test), self.ex(node.body), self.ex(node.orelse))
        if isinstance(node, ast.Call):
            name = ekey(node.func).split(".")[-1]
            args = [self.ex(a) for a in node.args]
            if name in ("min", "minimum") and len(args) == 2:
                return sp.Min(*args)
            if name in ("max", "maximum") and len(args) == 2:
                return sp.Max(*args)
            if name in ("max", "amax") and len(args) == 1:
                return sp.Function("VMAX")(args[0])
            if name in ("min", "amin") and len(args) == 1:
                return sp.Function("VMIN")(args[0])
            if name == "sqrt" and len(args) == 1:
                return sp.sqrt(args[0])
            if name == "abs" and len(args) == 1:
                return sp.Abs(args[0])
            if name in ("ones", "zeros") :
                return sp.Integer(1) if name == "ones" else sp.Integer(0)
            return sp.Function(name)(*args)
        if isinstance(node, ast.Tuple):
            return sp.Function("tuple")(*[self.ex(e) for e in node.elts])
        return self.sym("opaque_%d" % (abs(hash(ekey(node))) % 10 ** 8))

    def boolean(self, v):
        if v.is_Boolean or isinstance(v, sp.logic.boolalg.Boolean):
            return v
        return sp.Function("truth")(v)

    # ---- reflection
    def reflect(self, e):
        sub = {}
        sp_ = self.spec
        for n in sp_.neg:
            sub[self.sym(n)] = -self.sym(n)
        for lo, up in sp_.swap.items():
            sub[self.sym(lo)] = -self.sym(up)
            sub[self.sym(up)] = -self.sym(lo)
        for a, b in sp_.sswap.items():
            sub[self.sym(a)] = self.sym(b)
            sub[self.sym(b)] = self.sym(a)
        out = e.xreplace(sub)
        for f in sp_.flip:
            out = out.xreplace({self.sym(f): sp.Function("NOT")(self.sym(f))})
        return out


def canon(e):
    """Canonical form: Min rewritten to Max, reductions of negated vectors turned around (max(-v) = -min(v)), expanded; relations brought to
    `expr REL 0` with a fixed sign convention; conjunctions as sorted uninterpreted functions."""
    if e is None:
        return None
    if isinstance(e, sp.core.relational.Relational):
        d = _deep(e.lhs - e.rhs)
        op = type(e).__name__
        flipop = {"StrictLessThan": "StrictGreaterThan", "LessThan": "GreaterThan", "StrictGreaterThan": "StrictLessThan", "GreaterThan": "LessThan",
                  "Equality": "Equality", "Unequality": "Unequality"}
        if _negative_first(d):
            d = _deep(-d)
            op = flipop[op]
        return sp.Function("REL_" + op)(d)
    if isinstance(e, (sp.And, sp.Or, sp.Not)):
        args = sorted((canon(a) for a in e.args), key=sp.srepr)
        return sp.Function({"And": "AND", "Or": "OR", "Not": "NOT"}[type(e).__name__])(*args)
    if e == sp.true or e == sp.false:
        return e
    return _deep(e)


def _negative_first(d):
    """Deterministic sign convention: compare the printed forms of d and -d."""
    try:
        return sp.srepr(sp.expand(-d)) < sp.srepr(sp.expand(d))
    except Exception:
        return False


def _deep(e):
    if not isinstance(e, sp.Basic) or e.is_Atom:
        return e
    if isinstance(e, (sp.core.relational.Relational, sp.And, sp.Or, sp.Not)):
        return canon(e)
    args = [_deep(a) for a in e.args]
    try:
        e = e.func(*args)
    except Exception:
        return e
    if isinstance(e, sp.Min):
        e = -sp.Max(*[_deep(-a) for a in e.args])
    if isinstance(e, sp.core.function.AppliedUndef) and e.func.__name__ in ("AND", "OR", "logical_or", "logical_and"):
        return e.func(*sorted(e.args, key=sp.srepr))
    if isinstance(e, sp.core.function.AppliedUndef) and e.func.__name__ == "NOT" and len(e.args) == 1:
        a = e.args[0]
        if isinstance(a, sp.core.function.AppliedUndef) and a.func.__name__ == "NOT":
            return a.args[0]
        if a == sp.true:
            return sp.false
        if a == sp.false:
            return sp.true
        return e
    if isinstance(e, sp.core.function.AppliedUndef) and e.func.__name__ == "ifexp" and len(e.args) == 3:
        c, a, b = e.args
        if isinstance(c, sp.core.function.AppliedUndef) and c.func.__name__ == "NOT":
            c, a, b = c.args[0], b, a
        # orientation of a relational condition: always 'greater' (ties are measure-zero for the mirrored blocks: the code excludes them)
        if isinstance(c, sp.core.function.AppliedUndef) and c.func.__name__ in ("REL_StrictLessThan", "REL_LessThan"):
            c = sp.Function("REL_StrictGreaterThan")(*c.args)
            a, b = b, a
        elif isinstance(c, sp.core.function.AppliedUndef) and c.func.__name__ == "REL_GreaterThan":
            c = sp.Function("REL_StrictGreaterThan")(*c.args)
        # pull a common sign out of the arms
        try:
            if _negative_first(a) and _negative_first(b):
                return -e.func(c, sp.expand(-a), sp.expand(-b))
        except Exception:
            pass
        return e.func(c, a, b)
    if isinstance(e, sp.core.function.AppliedUndef) and e.func.__name__ in ("VMAX", "VMIN") and len(e.args) == 1:
        a = sp.expand(e.args[0])
        if _negative_first(a):
            other = "VMIN" if e.func.__name__ == "VMAX" else "VMAX"
            e = -sp.Function(other)(sp.expand(-a))
    try:
        return sp.expand(e)
    except Exception:
        return e


# ---------------------------------------------------------------------------------------------- statements of a function
class Stmt(object):
    def __init__(self, node, kind, target, value, text):
        self.node, self.kind, self.target, self.value, self.text = node, kind, target, value, text


def _derived_spec(fi, spec):
    """The table names the arrays; code may walk them through loop variables (`for j, dj in enumerate(dirn)`, `for lo, up in zip(lower, upper)`).
    Those names transform like the arrays they come from.  (Plain assignments are *not* treated as aliases: `bdtest = gnew[j]` is itself a mirrored statement.)"""
    import copy
    sp2 = copy.copy(spec)
    sp2.neg, sp2.swap = set(spec.neg), dict(spec.swap)
    inv = dict((v, k) for k, v in spec.swap.items())

    def base(node):
        while isinstance(node, ast.Subscript):
            node = node.value
        if isinstance(node, ast.Attribute):
            return node.attr
        if isinstance(node, ast.Name):
            return node.id
        return None

    def bind(tgt, src_base, pend):
        if not isinstance(tgt, ast.Name) or src_base is None:
            return
        if src_base in sp2.neg:
            sp2.neg.add(tgt.id)
        elif src_base in sp2.swap or src_base in inv:
            pend[src_base] = tgt.id

    for _round in range(2):
        for node in ast.walk(fi.node):
            pend = {}
            if isinstance(node, ast.For) and isinstance(node.iter, ast.Call):
                fn = ekey(node.iter.func).split(".")[-1]
                if fn == "enumerate" and node.iter.args and isinstance(node.target, ast.Tuple) and len(node.target.elts) == 2:
                    it = node.iter.args[0]
                    if isinstance(it, ast.Call) and ekey(it.func).split(".")[-1] == "zip" and isinstance(node.target.elts[1], ast.Tuple):
                        for t, a in zip(node.target.elts[1].elts, it.args):
                            bind(t, base(a), pend)
                    else:
                        bind(node.target.elts[1], base(it), pend)
                elif fn == "zip" and isinstance(node.target, ast.Tuple):
                    for t, a in zip(node.target.elts, node.iter.args):
                        bind(t, base(a), pend)
            elif isinstance(node, ast.For):
                bind(node.target, base(node.iter), pend)
            # a lower-like and an upper-like element bound in the same loop header trade places
            for lo, up in list(sp2.swap.items()):
                if lo in pend and up in pend:
                    sp2.swap[pend[lo]] = pend[up]
    return sp2


def collect(eng, fi, spec):
    """Side-sensitive statements of fi: simple statements and tests that mention a lower- or upper-side name, are side indicators, or inherit a
    side from the side-marked statement/test that precedes or encloses them -- and that are *not* invariant under the reflection."""
    spec = _derived_spec(fi, spec)
    tr = _Tr(spec)
    lower = set(spec.swap) | set(spec.sswap)
    upper = set(spec.swap.values()) | set(spec.sswap.values())
    items = []

    def mk(node):
        if isinstance(node, ast.Assign) and len(node.targets) == 1:
            t = node.targets[0]
            if isinstance(node.value, ast.Call) and ekey(node.value.func) in ("len", "np.shape", "np.size"):
                return None
            idx = None
            if isinstance(t, ast.Subscript) and not isinstance(t.slice, (ast.Name, ast.Constant, ast.Tuple, ast.Slice)):
                idx = tr.ex(t.slice)
            return Stmt(node, "assign", tr.base_name(t), (tr.ex(node.value), idx), ekey(node))
        if isinstance(node, ast.AugAssign):
            return Stmt(node, "aug_" + type(node.op).__name__, tr.base_name(node.target), (tr.ex(node.value), None), ekey(node))
        if isinstance(node, ast.Assert):
            return Stmt(node, "assert", None, tr.ex(node.test), ekey(node.test))
        if isinstance(node, ast.expr):
            return Stmt(node, "test", None, tr.ex(node), ekey(node))
        return None

    def own_side(node, st):
        names = _names(node, tr)
        inl, inu = bool(names & lower), bool(names & upper)
        if inl and not inu:
            return "L"
        if inu and not inl:
            return "U"
        if inl and inu:
            return "B"
        if st is not None and st.kind == "assign" and st.target in (spec.neg | spec.flip) and _is_indicator(st.node.value):
            v = const_value(st.node.value)
            neg = (v is not None and v < 0) or (isinstance(st.node.value, ast.Constant) and st.node.value.value is False)
            return "L" if neg else "U"
        return None

    def tests_of(test):
        if isinstance(test, ast.BoolOp):
            out = []
            for v in test.values:
                out += tests_of(v)
            return out
        return [test]

    def uses(node, var):
        return var is not None and any(isinstance(x, ast.Name) and x.id == var and isinstance(x.ctx, ast.Load) for x in ast.walk(node))

    enclosing = set()       # texts of the atomic tests of the enclosing `if`s

    def walk(stmts, side, carry=None):
        """side: inherited from an enclosing side-marked test.  carry = (side, scalar temporary) set by a side-marked assignment to a plain name:
        following statements that read that temporary inherit its side."""
        for st in stmts:
            if isinstance(st, ast.Assign) and len(st.targets) == 1 and isinstance(st.value, ast.IfExp) and _is_indicator(st.value.body) and _is_indicator(st.value.orelse) \
                    and ekey(st.value.test) in enclosing:
                # inside `if a or b:`, `x = (-1 if a else 1)` is `if a: x = -1` / `else: x = 1` (two branches merged by a refactoring are still two sides)
                import copy
                a, b = copy.copy(st), copy.copy(st)
                a.value, b.value = st.value.body, st.value.orelse
                syn = ast.copy_location(ast.If(test=st.value.test, body=[a], orelse=[b]), st)
                walk([syn], side, carry)
                continue
            if isinstance(st, (ast.If, ast.While)):
                tside = None
                for t in tests_of(st.test):
                    it = mk(t)
                    osd = own_side(t, it)
                    inh = osd if osd in ("L", "U") else (carry[0] if carry and uses(t, carry[1]) else side)
                    if osd in ("L", "U"):
                        tside = osd
                    elif carry and uses(t, carry[1]):
                        tside = carry[0]
                    items.append((it, inh))
                mine = set(ekey(t) for t in tests_of(st.test)) - enclosing
                enclosing.update(mine)
                walk(st.body, tside or side, carry if tside and carry and tside == carry[0] else None)
                enclosing.difference_update(mine)
                walk(st.orelse, side, carry)
                continue
            if isinstance(st, ast.For):
                walk(st.body, side, carry)
                walk(st.orelse, side, carry)
                continue
            if isinstance(st, ast.Try):
                walk(st.body, side, carry)
                for h in st.handlers:
                    walk(h.body, side, carry)
                continue
            it = mk(st)
            if it is None:
                continue
            osd = own_side(st, it)
            if osd in ("L", "U"):
                sd = osd
            elif carry and uses(st, carry[1]):
                sd = carry[0]
            else:
                sd = side
            items.append((it, sd))
            # propagation through a scalar temporary
            tgt = st.targets[0] if isinstance(st, ast.Assign) and len(st.targets) == 1 else (st.target if isinstance(st, ast.AugAssign) else None)
            if isinstance(tgt, ast.Name) and it.text not in spec.ignore:
                if osd in ("L", "U") and it.kind == "assign" and not _is_indicator(st.value):
                    carry = (osd, tgt.id)
                elif carry and tgt.id == carry[1] and not uses(st, carry[1]):
                    carry = None          # the temporary was overwritten by something unrelated

    walk(fi.node.body, None)
    # the same test made twice on one side (an outer `if a or b:` and an inner `if a:`) is one piece of side information
    seen_tests = set()
    dedup = []
    for (it, sd) in items:
        if it is not None and it.kind == "test" and sd in ("L", "U"):
            if (it.text, sd) in seen_tests:
                continue
            seen_tests.add((it.text, sd))
        dedup.append((it, sd))
    items = dedup
    L, U = [], []
    tr.two_sided = []
    for (it, sd) in items:
        if it is not None and it.kind != "test" and own_side(it.node, it) == "B" and it.text not in spec.ignore and _selected(spec, it):
            tr.two_sided.append(it)
            continue
        if it is None or sd not in ("L", "U"):
            continue
        if it.text in spec.ignore:
            continue
        if not _selected(spec, it):
            continue
        try:
            if _same(mirror_form(tr, it), own_form(tr, it)):
                continue          # invariant under the reflection: carries no side information
        except Exception:
            pass
        (L if sd == "L" else U).append(it)
    return tr, L, U


def _selected(spec, it):
    """spec.only: nothing (every statement), substrings of the statement text, or a predicate over the statement's AST node."""
    if not spec.only:
        return True
    if callable(spec.only):
        return bool(spec.only(it.node))
    return any(o in it.text for o in spec.only)


def _solve_x0_stanza(node):
    """solver.solve handles bounds in many places (validation, scaling, projections); the mirrored part is: the default bounds (+/-1e20 * ones), the masks
    `<tmp> = x0 < xl` / `x0 > xu`, and the masked stores into x0."""
    def base(n):
        while isinstance(n, ast.Subscript):
            n = n.value
        return n.id if isinstance(n, ast.Name) else None
    if not isinstance(node, ast.Assign) or len(node.targets) != 1:
        return False
    t, v = node.targets[0], node.value
    if isinstance(t, ast.Subscript) and base(t) == "x0":
        return True
    if isinstance(v, ast.Compare) and len(v.ops) == 1 and isinstance(v.ops[0], (ast.Lt, ast.LtE, ast.Gt, ast.GtE)) and "x0" in (base(v.left), base(v.comparators[0])):
        return True
    if isinstance(t, ast.Name) and t.id in ("xl", "xu") and any(isinstance(c, ast.Call) and ekey(c.func).split(".")[-1] in ("ones", "full") for c in ast.walk(v)):
        return True
    return False


def _is_indicator(v):
    c = const_value(v)
    if c is not None and abs(c) == 1:
        return True
    return isinstance(v, ast.Constant) and isinstance(v.value, bool)


def _names(node, tr):
    out = set()
    for sub in ast.walk(node):
        if isinstance(sub, ast.Name):
            out.add(sub.id)
        elif isinstance(sub, ast.Attribute):
            out.add(sub.attr)
    return out


def mirror_form(tr, s):
    spec = tr.spec
    if s.kind in ("test", "assert"):
        return (s.kind, None, canon(tr.reflect(s.value)), None)
    val, idx = s.value
    tgt = s.target
    mv = tr.reflect(val)
    if tgt in spec.neg:
        mv = -mv                       # the mirrored block assigns minus the reflected value to the (negated) target
    if tgt in spec.flip:
        mv = sp.Function("NOT")(mv) if not (mv == sp.true or mv == sp.false) else (sp.false if mv == sp.true else sp.true)
    if tgt in spec.swap:
        tgt2, mv = spec.swap[tgt], -mv
    elif tgt in spec.sswap:
        tgt2 = spec.sswap[tgt]
    else:
        inv_swap = dict((v, k) for k, v in spec.swap.items())
        inv_s = dict((v, k) for k, v in spec.sswap.items())
        if tgt in inv_swap:
            tgt2, mv = inv_swap[tgt], -mv
        elif tgt in inv_s:
            tgt2 = inv_s[tgt]
        else:
            tgt2 = tgt
    return (s.kind, tgt2, canon(mv), canon(tr.reflect(idx)) if idx is not None else None)


def own_form(tr, s):
    if s.kind in ("test", "assert"):
        return (s.kind, None, canon(s.value), None)
    val, idx = s.value
    return (s.kind, s.target, canon(val), canon(idx) if idx is not None else None)


def _temp_map(tr, stmts):
    """Side-local temporaries (plain names assigned by the side's statements that the table does not know) are bound variables: they are
    numbered in order of first assignment, so that `idx = x0 < xl` / `idx = x0 > xu` and `below = x0 < xl` / `above = x0 > xu` are the same pair."""
    spec = tr.spec
    known = spec.neg | set(spec.swap) | set(spec.swap.values()) | set(spec.sswap) | set(spec.sswap.values()) | spec.flip
    order = []
    for st in stmts:
        node = st.node
        tgt = node.targets[0] if isinstance(node, ast.Assign) and len(node.targets) == 1 else None
        if isinstance(tgt, ast.Name) and tgt.id not in known and tgt.id not in order:
            order.append(tgt.id)
    return dict((n, "_T%d" % (i + 1)) for i, n in enumerate(order))


def _rename(tr, form, tmap):
    if not tmap:
        return form
    sub = dict((tr.sym(a), tr.sym(b)) for a, b in tmap.items())
    kind, tgt, val, idx = form
    return (kind, tmap.get(tgt, tgt), val.xreplace(sub) if isinstance(val, sp.Basic) else val, idx.xreplace(sub) if isinstance(idx, sp.Basic) else idx)


def check_function(eng, spec):
    """Returns (pairs matched, [unmatched lower-side stmts with nearest upper candidate], [unmatched upper-side stmts])."""
    fi = eng.fn(spec.fid)
    tr, L, U = collect(eng, fi, spec)
    spec = tr.spec
    mapL, mapU = _temp_map(tr, L), _temp_map(tr, U)
    uforms = [(_rename(tr, own_form(tr, u), mapU), u) for u in U]
    used = set()
    matched = []
    unmatched = []
    for s in L:
        mf = _rename(tr, mirror_form(tr, s), mapL)
        hit = None
        for j, (uf, u) in enumerate(uforms):
            if j in used:
                continue
            if _same(mf, uf):
                hit = j
                break
        if hit is None:
            # nearest candidate: same kind and target
            cand = [u for j, (uf, u) in enumerate(uforms) if j not in used and uf[0] == mf[0] and uf[1] == mf[1]]
            unmatched.append((s, mf, cand[0] if cand else None))
        else:
            used.add(hit)
            matched.append((s, uforms[hit][1]))
    left_u = [u for j, (uf, u) in enumerate(uforms) if j not in used]
    # statements that mention both sides must be their own mirror image -- unless they delegate both bounds to another routine
    # (whose own equivariance is checked where it is defined) or are a two-sided clamp (decided by the exactness/frame rules)
    swapped = set(tr.sym(n) for n in list(spec.swap) + list(spec.swap.values()))

    def delegates(expr):
        for f in expr.atoms(sp.core.function.AppliedUndef) if isinstance(expr, sp.Basic) else []:
            if f.func.__name__ in ("ifexp", "NOT", "AND", "OR", "VMAX", "VMIN") or f.func.__name__.startswith("REL_"):
                continue
            lo = any(tr.sym(n) in f.free_symbols for n in spec.swap)
            up = any(tr.sym(n) in f.free_symbols for n in spec.swap.values())
            if lo and up:
                return True
        return False

    def two_sided_clamp(expr):
        for m in expr.atoms(sp.Max, sp.Min) if isinstance(expr, sp.Basic) else []:
            lo = any(tr.sym(n) in m.free_symbols for n in spec.swap)
            up = any(tr.sym(n) in m.free_symbols for n in spec.swap.values())
            if lo and up:
                return True
        return False

    for b in tr.two_sided:
        val = b.value[0] if isinstance(b.value, tuple) else b.value
        if delegates(val) or two_sided_clamp(val):
            continue
        try:
            inv = _same(mirror_form(tr, b), own_form(tr, b))
        except Exception:
            inv = False
        if inv:
            matched.append((b, b))
        else:
            unmatched.append((b, mirror_form(tr, b), b))
    return fi, matched, unmatched, left_u


def _same(a, b):
    if a[0] != b[0] or a[1] != b[1]:
        return False
    for x, y in ((a[2], b[2]), (a[3], b[3])):
        if (x is None) != (y is None):
            return False
        if x is None:
            continue
        if x == y:
            continue
        try:
            if sp.simplify(x - y) == 0:
                continue
        except Exception:
            pass
        return False
    return True
