"""C02 -- evaluation budget and evaluation counters are exact.

Decided on every path / call site: single sink; guard(NF<MAXFUN) -> exactly one NF increment -> call;
entry obligation of the x0 evaluation at every solve_main call site; counter plumbing into soln.nf/soln.nx
(role provenance + no stale local after ownership moved to the Controller); log numbering ports; NX incremented
exactly once per point and before the first call; identical x for all samples of a point; trip count of every
sampling loop is max(nsamples(..),1); the only break of a sampling loop is the budget guard.
"""
import ast

from ..loader import AnalysisError, ekey
from ..norm import atom_of, const_value, is_none
from ..resolve import bind_call
from ..dataflow import Flow
from ..roles import RoleSpec, solve_roles, blame_key, closure_back, generic_neutral
from .. import tables
from .anchors import anchors
from .common import mentions, guards_of, short, arg_of, assigned_names, calls_to_in


# --------------------------------------------------------------------------------------------- C02-0
def rule_single_sink(eng, rep, A, rule="C02-0.single-sink"):
    if A.sink is None:
        if not A.sink_candidates:
            rep.unknown(rule, "package", "no call of the user's objfun found")
        else:
            for ci in A.objfun_calls:
                rep.bad(rule, eng.where(ci.caller, ci.node), "%s|objfun-called" % ci.caller.fid,
                        "objfun is called in more than one function (%s): evaluations bypass the counting choke point" % A.sink_candidates)
        return False
    for ci in A.objfun_calls:
        rep.ok(rule, eng.where(ci.caller, ci.node), "objfun called only in %s" % A.sink.fid)
    rep.require_count(rule, "calls of objfun", len(A.objfun_calls), 1)
    if len(A.objfun_calls) > 1:
        for ci in A.objfun_calls[1:]:
            rep.bad(rule, eng.where(ci.caller, ci.node), "%s|objfun-called-twice" % ci.caller.fid, "second call of objfun inside the sink: one evaluation number covers two calls")
    # who may call the sink: solve_main (x0 block) and Controller.evaluate_objective
    callers = {}
    for ci in A.sink_calls:
        callers.setdefault(ci.caller.fid, []).append(ci)
    allowed = {"solver.solve_main", "controller.Controller.evaluate_objective"}
    for fid, cis in callers.items():
        for ci in cis:
            if fid in allowed:
                rep.ok(rule, eng.where(ci.caller, ci.node), "sink called from %s" % fid)
            else:
                rep.bad(rule, eng.where(ci.caller, ci.node), "%s|sink-called-outside-owners" % fid,
                        "the evaluation routine is called from %s, outside the two functions that own the budget test" % fid)
    rep.require_count(rule, "sink call sites", len(A.sink_calls), tables.MIN_COUNTS["sink_call_sites"])
    rep.require_count(rule, "evaluate_objective call sites", len(A.evalobj_calls), tables.MIN_COUNTS["evaluate_objective_call_sites"])
    # objfun reaches the sink only as a callable value: nobody else invokes Controller.objfun
    return True


# --------------------------------------------------------------------------------------------- C02-1
def _counter_text(expr):
    return ekey(expr)


def _is_incr_of(st, text):
    """Statement increments counter `text`: returns amount (int) or None.  Forms: c += k ; c = c + k ; c = other + k (re-seat)."""
    if isinstance(st, ast.AugAssign) and ekey(st.target) == text and isinstance(st.op, (ast.Add, ast.Sub)):
        c = const_value(st.value)
        if isinstance(c, int):
            return c if isinstance(st.op, ast.Add) else -c
        return "nonconst"
    if isinstance(st, ast.Assign) and len(st.targets) == 1 and ekey(st.targets[0]) == text:
        v = st.value
        if isinstance(v, ast.BinOp) and isinstance(v.op, ast.Add):
            for a, b in ((v.left, v.right), (v.right, v.left)):
                c = const_value(b)
                if isinstance(c, int) and not isinstance(a, ast.Constant):
                    if ekey(a) == text:
                        return c          # c = c + k  is the same as  c += k
                    return ("seat", c, a)
        if isinstance(v, ast.Name):
            return "reseat"
        return "write"
    if isinstance(st, (ast.Assign, ast.AugAssign)):
        tg = st.targets if isinstance(st, ast.Assign) else [st.target]
        for t in tg:
            for sub in ast.walk(t):
                if ekey(sub) == text and isinstance(getattr(sub, "ctx", None), ast.Store):
                    return "write"
    return None


def rule_guard_incr_call(eng, rep, A, rule="C02-1.guard-increment-call"):
    by_fn = {}
    for ci in A.sink_calls:
        by_fn.setdefault(ci.caller.fid, []).append(ci)
    facts = {}
    for fid, cis in sorted(by_fn.items()):
        fi = eng.prog.functions[fid]
        cfg = eng.cfg(fi)
        nf_exprs = set(_counter_text(A.sink_arg(ci, A.nf_port)) for ci in cis)
        if len(nf_exprs) != 1:
            rep.unknown(rule, eng.where(fi), "sink calls in one function use different evaluation counters %s" % sorted(nf_exprs))
            continue
        nf = nf_exprs.pop()
        call_nodes = set(cfg.cfg_node(ci.node) for ci in cis)
        # the budget guard(s): cond nodes comparing the counter with something
        guards = {}
        maxfun_texts = set()
        for n in cfg.nodes_of_kind("cond"):
            t = cfg.ast_of(n)
            if isinstance(t, ast.Compare) and len(t.ops) == 1:
                l, r = ekey(t.left), ekey(t.comparators[0])
                if nf in (l, r):
                    guards[n] = t
                    maxfun_texts.add(r if l == nf else l)
        if not guards:
            rep.bad(rule, eng.where(fi), "%s|no-budget-guard" % fid, "function evaluates the objective but never compares %s with the budget" % nf)
            continue
        facts[fid] = (nf, sorted(maxfun_texts))
        entry_state = "C" if _counter_from_param(fi, cfg, nf) else "U"

        def node_fn(n, s, cfg=cfg, nf=nf, call_nodes=call_nodes):
            d = cfg.g.nodes[n]
            if d["kind"] != "stmt":
                return [s]
            st = d["ast"]
            if n in call_nodes:
                return ["U" if s == "I" else "ERR:call-in-state-" + s]
            inc = _is_incr_of(st, nf)
            if inc is None:
                return [s]
            if inc == "reseat":
                return ["U"]
            if isinstance(inc, tuple):
                inc = inc[1]
            if inc == 1:
                return ["I" if s == "C" else "ERR:increment-in-state-" + s]
            if isinstance(inc, int):
                return ["ERR:increment-by-%d" % inc]
            return ["ERR:counter-overwritten"]

        def edge_fn(a, b, e, s, cfg=cfg, nf=nf, guards=guards):
            if s.startswith("ERR"):
                return s if False else None
            if a in guards and e["label"] in (True, False):
                at = atom_of(cfg.ast_of(a), e["label"])
                if at.op == "lt" and ekey(at.lhs) == nf:
                    return "C" if s in ("U", "C") else s
                # any other outcome proves nothing: keep the state, but a previously checked state stays checked
                return s
            if e["kind"] in ("back",) and s == "I":
                return "ERR:increment-without-call"
            return s

        # run; collect ERR states at nodes
        errs = {}

        def node_fn2(n, s):
            outs = node_fn(n, s)
            res = []
            for o in outs:
                if o.startswith("ERR"):
                    errs.setdefault((n, o), s)
                    res.append("U")
                else:
                    res.append(o)
            return res

        def edge_fn2(a, b, e, s):
            if e["kind"] == "back" and s == "I":
                errs.setdefault((a, "ERR:increment-without-call"), s)
                return "U"
            if b == cfg.exit and s == "I":
                errs.setdefault((a, "ERR:increment-without-call"), s)
                return "U"
            return edge_fn(a, b, e, s)

        fl = Flow(cfg, entry_state, node_fn2, edge_fn2)
        for n in sorted(call_nodes):
            site = eng.where(fi, cfg.ast_of(n))
            bad = [(k, v) for (k, v) in errs.items() if k[0] == n]
            if bad:
                (nn, why), st_in = bad[0]
                p = fl.path_to(n, st_in)
                rep.bad(rule, site, "%s|%s|%s" % (fid, why[4:], _call_key(cfg, n)),
                        "evaluation reached in state %s (U=unchecked, C=checked %s<MAXFUN, I=incremented): %s" % (st_in, nf, why[4:]),
                        path=cfg.describe_path(p)[-20:])
            else:
                rep.ok(rule, site, "every path: test %s < MAXFUN (false edge of the guard), one `%s += 1`, then the call" % (nf, nf))
        for (n, why), st_in in sorted(errs.items(), key=lambda x: x[0][0]):
            if n in call_nodes:
                continue
            site = eng.where(fi, cfg.ast_of(n)) if cfg.ast_of(n) is not None else eng.where(fi)
            rep.bad(rule, site, "%s|%s|%s" % (fid, why[4:], short(cfg.ast_of(n), 40) if cfg.ast_of(n) is not None else "?"),
                    "budget typestate broken: %s (state before: %s)" % (why[4:], st_in), path=cfg.describe_path(fl.path_to(n, st_in))[-20:])
        # the guard operator itself (off-by-one)
        for n, t in sorted(guards.items()):
            at = atom_of(t, True)
            rel = _relation(at, nf)
            site = eng.where(fi, t)
            if rel in ("nf>=max", "nf<max"):
                rep.ok(rule, site, "budget guard `%s` is the exact test NF >= MAXFUN" % short(t))
            elif rel in ("nf>max", "nf<=max"):
                rep.bad(rule, site, "%s|off-by-one-guard|%s" % (fid, short(t, 40)), "budget guard `%s` lets evaluation MAXFUN+1 through" % short(t))
            else:
                rep.note(rule, site, "comparison of the evaluation counter that is not a budget guard: %s" % short(t))
    return facts


def _relation(at, nf):
    l, r = ekey(at.lhs), ekey(at.rhs) if at.rhs is not None else ""
    if at.op == "le" and r == nf:
        return "nf>=max"      # max <= nf
    if at.op == "lt" and l == nf:
        return "nf<max"
    if at.op == "lt" and r == nf:
        return "nf>max"
    if at.op == "le" and l == nf:
        return "nf<=max"
    return None


def _call_key(cfg, n):
    st = cfg.ast_of(n)
    tg = ""
    if isinstance(st, ast.Assign):
        tg = ekey(st.targets[0])[:30]
    return tg


def _counter_from_param(fi, cfg, nf):
    """The function's counter is (re)seated from a parameter (`nf = nf_so_far + 1`): the first evaluation relies on the caller."""
    for n, d in cfg.g.nodes(data=True):
        if d["kind"] == "stmt":
            inc = _is_incr_of(d["ast"], nf)
            if isinstance(inc, tuple) and isinstance(inc[2], ast.Name) and inc[2].id in fi.all_params:
                return True
    return False


# --------------------------------------------------------------------------------------------- C02-2
def rule_entry_obligation(eng, rep, A, rule="C02-2.x0-evaluation-entry-obligation"):
    sm = A.solve_main
    solve = A.solve
    cfg = eng.cfg(solve)
    if not rep.require_count(rule, "solve_main call sites", len(A.solve_main_calls), tables.MIN_COUNTS["solve_main_call_sites"]):
        return
    # names of the NF / MAXFUN parameters of solve_main: derived from its own guard
    smcfg = eng.cfg(sm)
    nf_param = None
    for n, d in smcfg.g.nodes(data=True):
        if d["kind"] == "stmt":
            for ci in A.sink_calls:
                pass
    sink_in_sm = [ci for ci in A.sink_calls if ci.caller.fid == sm.fid]
    if not sink_in_sm:
        rep.unknown(rule, eng.where(sm), "no evaluation in solve_main")
        return
    nf_local = ekey(A.sink_arg(sink_in_sm[0], A.nf_port))
    seat = None
    for n, d in smcfg.g.nodes(data=True):
        if d["kind"] == "stmt":
            inc = _is_incr_of(d["ast"], nf_local)
            if isinstance(inc, tuple) and isinstance(inc[2], ast.Name):
                seat = inc[2].id
    maxfun_param = None
    for n in smcfg.nodes_of_kind("cond"):
        t = smcfg.ast_of(n)
        if isinstance(t, ast.Compare) and len(t.ops) == 1 and nf_local in (ekey(t.left), ekey(t.comparators[0])):
            other = t.comparators[0] if ekey(t.left) == nf_local else t.left
            if isinstance(other, ast.Name) and other.id in sm.all_params:
                maxfun_param = other.id
    if seat is None or maxfun_param is None:
        rep.unknown(rule, eng.where(sm), "cannot identify the counter/budget parameters of solve_main")
        return
    for ci in A.solve_main_calls:
        if ci.caller.fid != solve.fid:
            rep.bad(rule, eng.where(ci.caller, ci.node), "%s|solve_main-called-outside-solve" % ci.caller.fid, "solve_main called outside solve: its entry obligation NF < MAXFUN is unchecked")
            continue
        call = ci.node
        site = eng.where(solve, call)
        nf_arg = arg_of(eng, call, sm, seat)
        mf_arg = arg_of(eng, call, sm, maxfun_param)
        if not isinstance(nf_arg, ast.Name) or not isinstance(mf_arg, ast.Name):
            rep.unknown(rule, site, "counter/budget arguments are not plain names")
            continue
        cn = cfg.cfg_node(call)
        nf_defs = cfg.defs_reaching(call, nf_arg.id)
        # (a) loop / if guard  nf < maxfun  with no write in between
        done = False
        for (b, at) in guards_of(cfg, cn):
            if at.op == "lt" and ekey(at.lhs) == nf_arg.id and ekey(at.rhs) == mf_arg.id:
                same = cfg.defs_reaching(cfg.ast_of(b), nf_arg.id) == nf_defs or _defs_subset_after(cfg, b, cn, nf_arg.id, mf_arg.id)
                if _no_write_between(cfg, b, cn, {nf_arg.id, mf_arg.id}):
                    rep.ok(rule, site, "call is control dependent on `%s < %s` and neither is written in between" % (nf_arg.id, mf_arg.id))
                    done = True
                else:
                    rep.bad(rule, site, "solver.solve|guard-invalidated|%s" % _call_key(cfg, cn), "%s or %s is re-assigned between the guard and the call" % (nf_arg.id, mf_arg.id))
                    done = True
                break
        if done:
            continue
        # (b) nf is the literal 0 and maxfun <= 0 was rejected
        lits = []
        for dnode in nf_defs:
            st = cfg.ast_of(dnode)
            if isinstance(st, ast.Assign) and const_value(st.value) == 0:
                lits.append(dnode)
        if nf_defs and len(lits) == len(nf_defs):
            from .c07 import _input_error_sites, _graceful_cond
            sites = _input_error_sites(eng, solve, cfg)
            rejected = False
            for s in sites:
                for (_b, at) in guards_of(cfg, s):
                    if at.op == "le" and ekey(at.lhs) == mf_arg.id and const_value(at.rhs) == 0:
                        if _no_write_between(cfg, s, cn, {mf_arg.id}):
                            rejected = True
            gc = [g for g in _graceful_cond(eng, cfg) if cfg.path_avoiding(cfg.entry, cn, [g[0]]) is None]
            if rejected and gc:
                rep.ok(rule, site, "first run: %s is the literal 0 and `%s <= 0` ends in the input-error return that dominates the call" % (nf_arg.id, mf_arg.id))
            else:
                rep.bad(rule, site, "solver.solve|first-run-unguarded", "first call of solve_main: nothing establishes 0 < %s before the x0 evaluation" % mf_arg.id)
            continue
        rep.bad(rule, site, "solver.solve|restart-unguarded|%s" % _call_key(cfg, cn),
                "solve_main evaluates x0 without a local budget test, and this call site does not establish %s < %s" % (nf_arg.id, mf_arg.id))


def _defs_subset_after(cfg, b, cn, *names):
    return False


def _no_write_between(cfg, a, b, names):
    """No CFG node on any path a -> b (exclusive) defines one of names."""
    writers = []
    for n in cfg.g.nodes:
        if n in (a, b):
            continue
        strong, weak = cfg.defs_of(n)
        if (strong | weak) & set(names):
            writers.append(n)
    for w in writers:
        if cfg.path_avoiding(a, w, [b]) is not None and cfg.path_avoiding(w, b, []) is not None:
            # w lies between a and b on some path; a loop-carried write after b that comes back through a is fine
            # only if it passes a again (then the guard is re-evaluated)
            if cfg.path_avoiding(w, b, [a]) is not None:
                return False
    return True


# --------------------------------------------------------------------------------------------- C02-3/4
def final_ctor(eng, A):
    """The OptimResults(...) call of solve that is not on the input-error branch."""
    solve = A.solve
    out = []
    for ci in eng.calls_in(solve):
        if ci.kind == "CTOR" and any(t.cls == "OptimResults" for t in ci.targets):
            b = bind_call(ci.node, eng.fn("solver.OptimResults.__init__"), True)
            nf = b.params.get("nf")
            if nf is not None and not isinstance(nf, tuple) and const_value(nf) is None:
                out.append((ci, b))
    if len(out) != 1:
        raise AnalysisError("expected exactly one solution-carrying OptimResults(...) in solve, found %d" % len(out))
    return out[0]


def rule_counter_plumbing(eng, rep, A, rule="C02-3.counter-plumbing"):
    vfg = eng.vfg
    nfw, nxw, nf_args, nx_args = A.counter_closures()
    # C02-4: ports
    rule4 = "C02-4.log-numbering-ports"
    inter = set(st[0] for st in (set((a_[0], a_[1]) for a_ in nfw.parent) & set((a_[0], a_[1]) for a_ in nxw.parent)))
    inter = set(n for n in inter if not (n[0] == "e" and isinstance(vfg.info[n][1], ast.Constant)))
    if inter:
        for n in sorted(inter, key=str)[:3]:
            rep.bad(rule4, vfg.describe(n), "counters-cross|%s" % blame_short(vfg, n), "the same value feeds both the evaluation number and the point number",
                    path=nfw.path(n) + ["--- and ---"] + nxw.path(n))
    for ci, a, b in zip(A.sink_calls, nf_args, nx_args):
        site = eng.where(ci.caller, ci.node)
        if not inter:
            rep.ok(rule4, site, "%s= is fed by the NF counter only, %s= by the NX counter only" % (A.nf_port, A.nx_port))
    for nm, w in (("NF", nfw), ("NX", nxw)):
        has_incr = any(par is not None and par[1] == "incr" for par in w.parent.values())
        lits = [n for n in w.leaves if n[0] == "e" and isinstance(vfg.info[n][1], ast.Constant)]
        if not has_incr:
            rep.bad(rule4, "package", "%s-not-a-counter" % nm, "%s port is not fed by an incremented counter" % nm)
        for l in lits:
            fi, node = vfg.info[l]
            if const_value(node) == 0 and fi is not None and fi.fid == "solver.solve":
                rep.ok(rule, vfg.describe(l), "%s counter starts at the literal 0 in solve" % nm)
            else:
                rep.bad(rule, vfg.describe(l), "%s|%s-reset|%s" % (fi.fid if fi else "?", nm, ekey(node)),
                        "%s counter is (re)set from the literal %s in %s: numbering restarts / counts are lost across runs" % (nm, ekey(node), fi.fid if fi else "?"),
                        path=w.path(l))
        others = [n for n in w.leaves if n not in lits]
        for l in others:
            rep.bad(rule, vfg.describe(l), "%s-origin|%s" % (nm, blame_short(vfg, l)), "%s counter has an origin that is neither a counter increment nor the initial 0" % nm, path=w.path(l))
    # sinks soln.nf / soln.nx
    ci, b = final_ctor(eng, A)
    specs = []
    for nm, w, pname in (("NF", nfw, "nf"), ("NX", nxw, "nx")):
        e = b.params.get(pname)
        specs.append(RoleSpec(nm, [vfg.key_of(e)], w.plain))
    blames, stats = solve_roles(vfg, specs)
    for bl in blames:
        rep.bad(rule, vfg.describe(bl.src), blame_key(vfg, bl), "a value that is not the %s counter flows into soln.%s" % (bl.role, bl.role.lower()), path=bl.path)
    if not blames:
        rep.ok(rule, eng.where(A.solve, ci.node), "soln.nf and soln.nx slice back only to the NF / NX counters (%s)" % stats)
    return nfw, nxw


def blame_short(vfg, n):
    fi, node = vfg.node_expr(n)
    if node is not None:
        return "%s|%s" % (fi.fid if fi else "?", ekey(node)[:40])
    return str(n[:3])


def rule_stale_locals(eng, rep, A, nfw, nxw, rule="C02-3b.no-stale-counter-after-handover"):
    """After a local counter value has been handed to an object that keeps counting on its own copy, the local is stale:
    it must not flow into a return value."""
    vfg = eng.vfg
    n_handover = 0
    for fi in eng.prog.functions.values():
        cfg = None
        for ci in eng.calls_in(fi):
            if ci.kind != "CTOR":
                continue
            for (t, bound) in eng.res.call_targets(fi, ci.node):
                b = bind_call(ci.node, t, True)
                for p, e in b.params.items():
                    if isinstance(e, tuple) or not isinstance(e, ast.Name):
                        continue
                    # does parameter p flow into a field that has an increment self-edge?
                    fields = _fields_fed_by_param(vfg, t, p)
                    counting = [f for f in fields if any(s == f and k == "incr" for (s, k, i) in vfg.preds.get(f, []))]
                    if not counting:
                        continue
                    n_handover += 1
                    cfg = cfg or eng.cfg(fi)
                    cn = cfg.cfg_node(ci.node)
                    var = e.id
                    stale_defs = set(cfg.defs_reaching(ci.node, var))
                    # any later Return that reads var with a stale def
                    found = False
                    for r, d in cfg.g.nodes(data=True):
                        if d["kind"] == "stmt" and isinstance(d["ast"], ast.Return) and d["ast"].value is not None:
                            if cfg.path_avoiding(cn, r, []) is None:
                                continue
                            for sub in ast.walk(d["ast"].value):
                                if isinstance(sub, ast.Name) and sub.id == var and set(cfg.defs_reaching(sub, var)) & stale_defs:
                                    found = True
                                    rep.bad(rule, eng.where(fi, d["ast"]), "%s|stale-%s-returned" % (fi.fid, var),
                                            "local `%s` was handed to %s (which keeps counting in %s) and is returned afterwards: the count of the run is lost"
                                            % (var, t.fid, counting[0][1] + "." + counting[0][2]),
                                            path=cfg.describe_path(cfg.path_avoiding(cn, r, []))[-12:])
                    if not found:
                        rep.ok(rule, eng.where(fi, ci.node), "local `%s` is not returned after being handed to %s" % (var, t.fid))
    rep.require_count(rule, "counter hand-overs", n_handover, 2)


def _fields_fed_by_param(vfg, t, p):
    out = []
    pk = ("p", t.fid, p)
    for dst, preds in vfg.preds.items():
        if dst[0] != "f" or dst[1] != t.cls:
            continue
        for (s, k, i) in preds:
            if k != "copy":
                continue
            if s == pk or any(s2 == pk and k2 == "copy" for (s2, k2, i2) in vfg.preds.get(s, [])):
                out.append(dst)
                break
    return out


# --------------------------------------------------------------------------------------------- C02-5
def rule_point_numbering(eng, rep, A, rule="C02-5.point-numbering"):
    by_fn = {}
    for ci in A.sink_calls:
        by_fn.setdefault(ci.caller.fid, []).append(ci)
    for fid, cis in sorted(by_fn.items()):
        fi = eng.prog.functions[fid]
        cfg = eng.cfg(fi)
        nx = set(ekey(A.sink_arg(ci, A.nx_port)) for ci in cis)
        if len(nx) != 1:
            rep.unknown(rule, eng.where(fi), "different point counters in one function")
            continue
        nx = nx.pop()
        call_nodes = set(cfg.cfg_node(ci.node) for ci in cis)
        # boolean flags assigned constants in this function
        flags = set()
        for n, d in cfg.g.nodes(data=True):
            st = d["ast"]
            if d["kind"] == "stmt" and isinstance(st, ast.Assign) and len(st.targets) == 1 and isinstance(st.targets[0], ast.Name) \
                    and isinstance(st.value, ast.Constant) and isinstance(st.value.value, bool):
                flags.add(st.targets[0].id)
        flags = sorted(flags)
        # `for i in range(N)` / `range(s, N)`: the test `i == <start>` is true on the first pass and false on every later one (R: flag replaced by `if i == 0:`);
        # the pass number (0 before the loop, 1 first pass, 2 later) is kept in the flag part of the state under the key "@pass:i"
        first_of = {}
        for (h, kind, lst) in cfg.loops:
            if kind == "for" and isinstance(lst.target, ast.Name) and isinstance(lst.iter, ast.Call) and isinstance(lst.iter.func, ast.Name) and lst.iter.func.id == "range" \
                    and 1 <= len(lst.iter.args) <= 2:
                start = 0 if len(lst.iter.args) == 1 else const_value(lst.iter.args[0])
                if start is not None:
                    first_of[lst.target.id] = (h, start, cfg.cfg_node(lst.iter))
        pass_keys = sorted("@pass:" + v for v in first_of)

        def node_fn(n, s, cfg=cfg, nx=nx):
            cnt, fl = s
            d = cfg.g.nodes[n]
            st = d["ast"]
            for v, (h, _start, itn) in first_of.items():
                if n == itn:
                    fd = dict(fl)
                    fd["@pass:" + v] = 0
                    fl = tuple(sorted(fd.items()))
            if d["kind"] == "stmt":
                inc = _is_incr_of(st, nx)
                if isinstance(inc, tuple):
                    inc = inc[1]
                if isinstance(inc, int):
                    cnt = min(cnt + (1 if inc == 1 else 2), 2)
                elif inc is not None:
                    cnt = 2
                if isinstance(st, ast.Assign) and len(st.targets) == 1 and isinstance(st.targets[0], ast.Name) and st.targets[0].id in flags:
                    fl = dict(fl)
                    fl[st.targets[0].id] = st.value.value if isinstance(st.value, ast.Constant) and isinstance(st.value.value, bool) else None
                    fl = tuple(sorted(fl.items()))
            return [(cnt, fl)]

        def edge_fn(a, b, e, s, cfg=cfg):
            for v, (h, _start, _itn) in first_of.items():
                if a == h and e.get("label") == "iter":
                    fd = dict(s[1])
                    fd["@pass:" + v] = min((fd.get("@pass:" + v) or 0) + 1, 2)
                    s = (s[0], tuple(sorted(fd.items())))
            if cfg.kind(a) == "cond" and e["label"] in (True, False):
                at = atom_of(cfg.ast_of(a), e["label"])
                if at.op in ("truth", "false") and isinstance(at.lhs, ast.Name) and at.lhs.id in flags:
                    val = dict(s[1]).get(at.lhs.id)
                    want = at.op == "truth"
                    if val is not None and val != want:
                        return None
                if at.op in ("eq", "ne") and isinstance(at.lhs, ast.Name) and at.lhs.id in first_of and const_value(at.rhs) == first_of[at.lhs.id][1]:
                    ps = dict(s[1]).get("@pass:" + at.lhs.id)
                    if ps == 1 and at.op == "ne":
                        return None           # first pass: i == start holds
                    if ps == 2 and at.op == "eq":
                        return None           # later passes: i != start
            return s

        init = (0, tuple(sorted([(f, None) for f in flags] + [(k, 0) for k in pass_keys])))
        fl = Flow(cfg, init, node_fn, edge_fn)
        for n in sorted(call_nodes):
            site = eng.where(fi, cfg.ast_of(n))
            sts = fl.states(n)
            cnts = set(s[0] for s in sts)
            if cnts == {1}:
                rep.ok(rule, site, "on every path to this evaluation `%s` has been incremented exactly once in this invocation" % nx)
            else:
                bad = [s for s in sts if s[0] != 1][0]
                why = "no point number assigned" if bad[0] == 0 else "point counter incremented more than once (one number per sample)"
                rep.bad(rule, site, "%s|nx-increments-%s|%s" % (fid, "0" if bad[0] == 0 else "many", _call_key(cfg, n)),
                        "%s: %s" % (nx, why), path=cfg.describe_path(fl.path_to(n, bad))[-20:])
        # identical x for all samples: all evaluation calls of one invocation (they share the point number) get the same x expression ...
        xtexts = {}
        for ci in cis:
            xa = ci.node.args[1] if len(ci.node.args) > 1 else arg_of(eng, ci.node, A.sink, A.sink.posparams[1])
            xtexts.setdefault(ekey(xa), []).append(ci)
        if len(xtexts) > 1:
            major = max(xtexts, key=lambda k: len(xtexts[k]))
            for txt, group in xtexts.items():
                if txt == major and len(xtexts[major]) > 1:
                    continue
                for ci in group:
                    rep.bad(rule, eng.where(fi, ci.node), "%s|samples-of-one-point-get-different-x|%s" % (fid, txt[:40]),
                            "the evaluations of one point number in %s are made at `%s` here but at `%s` elsewhere: samples that share a point number receive different x" % (fi.qualname, txt[:60], [t for t in xtexts if t != txt][0][:60]))
        elif len(cis) > 1:
            rep.ok(rule, eng.where(fi), "all %d evaluation calls of one invocation are made at the same expression `%s`" % (len(cis), list(xtexts)[0][:60]))
        # ... and the x argument has no definition inside a loop that contains the call
        for ci in cis:
            xarg = ci.node.args[1] if len(ci.node.args) > 1 else arg_of(eng, ci.node, A.sink, A.sink.posparams[1])
            cn = cfg.cfg_node(ci.node)
            loops = [h for (h, kind, st) in cfg.loops if _in_loop(cfg, h, cn)]
            bad = None
            for sub in ast.walk(xarg):
                if isinstance(sub, ast.Name) and eng.res.scope_of(fi, sub.id) is fi and not (fi.is_method and sub.id == fi.posparams[0]):
                    for dn in cfg.defs_reaching(sub, sub.id):
                        if any(_in_loop(cfg, h, dn) for h in loops) and dn != cfg.entry:
                            bad = (sub.id, dn)
            site = eng.where(fi, ci.node)
            if bad:
                rep.bad(rule, site, "%s|x-redefined-in-sampling-loop|%s" % (fid, bad[0]), "`%s` (part of the evaluated point) is re-defined inside the sampling loop: samples of one point number get different x" % bad[0])
            else:
                rep.ok(rule, site, "evaluated point `%s` is loop-invariant" % short(xarg, 50), nontrivial=bool(loops))


def _in_loop(cfg, head, n):
    """n belongs to the natural loop headed by head."""
    return n in cfg.loop_nodes(head)


# --------------------------------------------------------------------------------------------- C02-6
def rule_sample_count(eng, rep, A, rule="C02-6.sample-count"):
    vfg = eng.vfg
    by_fn = {}
    for ci in A.sink_calls:
        by_fn.setdefault(ci.caller.fid, []).append(ci)
    n_max = 0
    for fid, cis in sorted(by_fn.items()):
        fi = eng.prog.functions[fid]
        cfg = eng.cfg(fi)
        call_nodes = [cfg.cfg_node(ci.node) for ci in cis]
        loops = [(h, st) for (h, kind, st) in cfg.loops if kind == "for" and any(_in_loop(cfg, h, c) for c in call_nodes)]
        if not loops:
            rep.unknown(rule, eng.where(fi), "no sampling loop around the evaluation")
            continue
        for (h, st) in loops:
            site = eng.where(fi, st)
            it = st.iter
            if not (isinstance(it, ast.Call) and isinstance(it.func, ast.Name) and it.func.id == "range" and 1 <= len(it.args) <= 2):
                rep.unknown(rule, site, "sampling loop is not a `for .. in range(..)`")
                continue
            start = 0 if len(it.args) == 1 else const_value(it.args[0])
            bound = it.args[-1]
            pre = [c for c in call_nodes if not _in_loop(cfg, h, c) and cfg.path_avoiding(c, h, []) is not None]
            if start == len(pre) and len([c for c in call_nodes if _in_loop(cfg, h, c)]) == 1:
                rep.ok(rule, site, "%d call(s) before the loop + range(%s, N): exactly N samples when the budget allows" % (len(pre), start))
            else:
                rep.bad(rule, site, "%s|trip-count|range-start-%s-pre-%d" % (fid, start, len(pre)),
                        "sampling loop starts at %s with %d evaluation(s) before it: the point does not get the requested number of samples" % (start, len(pre)))
            # the only break in the loop is the budget guard
            nf = ekey(A.sink_arg(cis[0], A.nf_port))
            # (a break / return leaves the loop, so it is not a node of the natural loop: membership is lexical -- innermost enclosing loop statement)
            early = []

            def lexical(stmts, inner):
                for x in stmts:
                    if isinstance(x, (ast.Break, ast.Return)) and not (inner and isinstance(x, ast.Break)):
                        early.append(x)
                    elif isinstance(x, (ast.For, ast.While)):
                        lexical(x.body + x.orelse, True)
                    elif isinstance(x, (ast.FunctionDef, ast.ClassDef)):
                        continue
                    else:
                        for f in ("body", "orelse", "finalbody"):
                            lexical(getattr(x, f, []) or [], inner)
                        for hd in getattr(x, "handlers", []) or []:
                            lexical(hd.body, inner)
            lexical(st.body, False)
            nearly = 0
            for x in early:
                n = cfg.cfg_node(x)
                nearly += 1
                gs = [a for (_b, a) in guards_of(cfg, n)]
                if any(_relation(a, nf) == "nf>=max" for a in gs):
                    rep.ok(rule, eng.where(fi, x), "early exit of the sampling loop is control dependent on the budget guard")
                else:
                    rep.bad(rule, eng.where(fi, x), "%s|sampling-loop-break-not-budget" % fid, "sampling loop can stop early for a reason other than the budget: the point gets fewer samples than nsamples asked for")
            if fid.endswith("evaluate_objective"):
                rep.require_count(rule, "early exits of the sampling loop in %s" % fid, nearly, 1)
            # origin of the bound
            w = vfg.back([vfg.key_of(bound)], lambda s, k, i, d: k in ("copy", "default", "proj", "tup"))
            for leaf in sorted(w.leaves, key=str):
                lfi, lnode = vfg.node_expr(leaf)
                okc = False
                if isinstance(lnode, ast.Call):
                    lci = eng.res.calls.get(id(lnode))
                    if lci and lci.kind == "BUILTIN" and lci.libname == "max" and len(lnode.args) == 2:
                        roles = []
                        lit = None
                        for a in lnode.args:
                            aci = eng.res.calls.get(id(a)) if isinstance(a, ast.Call) else None
                            if aci is not None and aci.role and "nsamples" in aci.role.split("|"):
                                roles.append("cb")
                            elif const_value(a) is not None:
                                lit = const_value(a)
                        if roles == ["cb"] and lit == 1:
                            okc = True
                if okc:
                    n_max += 1
                    rep.ok(rule, vfg.describe(leaf), "sample count is max(nsamples(...), 1)", nontrivial=False)
                else:
                    rep.bad(rule, vfg.describe(leaf), "sample-count-origin|%s" % blame_short(vfg, leaf),
                            "number of samples originates from `%s`, not from max(nsamples(delta, rho, iter, nruns), 1)" % (short(lnode) if lnode is not None else str(leaf)),
                            path=w.path(leaf))
    rep.require_count(rule, "max(nsamples(..),1) origins", n_max, 3)      # x0, the main loop, a helper (today 27 copies)


def rule_nsamples_is_asked_the_documented_question(eng, rep, rule="C02-6b.nsamples-callback-is-called-with-delta-rho-iteration-restarts"):
    """'each point gets exactly the number of samples the nsamples callback asked for': the callback is documented as nsamples(delta, rho, iter, nrestarts).
    Every call of that role passes four positional arguments, in this order: a trust-region radius (a `.delta` field, or the initial radius before the controller
    exists), the lower bound on it (a `.rho` field, or the initial radius), the iteration counter (a local that is only ever set to a literal and stepped by one, or
    the literal 0 before the first iteration) and the run counter handed to solve_main -- no arithmetic on any of them.  25 call sites today: the sibling sites must
    agree, a swapped pair answers a different question and the point gets a different number of samples than the user's schedule prescribes."""
    from .common import arg_of
    sm = eng.fn("solver.solve_main")
    solve = eng.fn("solver.solve")
    run_params = set()
    for ci in eng.calls_in(solve):
        if any(t.fid == sm.fid for t in ci.targets):
            b = bind_call(ci.node, sm, False)
            for pn, e in b.params.items():
                if isinstance(e, ast.Name) and e.id == "nruns":
                    run_params.add(pn)
    rhobeg_names = {"rhobeg"}
    n = 0
    for fi in eng.prog.functions.values():
        for ci in eng.calls_in(fi):
            if not (ci.role and "nsamples" in ci.role.split("|")):
                continue
            node = ci.node
            n += 1
            site = eng.where(fi, node)
            if len(node.args) != 4 or node.keywords or any(isinstance(a, ast.Starred) for a in node.args):
                rep.bad(rule, site, "%s|nsamples-arity|%s" % (fi.fid, short(node, 40)), "`%s`: the callback is documented with four positional arguments (delta, rho, iter, nrestarts)" % short(node))
                continue
            cfg = eng.cfg(fi)
            a0, a1, a2, a3 = node.args
            probs = []
            if not ((isinstance(a0, ast.Attribute) and a0.attr == "delta") or (isinstance(a0, ast.Name) and (a0.id in rhobeg_names or "delta" in a0.id.lower()))):
                probs.append("first argument `%s` is not a trust-region radius (.delta)" % short(a0, 30))
            if not ((isinstance(a1, ast.Attribute) and a1.attr == "rho") or (isinstance(a1, ast.Name) and (a1.id in rhobeg_names or (a1.id.lower().startswith("rho") and "end" not in a1.id.lower())))):
                probs.append("second argument `%s` is not the lower bound on the radius (.rho)" % short(a1, 30))
            ok2 = const_value(a2) == 0
            if isinstance(a2, ast.Name) and a2.id in fi.all_params and fi.fid != sm.fid:
                # a helper that is handed the iteration counter: every caller must pass one
                callers = eng.calls_to(fi.fid)
                oks = []
                for cci in callers:
                    ae = arg_of(eng, cci.node, fi, a2.id)
                    ccfg = eng.cfg(cci.caller)
                    good = const_value(ae) == 0 if ae is not None else False
                    if isinstance(ae, ast.Name) and ae.id not in run_params:
                        try:
                            dd = ccfg.defs_reaching(cci.node, ae.id)
                        except Exception:
                            dd = []
                        kk = [(isinstance(ccfg.ast_of(x), ast.Assign) and const_value(ccfg.ast_of(x).value) is not None) or
                              (isinstance(ccfg.ast_of(x), ast.AugAssign) and isinstance(ccfg.ast_of(x).op, ast.Add) and const_value(ccfg.ast_of(x).value) == 1) for x in dd]
                        good = bool(kk) and all(kk)
                    oks.append(good)
                ok2 = bool(oks) and all(oks)
            elif isinstance(a2, ast.Name) and a2.id not in run_params:
                defs = cfg.defs_reaching(eng.prog.stmt_of(node) if cfg.has_ast(eng.prog.stmt_of(node)) else node, a2.id) if hasattr(cfg, "has_ast") else None
                if defs is None:
                    try:
                        defs = cfg.defs_reaching(node, a2.id)
                    except Exception:
                        defs = []
                kinds = []
                for dn in defs:
                    ds = cfg.ast_of(dn)
                    if isinstance(ds, ast.Assign) and const_value(ds.value) is not None:
                        kinds.append(True)
                    elif isinstance(ds, ast.AugAssign) and isinstance(ds.op, ast.Add) and const_value(ds.value) == 1:
                        kinds.append(True)
                    else:
                        kinds.append(False)
                ok2 = bool(kinds) and all(kinds)
            if not ok2:
                probs.append("third argument `%s` is not the iteration counter" % short(a2, 30))
            if not (isinstance(a3, ast.Name) and (a3.id in run_params or fi.fid != sm.fid and a3.id in fi.all_params)):
                probs.append("fourth argument `%s` is not the run counter handed to solve_main (%s)" % (short(a3, 30), "/".join(sorted(run_params))))
            if probs:
                rep.bad(rule, site, "%s|nsamples-arguments|%s" % (fi.fid, short(node, 60)), "`%s`: %s" % (short(node, 70), "; ".join(probs)))
            else:
                rep.ok(rule, site, "nsamples(delta, rho, iteration, restarts) in the documented order", nontrivial=False)
    rep.require_count(rule, "calls of the nsamples callback", n, 3)


def run(eng, rep):
    rep.explain("C02: objfun has one call site (T1); in every function that evaluates, each path reaches the call in typestate "
                "guard(NF<MAXFUN)->one NF increment->call (T3, set-of-states data-flow over the CFG); solve_main's unguarded x0 evaluation is covered "
                "by an entry obligation proved at each of its call sites (T2); soln.nf/nx slice back only to the counters (T4 role provenance on the "
                "value-flow graph) and no stale local counter is returned after hand-over; NX is incremented exactly once per invocation before the "
                "first call and the evaluated x is loop-invariant; every sampling-loop bound originates from max(nsamples(..),1).")
    rep.explain('Also decided: every early exit (break/return) lexically inside a sampling loop is control dependent on the budget guard (C02-6); all calls of one evaluate_objective invocation receive the same x expression (C02-5).')
    A = anchors(eng)
    if not rule_single_sink(eng, rep, A):
        return
    rep.guarded(rule_guard_incr_call, eng, rep, A)
    rep.guarded(rule_entry_obligation, eng, rep, A)
    nfw, nxw = rule_counter_plumbing(eng, rep, A)
    rep.guarded(rule_stale_locals, eng, rep, A, nfw, nxw)
    rep.guarded(rule_point_numbering, eng, rep, A)
    rep.guarded(rule_sample_count, eng, rep, A)
    rep.guarded(rule_nsamples_is_asked_the_documented_question, eng, rep)
