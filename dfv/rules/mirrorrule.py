"""Rule wrapper for T14 (dfv/mirror.py): lower-side and upper-side statements of a mirrored routine must be reflections of each other."""
from ..loader import AnalysisError
from .. import mirror
from .common import short

# minimum number of mirrored pairs / self-mirrors confirmed by reading on the pinned tree (fewer => the matcher lost its anchors)
MIN_PAIRS = {
    "trust_region.alt_trust_step": 8, "trust_region.trsbox": 3, "trust_region.d_within_bounds": 1, "trust_region.trsbox_linear": 5,
    "util.get_scale": 1, "util.random_directions_within_bounds": 4, "util.random_orthog_directions_within_bounds": 5,
    "controller.Controller.initialise_coordinate_directions": 3, "controller.Controller.done_with_current_rho": 2, "solver.solve": 4,
}


def rule_mirror(eng, rep, rule, fids):
    specs = dict((s.fid, s) for s in mirror.MIRRORED)
    for fid in fids:
        spec = specs.get(fid)
        if spec is None:
            raise AnalysisError("no mirror specification for %s" % fid)
        fi, matched, unmatched, left = mirror.check_function(eng, spec)
        for (a, b) in matched:
            rep.ok(rule, eng.where(fi, a.node), "`%s`  is the reflection of  `%s`" % (a.text[:60], b.text[:60]) if a is not b else "`%s` is its own reflection" % a.text[:70])
        for (s, mf, cand) in unmatched:
            rep.bad(rule, eng.where(fi, s.node), "%s|not-mirrored|%s" % (fid, s.text[:50]),
                    "under the reflection x -> -x (%s) the statement `%s` should turn into a statement equal to `%s = %s`, but %s" % (
                        spec.reason, s.text[:70], mf[1], str(mf[2])[:80],
                        ("the other side has `%s`" % cand.text[:70]) if cand is not None and cand is not s else "the other side has no such statement"))
        for u in left:
            rep.bad(rule, eng.where(fi, u.node), "%s|not-mirrored|%s" % (fid, u.text[:50]),
                    "the statement `%s` has no reflected twin on the other side (%s)" % (u.text[:70], spec.reason))
        rep.require_count(rule, "mirrored statements in %s" % fid, len(matched) + len(unmatched), MIN_PAIRS.get(fid, 1))
