"""C03 -- the returned solution is a point that was really evaluated (structural clauses).

Decided: soln.xmin_eval_num (and every plumbing field on its slice) is fed only by the point counter NX, sample
counts only by sample counters (role provenance, two roles solved together so that crossed arguments are both
found); at every record store the (point, residual, samples, number) arguments derive from the same evaluation;
the seven components of the final selection / the saved slot / the hard-restart merge travel together;
every stored objective is sumsq(residual) [+ h(point)] with h present exactly when it may be set; all exits select
through get_final_results.
"""
import ast

from ..loader import AnalysisError, ekey
from ..norm import atom_of, const_value, is_none
from ..resolve import bind_call
from ..roles import RoleSpec, solve_roles, blame_key, generic_neutral
from .. import tables
from .anchors import anchors
from .common import mentions, guards_of, short, assigned_names, arg_of
from .records import eval_sites, all_consumers, consumers_in, result_positions, EVAL, rule_snapshots_are_copies, rule_mean_over_samples_run
from .c02 import final_ctor
from .c04 import rule_exits_select


# ------------------------------------------------------------------------------------ roles
def nsamp_producers(eng, A):
    """Definitions of the per-evaluation sample counters: locals incremented by 1 right after a sink call."""
    vfg = eng.vfg
    prods = set()
    names = {}
    for ci in A.sink_calls:
        fi = ci.caller
        cfg = eng.cfg(fi)
        cn = cfg.cfg_node(ci.node)
        for n, d in cfg.g.nodes(data=True):
            st = d["ast"]
            if d["kind"] == "stmt" and isinstance(st, ast.AugAssign) and isinstance(st.target, ast.Name) and const_value(st.value) == 1 \
                    and isinstance(st.op, ast.Add):
                # directly follows the call
                preds = [p for p, e in cfg.pred(n, with_exc=False)]
                if cn in preds:
                    names.setdefault(fi.fid, set()).add(st.target.id)
    for fid, vs in names.items():
        fi = eng.prog.functions[fid]
        cfg = eng.cfg(fi)
        for n, d in cfg.g.nodes(data=True):
            st = d["ast"]
            if d["kind"] != "stmt":
                continue
            if isinstance(st, ast.AugAssign) and isinstance(st.target, ast.Name) and st.target.id in vs:
                prods.add(("d", fid, st.target.id, n))
            if isinstance(st, ast.Assign) and len(st.targets) == 1 and isinstance(st.targets[0], ast.Name) and st.targets[0].id in vs \
                    and isinstance(const_value(st.value), int):
                prods.add(("d", fid, st.targets[0].id, n))
    return prods, names


def rule_roles(eng, rep, A, rule="C03-1.evaluation-number-and-sample-count-provenance"):
    vfg = eng.vfg
    nfw, nxw, _a, _b = A.counter_closures()
    ci, b = final_ctor(eng, A)
    e_num = b.params.get("xmin_eval_num")
    e_jnum = b.params.get("jacmin_eval_nums")
    if e_num is None or isinstance(e_num, tuple):
        raise AnalysisError("final OptimResults(...) has no xmin_eval_num argument")
    for f in ("eval_num", "eval_num_save", "nsamples", "nsamples_save"):
        if ("f", "Model", f) not in vfg.preds:
            raise AnalysisError("anchor field Model.%s vanished" % f)
    nx_sinks = [vfg.key_of(e_num), ("f", "Model", "eval_num"), ("f", "Model", "eval_num_save")]
    if e_jnum is not None and not isinstance(e_jnum, tuple):
        nx_sinks.append(vfg.key_of(e_jnum))
    ns_prod, ns_names = nsamp_producers(eng, A)
    if not ns_prod:
        raise AnalysisError("no per-evaluation sample counter found next to the evaluation calls")

    def ns_neutral(vfg_, key):
        # constant sample counts written by the owning class itself (record replaced: 1 sample) -- checked by C17-3
        if key[0] == "e":
            fi, node = vfg_.info.get(key, (None, None))
            if node is not None and isinstance(const_value(node), int) and fi is not None and fi.cls == "Model":
                return True
        return False

    def int_array_cast(vfg_, key):
        # np.array([..], dtype=int) wrapper literals etc. are not neutral
        return False

    ns_sinks = [("f", "Model", "nsamples"), ("f", "Model", "nsamples_save")]
    nx_core = set(n for n in nxw.plain if n[0] in ("f", "d", "p"))
    specs = [
        RoleSpec("NX", nx_sinks, nxw.plain, foreign=set(ns_sinks) | ns_prod | set(n for n in nfw.plain if n[0] in ("f", "d", "p"))),
        RoleSpec("NSAMP", ns_sinks, ns_prod, neutral=ns_neutral, foreign=nx_core | set(nx_sinks[1:]) | set(n for n in nfw.plain if n[0] in ("f", "d", "p")),
                 follow_kinds=("copy", "proj", "tup", "index", "elem", "sel", "default", "incr")),
    ]
    blames, stats = solve_roles(vfg, specs)
    seen = set()
    for bl in blames:
        key = blame_key(vfg, bl)
        if key in seen:
            continue
        seen.add(key)
        what = {"NX": "an evaluation-point number (the NX counter)", "NSAMP": "a sample count"}[bl.role]
        fi, node = vfg.node_expr(bl.src)
        rep.bad(rule, vfg.describe(bl.src), key,
                "`%s` is not %s but flows into %s" % (short(node, 50) if node is not None else vfg.describe(bl.src), what, _port_text(bl.dst)),
                path=bl.path[-14:])
    if not blames:
        rep.ok(rule, eng.where(A.solve, ci.node), "soln.xmin_eval_num, jacmin_eval_nums, Model.eval_num[_save] are fed only by the NX counter; "
               "Model.nsamples[_save] only by sample counters (%s)" % stats)
    rep.extra["role_slices"] = stats
    for nm in ("NX", "NSAMP"):
        if stats.get(nm, {}).get("producers_reached", 0) < 1:
            rep.unknown(rule, "package", "role %s: no producer reached from its sinks -- slice is empty" % nm)


def _port_text(dst):
    if dst[0] == "p":
        return "parameter %s of %s" % (dst[2], dst[1])
    if dst[0] == "f":
        return "field %s.%s" % (dst[1], dst[2])
    if dst[0] == "d":
        return "local %s of %s" % (dst[2], dst[1])
    if dst[0] == "r":
        return "the result of %s" % dst[1]
    return "the slice of soln.xmin_eval_num"


# ------------------------------------------------------------------------------------ record coherence
def rule_record_coherence(eng, rep, A, rule="C03-3.record-coherence-at-stores"):
    pos = result_positions(eng)
    sites = eval_sites(eng)
    cons = all_consumers(eng)
    rep.require_count(rule, "record stores (change_point/add_new_point/save_point calls)", len(cons), 20)
    nfw, nxw, _a, _b = A.counter_closures()
    vfg = eng.vfg
    by_fn = {}
    for es in sites:
        by_fn.setdefault(es.fi.fid, []).append(es)
    for c in cons:
        fi, cfg = c.fi, c.cfg
        site = eng.where(fi, c.call)
        rarg = c.arg("rvec")
        narg = c.arg("nsamples")
        earg = c.arg("eval_num")
        xarg = c.arg("x")
        # which evaluation does the residual come from?
        src = None
        for es in by_fn.get(fi.fid, []):
            for (un, names) in es.unpacks:
                if rarg is not None and names and names[0] in mentions(rarg):
                    for sub in ast.walk(rarg):
                        if isinstance(sub, ast.Name) and sub.id == names[0] and un in cfg.defs_reaching(sub, sub.id):
                            src = (es, un, names)
        if src is None:
            # a store that does not follow an evaluation in this function: incumbent save / forwarded parameters
            _non_eval_store(eng, rep, rule, c, site)
            continue
        es, un, names = src
        problems = []
        # samples
        if narg is not None:
            if not (isinstance(narg, ast.Name) and narg.id == names[2] and un in cfg.defs_reaching(narg, narg.id)):
                problems.append(("nsamples", "sample count `%s` is not the number of samples of this evaluation (%s)" % (ekey(narg), names[2])))
        # evaluation number: a read of the NX counter with no other evaluation in between
        if earg is not None:
            veh = earg
            if hasattr(c, "inner_arg"):
                ie = c.inner_arg("eval_num")
                # through a helper: the read of the counter sits in the helper -- unless the helper merely forwards one of its own parameters,
                # in which case the call-site argument is the read
                veh = c.mapping.get(ie.id, ie) if isinstance(ie, ast.Name) and ie.id in c.mapping else ie
            k = vfg.key_of(veh)
            is_nx = k in nxw.plain or any(s in nxw.plain for (s, kind, info) in vfg.preds.get(k, []) if kind == "copy")
            captured = None
            if isinstance(earg, ast.Name) and earg.id in es.extra_names.get(un, []) and un in cfg.defs_reaching(earg, earg.id):
                # the number was captured in the statement that made the evaluation and parked with its result
                cx = es.extra_exprs[es.extra_names[un].index(earg.id)]
                ck = vfg.key_of(cx)
                captured = ck in nxw.plain or any(s in nxw.plain for (s, kind, info) in vfg.preds.get(ck, []) if kind == "copy")
            if captured:
                pass          # read of the point counter right after its own evaluation: no other evaluation can lie between
            elif not is_nx:
                problems.append(("eval_num", "evaluation number `%s` is not a read of the point counter" % ekey(earg)))
            else:
                others = [e2.node for e2 in by_fn.get(fi.fid, []) if e2.node != es.node] + [es.node]
                # path from the evaluation call to this store that passes another evaluation call (or the same one again)
                for o in others:
                    first = cfg.cycle_through(es.node, [c.node]) if o == es.node else cfg.path_avoiding(es.node, o, [c.node])
                    if first is not None and cfg.path_avoiding(o, c.node, []) is not None:
                        if o == es.node and es.mode == "direct":
                            # same call again means a new loop iteration: the unpack re-defines the results, fine
                            continue
                        problems.append(("eval_num-stale", "the point counter is read after another evaluation (%s) has advanced it: the record is labelled with a later point's number"
                                         % short(cfg.ast_of(o), 50)))
                        break
        # point
        if xarg is not None and es.x_expr is not None:
            okx = _same_point(eng, cfg, c, xarg, es)
            if okx is False:
                problems.append(("x", "stored point `%s` is not the point handed to this evaluation (`%s`)" % (short(xarg, 40), short(es.x_expr, 40))))
            elif okx is None:
                rep.note(rule, site, "point argument `%s` not related syntactically to the evaluated `%s`" % (short(xarg, 40), short(es.x_expr, 40)))
        if problems:
            for (what, msg) in problems:
                rep.bad(rule, site, "%s|%s|%s" % (fi.fid, c.target.qualname.split(".")[-1], what + ("|" + es.mode if es.mode != "direct" else "")), msg)
        else:
            rep.ok(rule, site, "point, residual, sample count and evaluation number all derive from the evaluation at %s" % eng.where(fi, es.call))


def _pair_at_every_call_site(eng, fi, bufp, cntp, pos):
    """every call of fi binds (bufp, cntp) to the residual buffer and the samples-run counter of one and the same evaluation"""
    from ..resolve import bind_call
    sites = eng.res.callers.get(fi.fid, [])
    if not sites:
        return False
    for ci in sites:
        caller = ci.caller
        ccfg = eng.cfg(caller)
        bound = any(bd for (tt, bd) in eng.res.call_targets(caller, ci.node) if tt.fid == fi.fid)
        b = bind_call(ci.node, fi, bound and fi.is_method)
        eb, ec = b.params.get(bufp), b.params.get(cntp)
        if not (isinstance(eb, ast.Name) and isinstance(ec, ast.Name)):
            return False
        ok = False
        for es in eval_sites(eng):
            if es.fi.fid != caller.fid:
                continue
            for (un, names) in es.unpacks:
                if len(names) == len(pos) and names[0] == eb.id and names[2] == ec.id and un in ccfg.defs_reaching(eb, eb.id) and un in ccfg.defs_reaching(ec, ec.id):
                    ok = True
        if not ok:
            return False
    return True


def rule_extra_samples_same_slot(eng, rep, rule="C03-3c.extra-samples-go-to-the-slot-of-their-point"):
    """Sibling agreement at every re-sampling site: rows 1.. of an evaluation buffer are averaged (Model.add_new_sample) into the very slot that
    received row 0 of the same buffer (change_point(k, ..) -> the same k; add_new_point -> npt() - 1), in a loop `for i in range(1, <samples run>)`."""
    from ..resolve import bind_call
    ans = eng.fn("model.Model.add_new_sample")
    pos = result_positions(eng)
    n = 0
    for ci in eng.calls_to(ans.fid):
        fi = ci.caller
        cfg = eng.cfg(fi)
        node = cfg.cfg_node(ci.node)
        site = eng.where(fi, ci.node)
        bound = any(b for (tt, b) in eng.res.call_targets(fi, ci.node) if tt.fid == ans.fid)
        b = bind_call(ci.node, ans, bound and ans.is_method)
        karg, rarg = b.params.get(ans.posparams[1]), b.params.get(ans.posparams[2])
        if karg is None or rarg is None or isinstance(karg, tuple) or isinstance(rarg, tuple):
            rep.unknown(rule, site, "cannot bind the arguments of add_new_sample")
            continue
        n += 1
        # the residual: buf[i, :] with i the variable of the enclosing loop
        buf = ivar = None
        if isinstance(rarg, ast.Subscript) and isinstance(rarg.value, ast.Name):
            sl = rarg.slice.elts[0] if isinstance(rarg.slice, ast.Tuple) else rarg.slice
            if isinstance(sl, ast.Name):
                buf, ivar = rarg.value.id, sl.id
        loops = [(h, st) for (h, kind, st) in cfg.loops if kind == "for" and node in cfg.loop_nodes(h) and isinstance(st.target, ast.Name) and st.target.id == ivar]
        sliced = None
        if buf is None and isinstance(rarg, ast.Name):
            # `for row in buf[1:cnt, :]: add_new_sample(k, row)` -- iteration over the slice itself
            for (h_, kind, st_) in cfg.loops:
                if kind == "for" and node in cfg.loop_nodes(h_) and isinstance(st_.target, ast.Name) and st_.target.id == rarg.id \
                        and isinstance(st_.iter, ast.Subscript) and isinstance(st_.iter.value, ast.Name):
                    sl = st_.iter.slice.elts[0] if isinstance(st_.iter.slice, ast.Tuple) else st_.iter.slice
                    if isinstance(sl, ast.Slice) and sl.step is None:
                        buf, sliced = st_.iter.value.id, (h_, st_, sl)
        if sliced is not None:
            loops = [(sliced[0], sliced[1])]
        if buf is None or not loops:
            in_while = any(kind == "while" and node in cfg.loop_nodes(h_) for (h_, kind, _st) in cfg.loops)
            if in_while and buf is not None:
                rep.unknown(rule, site, "the extra samples `%s` are added by a while loop: its trip count is not decided by this rule" % short(rarg))
                continue
            rep.bad(rule, site, "%s|extra-sample-shape|%s" % (fi.fid, short(rarg, 25)), "the extra sample `%s` is not row i of an evaluation buffer inside `for i in range(1, samples run)`" % short(rarg))
            continue
        h, st = loops[-1]
        # the evaluation this buffer comes from
        cnt = None
        for es in eval_sites(eng):
            if es.fi.fid != fi.fid:
                continue
            for (un, names) in es.unpacks:
                if len(names) == len(pos) and names[0] == buf and un in cfg.defs_reaching(rarg.value if sliced is None else st.iter.value, buf):
                    cnt = names[2]
        if cnt is None and buf in fi.all_params:
            # a helper that receives the buffer together with its counter: the pair is established at the call sites
            it0 = st.iter
            cand = None
            if sliced is None and isinstance(it0, ast.Call) and len(it0.args) == 2 and isinstance(it0.args[1], ast.Name):
                cand = it0.args[1].id
            elif sliced is not None and isinstance(sliced[2].upper, ast.Name):
                cand = sliced[2].upper.id
            if cand in fi.all_params and _pair_at_every_call_site(eng, fi, buf, cand, pos):
                cnt = cand
        it = st.iter
        bufnode = rarg.value if sliced is None else st.iter.value
        okloop = isinstance(it, ast.Call) and isinstance(it.func, ast.Name) and it.func.id == "range" and len(it.args) == 2 and const_value(it.args[0]) == 1 \
            and cnt is not None and ekey(it.args[1]) == cnt
        if sliced is not None:
            sl = sliced[2]
            okloop = cnt is not None and sl.lower is not None and const_value(sl.lower) == 1 and sl.upper is not None and ekey(sl.upper) == cnt
        if not okloop:
            rep.bad(rule, eng.where(fi, st), "%s|extra-sample-loop|%s" % (fi.fid, short(it, 30)),
                    "extra samples are taken over `%s`, not over range(1, %s): a sample is skipped, averaged twice, or an unfilled row is averaged in" % (short(it), cnt or "<samples run>"))
            continue
        # the store of row 0 that dominates this loop
        firsts = []
        for c in consumers_in(eng, fi):
            r0 = c.arg("rvec")
            if c.target.fid == "model.Model.save_point" or r0 is None:
                continue
            if isinstance(r0, ast.Subscript) and isinstance(r0.value, ast.Name) and r0.value.id == buf and cfg.dominates(c.node, h) \
                    and set(cfg.defs_reaching(r0.value, buf)) == set(cfg.defs_reaching(bufnode, buf)):
                sl0 = r0.slice.elts[0] if isinstance(r0.slice, ast.Tuple) else r0.slice
                if const_value(sl0) == 0:
                    firsts.append(c)
        if len(firsts) != 1:
            rep.bad(rule, site, "%s|extra-sample-no-first-store" % fi.fid, "no single change_point/add_new_point storing row 0 of `%s` dominates this re-sampling loop (found %d)" % (buf, len(firsts)))
            continue
        c0 = firsts[0]
        if c0.target.fid == "model.Model.add_new_point":
            karg_x = karg
            if isinstance(karg, ast.Name):
                # `k_added = <model>.npt() - 1` hoisted out of the loop: fine if it is read after the point was appended
                kd = cfg.defs_reaching(karg, karg.id)
                if len(kd) == 1 and isinstance(cfg.ast_of(kd[0]), ast.Assign) and cfg.dominates(c0.node, kd[0]):
                    karg_x = cfg.ast_of(kd[0]).value
            okk = ekey(karg_x).replace(" ", "").endswith(".npt()-1")
            want = "<model>.npt() - 1 (the point just appended)"
        else:
            k0 = c0.arg("k")
            okk = k0 is not None and ekey(k0) == ekey(karg)
            if okk:
                for sub in ast.walk(karg):
                    if isinstance(sub, ast.Name):
                        twin = [x for x in ast.walk(k0) if isinstance(x, ast.Name) and x.id == sub.id]
                        if twin and set(cfg.defs_reaching(sub, sub.id)) != set(cfg.defs_reaching(twin[0], sub.id)):
                            okk = False
            want = "`%s` (the slot that received row 0 at %s)" % (short(k0, 30) if k0 is not None else "?", eng.where(fi, c0.call))
        if okk:
            rep.ok(rule, site, "rows 1.. of `%s` are averaged into %s" % (buf, want))
        else:
            rep.bad(rule, site, "%s|extra-sample-other-slot|%s" % (fi.fid, short(karg, 25)),
                    "extra samples of this point are averaged into slot `%s` but its first sample was stored in %s: the residuals of two different points are mixed" % (short(karg, 30), want))
    rep.require_count(rule, "re-sampling sites (add_new_sample calls)", n, 1)      # (today 10 copies of one block; one helper is enough)


def _non_eval_store(eng, rep, rule, c, site):
    """Stores that do not follow an evaluation in the same function: all record arguments must be indexed by the
    same record (kopt), or be forwarded parameters."""
    args = dict((p, c.arg(p)) for p in ("x", "rvec", "nsamples", "eval_num"))
    texts = dict((p, ekey(a)) for p, a in args.items() if a is not None)
    fwd = [p for p, a in args.items() if a is not None and isinstance(a, ast.Name) and a.id in c.fi.all_params]
    if fwd and all(p in fwd or (p == "eval_num" and ekey(a).endswith(".nx")) for p, a in args.items() if a is not None):
        rep.ok(rule, site, "forwards its own parameters (checked at the callers)", nontrivial=False)
        return
    from .records import wrapper_inner_consumers
    if not hasattr(c, "inner") and any(ic.call is c.call for ic in wrapper_inner_consumers(eng, c.fi)):
        rep.ok(rule, site, "a helper that stores (expressions over) its own parameters: every call of %s is checked as a store at the call site" % c.fi.qualname, nontrivial=False)
        return
    # kopt record: xopt(), ropt(), nsamples[kopt], eval_num[kopt]
    exp = {"x": "xopt", "rvec": "ropt", "nsamples": "nsamples", "eval_num": "eval_num"}
    bad = []
    for p, a in args.items():
        if a is None:
            continue
        m = mentions(a)
        if exp[p] not in m:
            bad.append((p, ekey(a)))
        elif p in ("nsamples", "eval_num") and "kopt" not in m:
            bad.append((p, ekey(a)))
    if bad:
        for (p, t) in bad:
            rep.bad(rule, site, "%s|%s|incumbent-%s" % (c.fi.fid, c.target.qualname.split(".")[-1], p),
                    "incumbent record stored with %s = `%s` (expected the kopt entry of the %s array)" % (p, t[:50], exp[p]))
    else:
        rep.ok(rule, site, "incumbent record: all components are the kopt entries")


def _same_point(eng, cfg, c, xarg, es):
    """True / False / None(undecided): is xarg the point of evaluation es (absolute x, or its relative twin)?"""
    fi = c.fi
    xe = es.x_expr
    tname = c.target.qualname.split(".")[-1]
    absolute = tname == "save_point"
    if absolute:
        if isinstance(xarg, ast.Name) and isinstance(xe, ast.Name):
            if xarg.id != xe.id:
                return False
            if es.mode == "direct":
                return set(cfg.defs_reaching(xarg, xarg.id)) == set(cfg.defs_reaching(xe, xe.id))
            if _def_text(cfg, xarg) == _def_text(cfg, xe):
                return True
            # parked results: the point is recomputed from the loop variable; compare with the loop variables renamed (a drain loop uses its own)
            pa, pe = _def_text_loopvar(eng, cfg, xarg), _def_text_loopvar(eng, cfg, xe)
            return pa is not None and pa == pe
        if isinstance(xe, ast.Name):
            # a recomputation is accepted only if it is textually the defining expression of the evaluated point
            return ekey(xarg) == _def_text(cfg, xe)
        return None
    # relative: X - xbase with X the evaluated x, or the argument of as_absolute_coordinates that produced x
    if isinstance(xarg, ast.BinOp) and isinstance(xarg.op, ast.Sub) and isinstance(xarg.left, ast.Name) and isinstance(xe, ast.Name):
        if xarg.left.id != xe.id:
            return False
        return "xbase" in ekey(xarg.right)
    if isinstance(xe, ast.Name):
        dt = _def_expr(cfg, xe)
        if isinstance(dt, ast.Call) and isinstance(dt.func, ast.Attribute) and dt.func.attr == "as_absolute_coordinates" and dt.args:
            inner = dt.args[0]
            if ekey(inner) == ekey(xarg):
                if isinstance(xarg, ast.Name):
                    return set(cfg.defs_reaching(xarg, xarg.id)) == set(cfg.defs_reaching(inner, inner.id))
                return True
            return False
    return None


def _def_text_loopvar(eng, cfg, name_node):
    """text of the defining expression of a name (temporaries looked through) with the variable of the innermost enclosing `for` replaced by a placeholder"""
    import re
    from .common import expand_locals
    e = _def_expr(cfg, name_node)
    if e is None:
        return None
    defs = cfg.defs_reaching(name_node, name_node.id)
    st = cfg.ast_of(defs[0])
    e = expand_locals(cfg, st, e)
    n = defs[0]
    loops = [(h, lst) for (h, kind, lst) in cfg.loops if kind == "for" and n in cfg.loop_nodes(h)]
    # (a branch that returns is not in the natural loop: fall back to lexical nesting)
    if not loops:
        loops = [(h, lst) for (h, kind, lst) in cfg.loops if kind == "for" and any(x is st for x in ast.walk(lst))]
    else:
        loops += [(h, lst) for (h, kind, lst) in cfg.loops if kind == "for" and any(x is st for x in ast.walk(lst)) and (h, lst) not in loops]
    if not loops:
        return ekey(e)
    h, lst = min(loops, key=lambda hl: len(list(ast.walk(hl[1]))))
    if not isinstance(lst.target, ast.Name):
        return ekey(e)
    return re.sub(r"\b%s\b" % re.escape(lst.target.id), "LOOPVAR", ekey(e))


def _def_expr(cfg, name_node):
    defs = cfg.defs_reaching(name_node, name_node.id)
    if len(defs) == 1:
        st = cfg.ast_of(defs[0])
        if isinstance(st, ast.Assign) and len(st.targets) == 1:
            return st.value
    return None


def _def_text(cfg, name_node):
    e = _def_expr(cfg, name_node)
    return ekey(e) if e is not None else None


# ------------------------------------------------------------------------------------ tuple coherence
def rule_tuple_coherence(eng, rep, A, rule="C03-4.result-components-travel-together"):
    sp = eng.fn("model.Model.save_point")
    gf = eng.fn("model.Model.get_final_results")
    selfn = sp.posparams[0]
    cfg = eng.cfg(sp)
    # the save slots: fields written in save_point
    slots = {}
    for n, d in cfg.g.nodes(data=True):
        st = d["ast"]
        if d["kind"] == "stmt" and isinstance(st, ast.Assign) and isinstance(st.targets[0], ast.Attribute) and isinstance(st.targets[0].value, ast.Name) \
                and st.targets[0].value.id == selfn:
            slots[st.targets[0].attr] = n
    if not rep.require_count(rule, "saved-slot fields written by save_point", len(slots), 6):
        return
    conds = set(frozenset((b, lab) for (b, lab) in cfg.control_closure(n)) for n in slots.values())
    if len(conds) == 1:
        rep.ok(rule, eng.where(sp), "all %d slot fields are written under one condition" % len(slots))
    else:
        rep.bad(rule, eng.where(sp), "model.Model.save_point|slot-fields-split", "the saved-slot fields %s are not all written under the same condition" % sorted(slots))
    # get_final_results: each return takes everything from the slots or nothing from them
    nret = 0
    lens = set()
    gcfg = eng.cfg(gf)
    from .common import expand_locals
    expanded = {}
    for node in eng.prog.own_nodes(gf):
        if isinstance(node, ast.Return) and isinstance(node.value, ast.Tuple):
            expanded[id(node)] = [expand_locals(gcfg, node, e) for e in node.value.elts]      # explaining variables are looked through
    for node in eng.prog.own_nodes(gf):
        if isinstance(node, ast.Return) and isinstance(node.value, ast.Tuple):
            nret += 1
            lens.add(len(node.value.elts))
            kinds = []
            for e in expanded[id(node)]:
                m = mentions(e)
                kinds.append("slot" if m & set(slots) else "live")
            if len(set(kinds)) == 1:
                rep.ok(rule, eng.where(gf, node), "returns a coherent record (all %s)" % kinds[0])
            else:
                rep.bad(rule, eng.where(gf, node), "model.Model.get_final_results|mixed-record",
                        "returned tuple mixes saved-slot and live components: %s" % list(zip([short(e, 20) for e in node.value.elts], kinds)))
            if kinds and kinds[0] == "live":
                # live record: every per-point component is the kopt entry
                for e in expanded[id(node)]:
                    t = ekey(e)
                    if any(f in t for f in ("nsamples", "eval_num[", "fval_v", "objval[")) and "kopt" not in t:
                        rep.bad(rule, eng.where(gf, node), "model.Model.get_final_results|live-not-kopt|%s" % t[:30], "live component `%s` is not the incumbent's entry" % t)
    rep.require_count(rule, "returns of get_final_results", nret, 2)
    if len(lens) != 1:
        rep.bad(rule, eng.where(gf), "model.Model.get_final_results|arity-differs", "returns have different lengths %s" % sorted(lens))
    # positions: slot order and live order agree position-wise by role (x, r, obj, jac, nsamples, eval_num, jac_eval_nums)
    rets = [n for n in eng.prog.own_nodes(gf) if isinstance(n, ast.Return) and isinstance(n.value, ast.Tuple)]
    if len(rets) == 2 and len(lens) == 1:
        stems = [("x", "xopt", "xsave"), ("r", "ropt", "rsave"), ("obj", "objopt", "objsave"), ("jac", "model_jac", "jacsave"),
                 ("nsamples", "nsamples", "nsamples_save"), ("eval_num", "eval_num", "eval_num_save"), ("jac_eval_nums", "model_jac_eval_nums", "jacsave_eval_nums")]
        for r in rets:
            for i, e in enumerate(expanded[id(r)]):
                if i >= len(stems):
                    break
                m = mentions(e)
                role, live, slot = stems[i]
                if not (live in m or slot in m):
                    rep.bad(rule, eng.where(gf, r), "model.Model.get_final_results|position-%d-%s" % (i, role),
                            "position %d of the result should carry %s but is `%s`" % (i, role, short(e, 40)))
    # merge in solve
    solve = A.solve
    scfg = eng.cfg(solve)
    from .selection import selection_sites
    merge = [s for s in selection_sites(eng) if s.name == "merge"][0]
    calls = [ci for ci in A.solve_main_calls]
    unpack = {}
    for ci in calls:
        st = eng.prog.stmt_of(ci.node)
        for i, nme in enumerate(assigned_names(st.targets[0])):
            unpack.setdefault(nme, set()).add(i)
    tup = merge.anchor
    if not (isinstance(tup, ast.Assign) and isinstance(tup.targets[0], (ast.Tuple, ast.List)) and isinstance(tup.value, ast.Tuple)):
        rep.unknown(rule, eng.where(solve, merge.ifnode), "merge assignment not found")
        return
    tnames = assigned_names(tup.targets[0])
    vnames = [ekey(v) for v in tup.value.elts]
    okm = True
    for t, v in zip(tnames, vnames):
        if unpack.get(t) != unpack.get(v) or not unpack.get(t) or len(unpack.get(t)) != 1:
            okm = False
            rep.bad(rule, eng.where(solve, tup), "solver.solve|merge-crossed|%s" % t, "merge assigns %s (result position %s) from %s (position %s)" % (t, sorted(unpack.get(t, [])), v, sorted(unpack.get(v, []))))
    need = set()
    ci, b = final_ctor(eng, A)
    for p in ("xmin", "rmin", "objmin", "xmin_eval_num"):
        e = b.params.get(p)
        for sub in ast.walk(e):
            if isinstance(sub, ast.Name) and sub.id in unpack:
                need.add(sub.id)
    missing = need - set(tnames)
    if missing:
        okm = False
        rep.bad(rule, eng.where(solve, tup), "solver.solve|merge-incomplete|%s" % "+".join(sorted(missing)), "merge does not replace %s together with the objective" % sorted(missing))
    if okm:
        rep.ok(rule, eng.where(solve, tup), "hard-restart merge replaces %s together, position by position" % tnames)


# ------------------------------------------------------------------------------------ objective construction
def rule_objective_construction(eng, rep, A):
    rule = "C03-5.objective-is-sumsq-plus-h"
    n = 0
    # (a) stores into Model.objval[...] / Model.objsave and local `obj` accumulators in Model methods
    model = eng.prog.cls("Model")
    for m in sorted(model.methods.values(), key=lambda f: f.qualname):
        cfg = eng.cfg(m)
        selfn = m.posparams[0] if m.posparams else None
        for nnode, d in cfg.g.nodes(data=True):
            st = d["ast"]
            if d["kind"] != "stmt" or not isinstance(st, ast.Assign) or len(st.targets) != 1:
                continue
            t = st.targets[0]
            ttxt = ekey(t)
            is_store = (isinstance(t, ast.Subscript) and ekey(t.value) == "%s.objval" % selfn) or ttxt == "%s.objsave" % selfn
            if not is_store:
                continue
            if is_none(st.value):
                continue  # empty slot
            if isinstance(t, ast.Subscript) and isinstance(st.value, ast.Subscript) and ekey(st.value.value) == ekey(t.value):
                continue  # permutation of existing entries (swap): values unchanged
            cs = eng.res.callers.get(m.fid, [])
            # a store extracted into a private step of Model stands for one store per call site of that step
            n += len(cs) if cs and all(c.caller.cls == "Model" for c in cs) else 1
            site = eng.where(m, st)
            _check_obj_value(eng, rep, rule, m, cfg, nnode, st.value, site, ttxt)
    # (b) the obj position of solve_main's returns that do not come from get_final_results
    sm = A.solve_main
    cfg = eng.cfg(sm)
    for nnode, d in cfg.g.nodes(data=True):
        st = d["ast"]
        if d["kind"] == "stmt" and isinstance(st, ast.Return) and isinstance(st.value, ast.Tuple) and len(st.value.elts) > 2:
            e = st.value.elts[2]
            if isinstance(e, ast.Name):
                defs = cfg.defs_reaching(e, e.id)
                if all(isinstance(cfg.ast_of(dn), ast.Assign) and isinstance(cfg.ast_of(dn).targets[0], (ast.Tuple, ast.List)) for dn in defs):
                    continue  # unpacked from get_final_results: covered by (a)
            n += 1
            _check_obj_value(eng, rep, rule, sm, cfg, nnode, e, eng.where(sm, st), "returned obj")
            # the residual returned next to it is the one the objective was computed from
            rres = st.value.elts[1]
            used = set()
            exprs = [e]
            if isinstance(e, ast.Name):
                exprs = [cfg.ast_of(dn).value for dn in cfg.defs_reaching(e, e.id) if isinstance(cfg.ast_of(dn), (ast.Assign, ast.AugAssign))]
            for ex in exprs:
                for sub in ast.walk(ex):
                    if isinstance(sub, ast.Call) and _is_sumsq(eng, sub) and sub.args:
                        used.add(ekey(sub.args[0]))
            if used and ekey(rres) not in used:
                rep.bad(rule, eng.where(sm, st), "solver.solve_main|returned-residual-is-not-the-one-summed|%s" % ekey(rres)[:20],
                        "this return hands back the residual `%s` but the objective next to it is sumsq(%s): soln.obj != sum(soln.resid^2), and resid is not the mean over the samples" % (ekey(rres), sorted(used)[0]))
            elif used:
                rep.ok(rule, eng.where(sm, st), "returned residual `%s` is the vector whose sum of squares is the returned objective" % ekey(rres))
    rep.require_count(rule, "objective stores", n, 5)


def _is_sumsq(eng, e):
    return isinstance(e, ast.Call) and any(t.fid == "util.sumsq" for t in eng.res.calls[id(e)].targets)


def _is_hcall(eng, e, depth=2):
    """A call of the user's regulariser h, or of an internal wrapper every return of which is such a call (helper extraction)."""
    if isinstance(e, ast.Call):
        ci = eng.res.calls.get(id(e))
        if ci is not None and ci.role is not None and "h" in ci.role.split("|"):
            return True
        if ci is not None and ci.targets and depth > 0:
            for t in ci.targets:
                rets = [r for r in eng.prog.own_nodes(t) if isinstance(r, ast.Return)]
                if not rets or not all(r.value is not None and _is_hcall(eng, r.value, depth - 1) for r in rets):
                    return False
            return True
    return False


def _check_obj_value(eng, rep, rule, fi, cfg, at_node, value, site, what):
    """value must be sumsq(R) [+ h(..)], or a local accumulator built as  v = sumsq(R); if h is not None: v += h(..)."""
    fid = fi.fid
    gs_site = guards_of(cfg, at_node)
    h_none_here = any(a.op == "is" and is_none(a.rhs) and ekey(a.lhs).split(".")[-1] == "h" for (_b, a) in gs_site)
    terms = _terms(value)
    base = [t for t in terms if _is_sumsq(eng, t)]
    hterm = [t for t in terms if _is_hcall(eng, t)]
    other = [t for t in terms if t not in base and t not in hterm]
    if isinstance(value, ast.Name):
        # accumulator local
        defs = cfg.defs_reaching(cfg.ast_of(at_node), value.id)
        base_ok = h_added = False
        h_guard_ok = True
        for dn in defs:
            st = cfg.ast_of(dn)
            if isinstance(st, ast.Assign) and _is_sumsq(eng, st.value):
                base_ok = True
            elif isinstance(st, ast.AugAssign) and isinstance(st.op, ast.Add) and _is_hcall(eng, st.value):
                h_added = True
                gs = guards_of(cfg, dn)
                if not any(a.op == "isnot" and is_none(a.rhs) and ekey(a.lhs).split(".")[-1] == "h" for (_b, a) in gs):
                    h_guard_ok = False
                # the base assignment must reach the augmented one
                prev = cfg.defs_reaching(st.value, value.id) if False else cfg.reaching_defs()[dn]
                if any(v == value.id and isinstance(cfg.ast_of(p), ast.Assign) and _is_sumsq(eng, cfg.ast_of(p).value) for (v, p) in prev):
                    base_ok = True
            elif isinstance(st, ast.Assign) and isinstance(st.targets[0], (ast.Tuple, ast.List)):
                return  # comes from another record (get_final_results)
            else:
                rep.bad(rule, site, "%s|objective-other-def|%s" % (fid, what[:30]), "%s is built from `%s`" % (what, short(st, 50)))
                return
        if base_ok and h_added and h_guard_ok:
            rep.ok(rule, site, "%s = sumsq(residual), plus h(point) exactly when h is set" % what)
        elif base_ok and not h_added:
            rep.bad(rule, site, "%s|objective-without-h|%s" % (fid, what[:30]), "%s is sumsq(residual) without the regulariser term" % what)
        else:
            rep.bad(rule, site, "%s|objective-shape|%s" % (fid, what[:30]), "%s is not sumsq(residual) [+ h(point)]" % what)
        return
    if len(base) != 1 or other:
        # in-place accumulator on a subscript target: X = sumsq(..) ; if h: X += h(..)
        rep.bad(rule, site, "%s|objective-shape|%s" % (fid, what[:30]), "%s is `%s`, not sumsq(residual) [+ h(point)]" % (what, short(value, 50)))
        return
    if hterm:
        rep.ok(rule, site, "%s = sumsq(residual) + h(point)" % what)
        return
    if h_none_here:
        rep.ok(rule, site, "%s = sumsq(residual) on a path where h is None" % what)
        return
    # look for a following guarded `target += h(...)` on the same target text
    st0 = cfg.ast_of(at_node)
    ttxt = ekey(st0.targets[0]) if isinstance(st0, ast.Assign) else None
    follow = False
    if ttxt is not None:
        for n2, d2 in cfg.g.nodes(data=True):
            s2 = d2["ast"]
            if d2["kind"] == "stmt" and isinstance(s2, ast.AugAssign) and ekey(s2.target) == ttxt and isinstance(s2.op, ast.Add) and _is_hcall(eng, s2.value):
                gs = guards_of(cfg, n2)
                if any(a.op == "isnot" and is_none(a.rhs) and ekey(a.lhs).split(".")[-1] == "h" for (_b, a) in gs) and cfg.path_avoiding(at_node, n2, []) is not None:
                    # the only guard between them is the h test
                    extra = [a for (_b, a) in gs if (_b, a) not in gs_site and not (a.op == "isnot" and ekey(a.lhs).split(".")[-1] == "h")]
                    if not [a for a in extra if a.key() not in [x.key() for (_q, x) in gs_site]]:
                        follow = True
    if follow:
        rep.ok(rule, site, "%s = sumsq(residual), then += h(point) under `h is not None`" % what)
    else:
        rep.bad(rule, site, "%s|objective-without-h|%s" % (fid, what[:30]), "%s is sumsq(residual) without the regulariser term although h may be set" % what)


def _terms(e):
    if isinstance(e, ast.BinOp) and isinstance(e.op, ast.Add):
        return _terms(e.left) + _terms(e.right)
    return [e]


def rule_h_at_the_evaluated_point(eng, rep, rule="C03-5b.stored-objective-adds-h-at-the-point-that-was-evaluated"):
    """soln.obj = sum(resid^2) + h(soln.x), where soln.x is the point objfun saw: the clipped / projected point.  Every Model method that stores an objective value
    therefore has to hand h the same exact in-box value that is handed to objfun (frame interpreter, exactness facts of C01-6), not `xbase + x` with the unclipped
    relative position: the two differ whenever a step was clipped (perturbed growing steps, Dykstra overshoot) and then obj disagrees with resid and x.
    Judged without internal scaling (un-scaling after the clamp is the recorded limitation F01b of C01)."""
    from .. import frames
    from .c01 import required_facts
    n = 0
    seen = set()
    # the Model methods that store an objective value (own body writes objval / objsave); a helper they call is judged in their context
    storing = set()
    for m in eng.prog.cls("Model").methods.values():
        for nd in eng.prog.own_nodes(m):
            tg = nd.targets if isinstance(nd, ast.Assign) else ([nd.target] if isinstance(nd, ast.AugAssign) else [])
            for t in tg:
                r = t
                while isinstance(r, ast.Subscript):
                    r = r.value
                if isinstance(r, ast.Attribute) and r.attr in ("objval", "objsave"):
                    storing.add(m.fid)
    for cfg in frames.CONFIGS:
        if not cfg.h or cfg.scaling:
            continue
        it = frames.analyse(eng, cfg)
        for idx, (role, fi, node, x) in enumerate(it.sink_obs):
            if role != "h":
                continue
            stack = it.sink_stacks[idx] if idx < len(it.sink_stacks) else (fi.fid,)
            if not any(f in storing for f in stack):
                continue
            n += 1
            site = eng.where(fi, node)
            have = required_facts(cfg) <= set(x.ex)
            if have:
                rep.ok(rule, site + " [%r]" % cfg, "h is evaluated at a value whose last operation is the clamp / projection that objfun's argument went through")
            else:
                why = x.why or "value was never clamped against the user's bounds"
                key = "%s|h-at-unclipped-point" % fi.fid
                if key in seen:
                    continue
                seen.add(key)
                rep.bad(rule, site, key, "the objective stored by %s adds h at a point that is not the evaluated one (%s): objfun saw the clipped / projected point, "
                        "so soln.obj != sum(resid^2) + h(x) whenever a step was clipped" % (fi.qualname, why))
    rep.require_count(rule, "h call sites in Model methods (over the regulariser configurations)", n, 3)


def rule_extra_samples_are_all_added(eng, rep, rule="C03-9b.every-sample-after-the-first-is-averaged-into-the-stored-residual"):
    """'soln.resid is the mean of the residual vectors returned there': a store that takes only the first sample of an evaluation (`change_point(k, x, R[0, :], ..)` /
    `add_new_point(x, R[0, :], ..)`) must be followed, on every path to the end of the function or to the next evaluation, by the loop
    `for i in range(1, <samples run>): add_new_sample(.., R[i, :])` over the same buffer R.  Without it the extra samples are evaluated (and counted against the budget)
    but the stored residual, its objective and its sample count describe the first sample only."""
    STORES = ("model.Model.change_point", "model.Model.add_new_point")
    n = 0
    for fi in sorted(eng.prog.functions.values(), key=lambda f: f.fid):
        if fi.is_lambda or fi.cls == "Model":
            continue
        firsts = []
        for ci in eng.calls_in(fi):
            if not any(t.fid in STORES for t in ci.targets):
                continue
            for a in list(ci.node.args) + [kw.value for kw in ci.node.keywords]:
                if isinstance(a, ast.Subscript) and isinstance(a.value, ast.Name) and isinstance(a.slice, ast.Tuple) and a.slice.elts and const_value(a.slice.elts[0]) == 0:
                    firsts.append((ci.node, a.value.id))
        if not firsts:
            continue
        cfg = eng.cfg(fi)
        loops = {}
        for lp in [x for x in eng.prog.own_nodes(fi) if isinstance(x, ast.For)]:
            it = lp.iter
            if isinstance(lp.target, ast.Name) and isinstance(it, ast.Subscript) and isinstance(it.value, ast.Name):
                # `for r in R[1:N, :]: add_new_sample(k, r)` -- the rows after the first, walked directly
                sl0 = it.slice.elts[0] if isinstance(it.slice, ast.Tuple) and it.slice.elts else it.slice
                if isinstance(sl0, ast.Slice) and const_value(sl0.lower) == 1 and sl0.step is None:
                    for st in lp.body:
                        if isinstance(st, ast.Expr) and isinstance(st.value, ast.Call):
                            c = st.value
                            cc = eng.res.calls.get(id(c))
                            if cc is not None and any(t.fid == "model.Model.add_new_sample" for t in cc.targets) \
                                    and any(isinstance(a, ast.Name) and a.id == lp.target.id for a in list(c.args) + [kw.value for kw in c.keywords]):
                                loops.setdefault(it.value.id, []).append(cfg.cfg_node(lp.iter))
                continue
            if not (isinstance(it, ast.Call) and isinstance(it.func, ast.Name) and it.func.id == "range" and len(it.args) == 2 and const_value(it.args[0]) == 1
                    and isinstance(lp.target, ast.Name)):
                continue
            for st in lp.body:              # the call must be a statement of the loop body itself (runs on every pass)
                if isinstance(st, ast.Expr) and isinstance(st.value, ast.Call):
                    c = st.value
                    cc = eng.res.calls.get(id(c))
                    if cc is None or not any(t.fid == "model.Model.add_new_sample" for t in cc.targets):
                        continue
                    for a in list(c.args) + [kw.value for kw in c.keywords]:
                        if isinstance(a, ast.Subscript) and isinstance(a.value, ast.Name) and isinstance(a.slice, ast.Tuple) and a.slice.elts \
                                and ekey(a.slice.elts[0]) == lp.target.id:
                            loops.setdefault(a.value.id, []).append(cfg.cfg_node(lp.iter))
        evals = {}
        for k, d in cfg.g.nodes(data=True):
            st = d["ast"]
            if d["kind"] == "stmt" and isinstance(st, ast.Assign) and isinstance(st.value, ast.Call):
                for t in st.targets:
                    for nm in assigned_names(t):
                        evals.setdefault(nm, set()).add(k)
        for (call, R) in firsts:
            n += 1
            site = eng.where(fi, call)
            cn = cfg.cfg_node(call)
            heads = set(loops.get(R, []))
            bad = None
            for tgt in [cfg.exit] + sorted(evals.get(R, set()) - {cn}):
                p = cfg.path_avoiding(cn, tgt, heads)
                if p is not None and len(p) > 1:
                    bad = p
                    break
            in_while = [c for c in eng.calls_in(fi) if any(t.fid == "model.Model.add_new_sample" for t in c.targets)
                        and any(kind == "while" and cfg.cfg_node(c.node) in cfg.loop_nodes(h_) for (h_, kind, _s) in cfg.loops)
                        and any(isinstance(a, ast.Subscript) and isinstance(a.value, ast.Name) and a.value.id == R for a in list(c.node.args) + [kw.value for kw in c.node.keywords])]
            if (not heads or bad is not None) and in_while:
                rep.unknown(rule, site, "samples of `%s` are added by a while loop, whose coverage of rows 1.. this rule does not decide" % R)
            elif not heads or bad is not None:
                rep.bad(rule, site, "%s|extra-samples-not-added|%s" % (fi.fid, short(call.func, 30)),
                        "`%s` stores the first sample of `%s` only and %s: the other samples that were run are never averaged in"
                        % (short(call, 60), R, "no loop `for i in range(1, ..): add_new_sample(.., %s[i, :])` exists in this function" % R if not heads else "a path to the end of the function / the next evaluation avoids that loop"),
                        path=cfg.describe_path(bad)[-6:] if bad else None)
            else:
                rep.ok(rule, site, "the store of `%s[0, :]` is followed on every path by the loop that adds samples 1.. of `%s`" % (R, R))
    rep.require_count(rule, "stores of the first sample of an evaluation", n, 4)


def run(eng, rep):
    rep.explain("C03: role provenance on the value-flow graph (T4) for the evaluation-number and sample-count plumbing (two roles solved together, "
                "blame = edge where a value that cannot reach a producer of the role enters plumbing otherwise fed by it); at every "
                "change_point/add_new_point/save_point call the point/residual/samples/number arguments derive from the same evaluate_objective call "
                "with no other evaluation between the call and the read of the point counter; slot fields, final selection and hard-restart merge move "
                "all components together; each stored objective is sumsq(residual)[+h] with h present exactly when it may be set; every exit of "
                "solve_main selects through get_final_results.")
    rep.explain("Also decided: saved and returned records are copies, not views of arrays updated in place (T11, C03-8); means are taken over the samples actually run (C03-9); extra samples are averaged into the slot that received the first sample of the same buffer (sibling agreement, C03-3c); stores made through a helper are checked at the helper's call sites (wrapped consumers).")
    rep.not_decided += ["'to rounding of the base-point arithmetic'", "'resid is the mean of the returned residual vectors' (running-mean formula, see C17)",
                        "regularised sub-problem solved over the true box: decided under C06-4"]
    A = anchors(eng)
    rep.guarded(rule_roles, eng, rep, A)
    rep.guarded(rule_record_coherence, eng, rep, A)
    rep.guarded(rule_extra_samples_same_slot, eng, rep)
    rep.guarded(rule_tuple_coherence, eng, rep, A)
    rep.guarded(rule_objective_construction, eng, rep, A)
    rep.guarded(rule_h_at_the_evaluated_point, eng, rep)
    rep.guarded(rule_exits_select, eng, rep, rule="C03-7.all-exits-go-through-final-selection")
    vfg = eng.vfg
    ci, b = final_ctor(eng, A)
    sinks = [("f", "Model", f) for f in ("xsave", "rsave", "jacsave", "jacsave_eval_nums")]
    for pn in ("xmin", "rmin"):
        e = b.params.get(pn)
        if e is not None and not isinstance(e, tuple):
            sinks.append(vfg.key_of(e))
    rep.guarded(rule_snapshots_are_copies, eng, rep, "C03-8.saved-and-returned-records-are-copies", sinks, "the saved-point slot / soln.x / soln.resid")
    rep.guarded(rule_mean_over_samples_run, eng, rep, "C03-9.means-are-taken-over-the-samples-actually-run")
    rep.guarded(rule_extra_samples_are_all_added, eng, rep)
    from .records import rule_eval_results_are_fresh
    rep.guarded(rule_eval_results_are_fresh, eng, rep, "C03-10.evaluation-results-are-fresh-arrays")
