"""Selection sites (who decides which point is kept / returned) and their decision tables (T6).

Sites are derived structurally:
  slot      the `if` in Model.save_point whose body assigns the saved-objective field
  final     the `if` in Model.get_final_results that chooses between incumbent and slot
  move-*    every `if` in a Model method whose body assigns the incumbent index (kopt)
  merge     the `if` in solve whose body re-assigns the running best objective of the hard-restart loop
"""
import ast

from ..loader import AnalysisError, ekey
from ..norm import const_value
from .. import orderdom as od
from .common import mentions, assigned_names, short


class Site(object):
    def __init__(self, name, fi, ifnode, guard, holder, cand, fixed, holder_nullable, oblig):
        self.name, self.fi, self.ifnode, self.guard = name, fi, ifnode, guard
        self.holder, self.cand, self.fixed = holder, cand, fixed
        self.holder_nullable = holder_nullable
        self.oblig = oblig      # subset of {ORDER, NAN_CAND, NAN_HOLDER, NONE_HOLDER}


def _ifs(eng, fi):
    return [n for n in eng.prog.own_nodes(fi) if isinstance(n, ast.If)]


def _body_assigns(ifnode, pred):
    for st in ifnode.body:
        for sub in ast.walk(st):
            if isinstance(sub, ast.Assign):
                for t in sub.targets:
                    r = pred(t, sub)
                    if r is not None:
                        return r
    return None


def _fixed_flags(fi, guard, known):
    fixed = {}
    for sub in ast.walk(guard):
        if isinstance(sub, ast.Name) and ekey(sub) not in known and sub.id in fi.defaults:
            d = fi.defaults[sub.id]
            if isinstance(d, ast.Constant) and isinstance(d.value, bool):
                fixed[sub.id] = d.value
    return fixed


def selection_sites(eng):
    sites = []
    model = eng.prog.cls("Model")
    # ---- slot
    sp = eng.fn("model.Model.save_point")
    selfn = sp.posparams[0]
    slot_field = None
    for ifn in _ifs(eng, sp):
        def pred(t, asg):
            if isinstance(t, ast.Attribute) and isinstance(t.value, ast.Name) and t.value.id == selfn and ekey(t) in mentions_text(ifn.test):
                return (ekey(t), ekey(asg.value), t.attr)
            return None
        r = _body_assigns(ifn, pred)
        if r is not None:
            holder, cand, slot_field = r
            sites.append(Site("slot", sp, ifn, ifn.test, holder, cand, _fixed_flags(sp, ifn.test, {holder, cand}), True,
                              {"ORDER", "NAN_CAND", "NAN_HOLDER", "NONE_HOLDER"}))
            break
    if slot_field is None:
        raise AnalysisError("cannot find the slot-replacement `if` in Model.save_point")
    # ---- final
    gf = eng.fn("model.Model.get_final_results")
    found = False
    for ifn in _ifs(eng, gf):
        texts = mentions_text(ifn.test)
        slot_txt = "%s.%s" % (gf.posparams[0], slot_field)
        if slot_txt not in texts:
            continue
        rets_true = [s for s in ifn.body if isinstance(s, ast.Return)]
        rets_false = [s for s in ifn.orelse if isinstance(s, ast.Return)]
        if not rets_true or not rets_false:
            continue
        true_uses_slot = slot_field in mentions(rets_true[0].value)
        false_uses_slot = slot_field in mentions(rets_false[0].value)
        if true_uses_slot == false_uses_slot:
            raise AnalysisError("get_final_results: cannot tell which branch returns the saved slot")
        # the incumbent operand: the non-slot float operand of the guard
        inc = None
        for sub in ast.walk(ifn.test):
            if isinstance(sub, ast.Compare):
                for side in [sub.left] + list(sub.comparators):
                    t = ekey(side)
                    if t != slot_txt and not (isinstance(side, ast.Constant)):
                        inc = t
        if inc is None:
            raise AnalysisError("get_final_results: no incumbent operand in the guard")
        guard = ifn.test if not true_uses_slot else ast.UnaryOp(op=ast.Not(), operand=ifn.test)
        sites.append(Site("final", gf, ifn, guard, slot_txt, inc, {}, True, {"ORDER", "NAN_CAND", "NAN_HOLDER", "NONE_HOLDER"}))
        found = True
        break
    if not found:
        raise AnalysisError("cannot find the final selection `if` in Model.get_final_results")
    # ---- incumbent moves
    for m in sorted(model.methods.values(), key=lambda f: f.qualname):
        sn = m.posparams[0] if m.posparams else None
        for ifn in _ifs(eng, m):
            def pred(t, asg):
                if isinstance(t, ast.Attribute) and isinstance(t.value, ast.Name) and t.value.id == sn and t.attr == "kopt":
                    return True
                return None
            if _body_assigns(ifn, pred) is None:
                continue
            cmp_ = [s for s in ast.walk(ifn.test) if isinstance(s, ast.Compare) and any(isinstance(o, (ast.Lt, ast.LtE, ast.Gt, ast.GtE)) for o in s.ops)]
            if not cmp_:
                continue  # e.g. swap_points' index bookkeeping (== tests)
            c = cmp_[0]
            a, b = ekey(c.left), ekey(c.comparators[0])
            # the holder is the incumbent's value (objopt / objval[kopt]); the candidate is the other operand -- independent of the operator's direction
            if "objopt" in b or "kopt" in b:
                cand, holder = a, b
            elif "objopt" in a or "kopt" in a:
                cand, holder = b, a
            else:
                continue
            sites.append(Site("move-" + m.qualname.split(".")[-1], m, ifn, ifn.test, holder, cand,
                              _fixed_flags(m, ifn.test, {holder, cand}), False, {"ORDER", "NAN_CAND"}))
    # ---- merge
    solve = eng.fn("solver.solve")
    merge = None
    for ifn in _ifs(eng, solve):
        for st in ifn.body:
            if isinstance(st, ast.Assign) and isinstance(st.targets[0], (ast.Tuple, ast.List)) and isinstance(st.value, ast.Tuple):
                names = assigned_names(st.targets[0])
                vals = [ekey(v) for v in st.value.elts]
                gtexts = mentions_text(ifn.test)
                for nme, val in zip(names, vals):
                    if nme in gtexts and val in gtexts:
                        merge = (ifn, nme, val)
    if merge is None:
        raise AnalysisError("cannot find the hard-restart merge `if` in solve")
    ifn, holder, cand = merge
    sites.append(Site("merge", solve, ifn, ifn.test, holder, cand, {}, False, {"ORDER", "NAN_CAND", "NAN_HOLDER"}))
    return sites


def mentions_text(node):
    return set(ekey(s) for s in ast.walk(node) if isinstance(s, (ast.Name, ast.Attribute, ast.Call, ast.Subscript)))


OBLIG_TEXT = {
    "ORDER": "strictly smaller candidate is taken, strictly larger is not",
    "NAN_CAND": "a NaN candidate never replaces a finite holder",
    "NAN_HOLDER": "a finite candidate replaces a NaN holder",
    "NONE_HOLDER": "an empty holder is always filled",
}


def check_site(site, wanted):
    """Evaluate the decision table and return [(obligation, ok, failing row text)] for obligations in `wanted`."""
    hold_dom = od.FULL if site.holder_nullable else od.NOTNONE
    rows = od.decision_table(site.guard, {site.holder: hold_dom, site.cand: od.NOTNONE}, fixed=site.fixed)
    res = []
    fin = (od.V1, od.V2)

    def rows_where(pred):
        return [(a, r) for (a, r) in rows if pred(a[site.holder], a[site.cand])]

    checks = {
        "ORDER": [(lambda h, c: h in fin and c in fin and c < h, True), (lambda h, c: h in fin and c in fin and c > h, False)],
        "NAN_CAND": [(lambda h, c: h in fin and od._is_nan(c), False)],
        "NAN_HOLDER": [(lambda h, c: od._is_nan(h) and c in fin, True)],
        "NONE_HOLDER": [(lambda h, c: h is None, True)],
    }
    for ob in sorted(site.oblig & set(wanted)):
        failing = None
        for pred, want in checks[ob]:
            for (a, r) in rows_where(pred):
                if r != want:
                    failing = "holder=%s candidate=%s -> guard is %s (must be %s)" % (od.fmt(a[site.holder]), od.fmt(a[site.cand]), r, want)
                    break
            if failing:
                break
        res.append((ob, failing is None, failing))
    raising = [(a, r) for (a, r) in rows if r == "raise"]
    if raising:
        a = raising[0][0]
        res.append(("NO_RAISE", False, "holder=%s candidate=%s -> the guard itself raises" % (od.fmt(a[site.holder]), od.fmt(a[site.cand]))))
    return res, rows


def rule_selection(eng, rep, rule, wanted, pid_tag):
    sites = selection_sites(eng)
    n = 0
    for s in sites:
        res, rows = check_site(s, wanted)
        site_txt = eng.where(s.fi, s.ifnode)
        for (ob, ok, failing) in res:
            n += 1
            if ok:
                rep.ok(rule, site_txt, "%s: `%s` -- %s (%d-row table over None/NaN/lo/hi)" % (s.name, short(s.guard, 60), OBLIG_TEXT.get(ob, ob), len(rows)))
            else:
                rep.bad(rule, site_txt, "%s|%s|%s" % (s.fi.fid, s.name, ob),
                        "%s: guard `%s` violates '%s': %s" % (s.name, short(s.guard, 70), OBLIG_TEXT.get(ob, ob), failing))
    rep.require_count(rule, "selection sites", len(sites), 5)
    return sites
