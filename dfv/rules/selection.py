"""Selection sites (who decides which point is kept / returned) and their decision tables (T6).

Sites are derived from the *stores*, not from the syntactic shape of the `if` around them:
  slot      the statements of Model.save_point that store the saved-objective field (the field that is both tested and stored there)
  final     the returns of Model.get_final_results that hand out the incumbent rather than the slot (local temporaries expanded)
  move-*    the statements of a Model method that set the incumbent index to one candidate and depend on an ordering comparison with the incumbent's value
  merge     the tuple assignment in solve that replaces the running best of the hard-restart loop
Each row of the table (values of holder and candidate) is decided by walking the CFG from the start of the decision: tests over the operands are
evaluated in the order domain, all other tests are followed both ways; the answer is whether a store is reached.  Guard clauses, early returns,
nested / merged ifs and De Morgan forms are therefore all the same thing to the rule.
"""
import ast

from ..loader import AnalysisError, ekey
from ..norm import const_value
from .. import orderdom as od
from .common import mentions, assigned_names, short


class Site(object):
    def __init__(self, name, fi, cfg, start, targets, holder, cand, fixed, holder_nullable, oblig, guard_text):
        self.name, self.fi, self.cfg, self.start, self.targets = name, fi, cfg, start, set(targets)
        self.holder, self.cand, self.fixed = holder, cand, fixed
        self.holder_nullable = holder_nullable
        self.oblig = oblig      # subset of {ORDER, NAN_CAND, NAN_HOLDER, NONE_HOLDER}
        self.guard = guard_text
        self.anchor = cfg.ast_of(sorted(self.targets)[0])      # the (first) statement that takes the candidate

    @property
    def ifnode(self):           # kept for callers that only need a position
        return self.anchor


def _fixed_flags(fi, cfg, known):
    """Boolean keyword parameters of the function are fixed to their defaults (the table is about the default call)."""
    fixed = {}
    for n in cfg.nodes_of_kind("cond"):
        for sub in ast.walk(cfg.ast_of(n)):
            if isinstance(sub, ast.Name) and ekey(sub) not in known and sub.id in fi.defaults:
                d = fi.defaults[sub.id]
                if isinstance(d, ast.Constant) and isinstance(d.value, bool):
                    fixed[sub.id] = d.value
    return fixed


def _ordering(test):
    return isinstance(test, ast.Compare) and len(test.ops) == 1 and isinstance(test.ops[0], (ast.Lt, ast.LtE, ast.Gt, ast.GtE))


def _cond_nodes(cfg):
    return sorted(cfg.nodes_of_kind("cond"))


def _test(cfg, n):
    """The test a cond node decides.  `flag = <boolean expression>; if flag:` / `if not flag:` is the same decision as `if <boolean expression>:`: a bare local with one
    reaching definition that is a comparison / boolean combination / call is replaced by that expression (the CFG has already peeled the `not`)."""
    t = cfg.ast_of(n)
    if isinstance(t, ast.Name):
        try:
            defs = cfg.defs_reaching(t, t.id)
        except Exception:
            return t
        if len(defs) == 1:
            st = cfg.ast_of(defs[0])
            if isinstance(st, ast.Assign) and len(st.targets) == 1 and isinstance(st.targets[0], ast.Name) and isinstance(st.value, (ast.BoolOp, ast.Compare, ast.UnaryOp, ast.Call)):
                return st.value
    return t


def _orderings_in(test):
    return [c for c in ast.walk(test) if _ordering(c)]


def _relevant_conds(cfg, texts):
    """cond nodes whose test mentions one of the operand texts"""
    return [n for n in _cond_nodes(cfg) if mentions_text(_test(cfg, n)) & set(texts)]


def _guard_text(cfg, conds):
    return " ; ".join(short(_test(cfg, n), 40) for n in conds[:4])


def _start_for(cfg, targets, texts):
    """Earliest cond mentioning an operand that dominates every target (the decision starts there); the function entry if there is none."""
    cands = [c for c in _relevant_conds(cfg, texts) if all(cfg.dominates(c, t) for t in targets)]
    for c in cands:
        if all(cfg.dominates(c, o) for o in cands):
            return c
    return cfg.entry


def expanded_mentions(cfg, at_ast, expr, depth=4):
    """Names/attributes mentioned by expr, looking through local temporaries (reaching definitions)."""
    out = set(mentions(expr))
    if depth == 0:
        return out
    for sub in ast.walk(expr):
        if isinstance(sub, ast.Name):
            try:
                defs = cfg.defs_reaching(at_ast, sub.id)
            except Exception:
                defs = []
            for dn in defs:
                st = cfg.ast_of(dn)
                if isinstance(st, ast.Assign) and len(st.targets) == 1 and isinstance(st.targets[0], ast.Name):
                    out |= expanded_mentions(cfg, st, st.value, depth - 1)
    return out


def selection_sites(eng):
    sites = []
    model = eng.prog.cls("Model")
    # ---- slot: the statements of save_point that store the saved objective, decided by walking the CFG from the function entry
    sp = eng.fn("model.Model.save_point")
    cfg = eng.cfg(sp)
    selfn = sp.posparams[0]
    cond_attrs = set()
    for n in _cond_nodes(cfg):
        for sub in ast.walk(cfg.ast_of(n)):
            if isinstance(sub, ast.Attribute) and isinstance(sub.value, ast.Name) and sub.value.id == selfn:
                cond_attrs.add(sub.attr)
    stores = {}
    for n, d in cfg.g.nodes(data=True):
        st = d["ast"]
        if d["kind"] == "stmt" and isinstance(st, ast.Assign):
            for t in st.targets:
                if isinstance(t, ast.Attribute) and isinstance(t.value, ast.Name) and t.value.id == selfn and t.attr in cond_attrs:
                    stores.setdefault(t.attr, []).append((n, st))
    if len(stores) != 1:
        raise AnalysisError("cannot find the slot-replacement store in Model.save_point (fields both tested and stored: %s)" % sorted(stores))
    slot_field, sts = list(stores.items())[0]
    holder = "%s.%s" % (selfn, slot_field)
    cands = set(ekey(st.value) for (_n, st) in sts)
    if len(cands) != 1:
        raise AnalysisError("Model.save_point stores different values into %s" % holder)
    cand = cands.pop()
    tg = [n for (n, _st) in sts]
    sites.append(Site("slot", sp, cfg, cfg.entry, tg, holder, cand, _fixed_flags(sp, cfg, {holder, cand}), True,
                      {"ORDER", "NAN_CAND", "NAN_HOLDER", "NONE_HOLDER"}, _guard_text(cfg, _relevant_conds(cfg, {holder, cand}))))
    # ---- final: the returns of get_final_results that hand out the incumbent (not the slot)
    gf = eng.fn("model.Model.get_final_results")
    cfg = eng.cfg(gf)
    slot_txt = "%s.%s" % (gf.posparams[0], slot_field)
    rets = [(n, d["ast"]) for n, d in cfg.g.nodes(data=True) if d["kind"] == "stmt" and isinstance(d["ast"], ast.Return) and d["ast"].value is not None]
    inc_rets = [n for (n, r) in rets if slot_field not in expanded_mentions(cfg, r, r.value)]
    slot_rets = [n for (n, r) in rets if slot_field in expanded_mentions(cfg, r, r.value)]
    if not inc_rets or not slot_rets:
        raise AnalysisError("get_final_results: cannot tell which return hands out the saved slot")
    inc = None
    for n in _cond_nodes(cfg):
        for t in _orderings_in(_test(cfg, n)):
            for side in (t.left, t.comparators[0]):
                if ekey(side) != slot_txt and not isinstance(side, ast.Constant) and slot_txt in (ekey(t.left), ekey(t.comparators[0])):
                    inc = ekey(side)
    if inc is None:
        raise AnalysisError("get_final_results: no ordering comparison between the saved slot and the incumbent")
    sites.append(Site("final", gf, cfg, cfg.entry, inc_rets, slot_txt, inc, {}, True, {"ORDER", "NAN_CAND", "NAN_HOLDER", "NONE_HOLDER"},
                      _guard_text(cfg, _relevant_conds(cfg, {slot_txt, inc}))))
    # ---- incumbent moves: stores `kopt = <index of the candidate>` that depend on an ordering comparison with the incumbent's value
    for m in sorted(model.methods.values(), key=lambda f: f.qualname):
        sn = m.posparams[0] if m.posparams else None
        cfg = eng.cfg(m)
        ks = []
        for n, d in cfg.g.nodes(data=True):
            st = d["ast"]
            if d["kind"] == "stmt" and isinstance(st, ast.Assign) and any(isinstance(t, ast.Attribute) and isinstance(t.value, ast.Name) and t.value.id == sn and t.attr == "kopt" for t in st.targets):
                if any(isinstance(c, ast.Call) and ekey(c.func).split(".")[-1] in ("nanargmin", "argmin", "nanargmax", "argmax") for c in ast.walk(st.value)):
                    continue      # a re-selection over all stored values (C17-4b), not a move to one candidate
                ks.append(n)
        if not ks:
            continue
        ocs = []
        for n in _cond_nodes(cfg):
            for t in _orderings_in(_test(cfg, n)):
                a, b = ekey(t.left), ekey(t.comparators[0])
                if "objopt" in b or "kopt" in b:
                    ocs.append((n, a, b))
                elif "objopt" in a or "kopt" in a:
                    ocs.append((n, b, a))
        import networkx as nx
        ocs = [(n, c, h) for (n, c, h) in ocs if any(nx.has_path(cfg.g, n, k) for k in ks)]
        if not ocs:
            continue      # e.g. swap_points' index bookkeeping (== tests)
        n0, cand, holder = ocs[0]
        tg = [k for k in ks if any(nx.has_path(cfg.g, n, k) for (n, _c, _h) in ocs)]
        sites.append(Site("move-" + m.qualname.split(".")[-1], m, cfg, cfg.entry, tg, holder, cand, _fixed_flags(m, cfg, {holder, cand}), False,
                          {"ORDER", "NAN_CAND", "NAN_HOLDER"}, _guard_text(cfg, [n for (n, _c, _h) in ocs])))
    # ---- merge: the tuple assignment of the hard-restart loop that replaces the running best by the new run's result
    solve = eng.fn("solver.solve")
    cfg = eng.cfg(solve)
    merge = None
    cond_texts = [(n, mentions_text(_test(cfg, n))) for n in _cond_nodes(cfg)]
    for n, d in cfg.g.nodes(data=True):
        st = d["ast"]
        if d["kind"] == "stmt" and isinstance(st, ast.Assign) and isinstance(st.targets[0], (ast.Tuple, ast.List)) and isinstance(st.value, ast.Tuple):
            names = assigned_names(st.targets[0])
            vals = [ekey(v) for v in st.value.elts]
            for nme, val in zip(names, vals):
                if any(nme in tx and val in tx and _orderings_in(_test(cfg, c)) for (c, tx) in cond_texts):
                    merge = (n, nme, val)
    if merge is None:
        raise AnalysisError("cannot find the hard-restart merge assignment in solve")
    n, holder, cand = merge
    start = _start_for(cfg, [n], {holder, cand})
    if start == cfg.entry:
        raise AnalysisError("the hard-restart merge in solve is not dominated by a test of its operands")
    sites.append(Site("merge", solve, cfg, start, [n], holder, cand, {}, False, {"ORDER", "NAN_CAND", "NAN_HOLDER"},
                      _guard_text(cfg, [c for c in _relevant_conds(cfg, {holder, cand}) if cfg.dominates(start, c)])))
    return sites


def _walk(cfg, start, targets, env):
    """Is a target statement reached from `start` when the operands have the values of `env`?  Conditions outside the order domain are followed both ways.
    True / False / 'raise' (a reached test raises) / 'either' (depends on something that is not an operand)."""
    reached = avoided = False
    seen = set()
    stack = [start]
    while stack:
        n = stack.pop()
        if n in seen:
            continue
        seen.add(n)
        if n in targets:
            reached = True
            continue
        if n in (cfg.exit, cfg.raise_exit):
            avoided = True
            continue
        outs = list(cfg.succ(n, with_exc=False))
        known = None
        if cfg.kind(n) == "cond":
            try:
                known = bool(od.evaluate(_test(cfg, n), env))
            except od.Raises:
                return "raise"
            except AnalysisError:
                known = None
        if not outs:
            avoided = True
        for m, e in outs:
            lab = e.get("label")
            if known is not None and lab not in (known, "both", None):
                continue
            if m == start:
                avoided = True       # next round of the enclosing loop: this decision is over
                continue
            stack.append(m)
    if reached and avoided:
        return "either"
    return reached


def decision_rows(site):
    import itertools
    hold_dom = od.FULL if site.holder_nullable else od.NOTNONE
    operands = {site.holder: hold_dom, site.cand: od.NOTNONE}
    names = sorted(operands)
    rows = []
    for combo in itertools.product(*[operands[n] for n in names]):
        env = dict(site.fixed or {})
        env.update(dict(zip(names, combo)))
        rows.append((dict(zip(names, combo)), _walk(site.cfg, site.start, site.targets, env)))
    return rows


def mentions_text(node):
    return set(ekey(s) for s in ast.walk(node) if isinstance(s, (ast.Name, ast.Attribute, ast.Call, ast.Subscript)))


OBLIG_TEXT = {
    "ORDER": "strictly smaller candidate is taken, strictly larger is not",
    "NAN_CAND": "a NaN candidate never replaces a finite holder",
    "NAN_HOLDER": "a finite candidate replaces a NaN holder",
    "NONE_HOLDER": "an empty holder is always filled",
}


def check_site(site, wanted):
    """Evaluate the decision table and return [(obligation, ok, failing row text)] for obligations in `wanted`."""
    rows = decision_rows(site)
    res = []
    fin = (od.V1, od.V2)

    def rows_where(pred):
        return [(a, r) for (a, r) in rows if pred(a[site.holder], a[site.cand])]

    checks = {
        "ORDER": [(lambda h, c: h in fin and c in fin and c < h, True), (lambda h, c: h in fin and c in fin and c > h, False)],
        "NAN_CAND": [(lambda h, c: h in fin and od._is_nan(c), False)],
        "NAN_HOLDER": [(lambda h, c: od._is_nan(h) and c in fin, True)],
        "NONE_HOLDER": [(lambda h, c: h is None, True)],
    }
    for ob in sorted(site.oblig & set(wanted)):
        failing = None
        for pred, want in checks[ob]:
            for (a, r) in rows_where(pred):
                if r != want:
                    failing = "holder=%s candidate=%s -> candidate is %s (must be %s)" % (od.fmt(a[site.holder]), od.fmt(a[site.cand]),
                                                                                             {True: "taken", False: "not taken", "either": "taken or not depending on a condition outside the comparison", "raise": "-- the test raises"}[r],
                                                                                             "taken" if want else "not taken")
                    break
            if failing:
                break
        res.append((ob, failing is None, failing))
    raising = [(a, r) for (a, r) in rows if r == "raise"]
    if raising:
        a = raising[0][0]
        res.append(("NO_RAISE", False, "holder=%s candidate=%s -> the guard itself raises" % (od.fmt(a[site.holder]), od.fmt(a[site.cand]))))
    return res, rows


def rule_selection(eng, rep, rule, wanted, pid_tag):
    sites = selection_sites(eng)
    n = 0
    for s in sites:
        res, rows = check_site(s, wanted)
        site_txt = eng.where(s.fi, s.anchor)
        for (ob, ok, failing) in res:
            n += 1
            if ok:
                rep.ok(rule, site_txt, "%s: tests `%s` -- %s (%d-row table over None/NaN/lo/hi, each row decided by walking the CFG to the store)" % (s.name, s.guard[:90], OBLIG_TEXT.get(ob, ob), len(rows)))
            else:
                rep.bad(rule, site_txt, "%s|%s|%s" % (s.fi.fid, s.name, ob),
                        "%s: guard `%s` violates '%s': %s" % (s.name, s.guard[:90], OBLIG_TEXT.get(ob, ob), failing))
    rep.require_count(rule, "selection sites", len(sites), 5)
    return sites
