"""C06 -- convex regularised least squares (pass-through and frame clauses only; convergence is not decided).

Decided: extra arguments reach h / prox_uh / objfun unchanged and un-crossed at every call site; user tuples are never
star-expanded into a fixed-arity internal callee; no None default can be star-expanded; every projector handed to dykstra
acts in the frame of the projected point; callbacks are evaluated in user coordinates and their results are only combined
with user-frame values.
"""
import ast

from ..loader import AnalysisError, ekey
from ..norm import is_none
from ..resolve import bind_call
from .. import frames, tables
from .common import short
from .c01 import rule_frames

ROLE_ARGS = {"h": "argsh", "prox_uh": "argsprox", "objfun": "argsf"}
LEADING = {"h": 1, "prox_uh": 2, "objfun": 1}


def rule_pass_through(eng, rep, rule="C06-1.extra-arguments-pass-through"):
    counts = {"h": 0, "prox_uh": 0, "objfun": 0}
    for ci in eng.res.calls.values():
        if ci.role is None:
            continue
        roles = set(ci.role.split("|")) & set(ROLE_ARGS)
        if not roles:
            continue
        fi = ci.caller
        site = eng.where(fi, ci.node)
        if len(roles) != 1:
            rep.bad(rule, site, "%s|callable-roles-mixed|%s" % (fi.fid, "+".join(sorted(roles))), "this call may invoke different user callbacks (%s): their argument tuples cannot both be right" % sorted(roles))
            continue
        role = roles.pop()
        counts[role] += 1
        want = ROLE_ARGS[role]
        stars = [a for a in ci.node.args if isinstance(a, ast.Starred)]
        plain = [a for a in ci.node.args if not isinstance(a, ast.Starred)]
        if len(stars) != 1 or ci.node.keywords:
            rep.bad(rule, site, "%s|%s-call-shape" % (fi.fid, role), "%s must be called as %s(%s*%s); got `%s`" % (role, role, "x, " if LEADING[role] == 1 else "x, u, ", want, short(ci.node)))
            continue
        if len(plain) != LEADING[role] or ci.node.args.index(stars[0]) != len(plain):
            rep.bad(rule, site, "%s|%s-call-shape" % (fi.fid, role), "%s is called with %d leading positional arguments (expected %d) before the user tuple" % (role, len(plain), LEADING[role]))
            continue
        atoms = set(eng.res.ev(fi, stars[0].value))
        user = set(a[1] for a in atoms if a[0] == "U")
        other = set(a for a in atoms if a[0] not in ("U", "E"))
        if user == {want} and not other:
            rep.ok(rule, site, "%s(..., *%s): the starred tuple is the caller's %s (possibly the () default)" % (role, short(stars[0].value, 25), want))
        elif not user and atoms <= {("E",)}:
            rep.bad(rule, site, "%s|%s-args-dropped" % (fi.fid, role), "%s is called without the caller's %s (only the empty default reaches this call)" % (role, want))
        else:
            rep.bad(rule, site, "%s|%s-args-crossed" % (fi.fid, role), "%s receives *%s which carries %s instead of %s" % (role, short(stars[0].value, 25), sorted(user) or sorted(atoms), want))
    rep.require_count(rule, "h call sites", counts["h"], tables.MIN_COUNTS["h_call_sites"])
    rep.require_count(rule, "prox_uh call sites", counts["prox_uh"], 1)
    rep.require_count(rule, "objfun call sites", counts["objfun"], 1)


def rule_no_star_into_fixed_arity(eng, rep, rule="C06-2.user-tuples-not-star-expanded-into-fixed-arity"):
    n = 0
    for ci in eng.res.calls.values():
        if not ci.targets:
            continue
        stars = [a for a in ci.node.args if isinstance(a, ast.Starred)]
        if not stars:
            continue
        fi = ci.caller
        for st in stars:
            atoms = eng.res.ev(fi, st.value)
            if not any(a[0] == "U" and a[1].startswith("args") for a in atoms):
                continue
            n += 1
            for (t, bound) in eng.res.call_targets(fi, ci.node):
                site = eng.where(fi, ci.node)
                if t.vararg:
                    rep.ok(rule, site, "%s accepts *%s" % (t.fid, t.vararg))
                else:
                    rep.bad(rule, site, "%s->%s|user-tuple-into-fixed-arity" % (fi.fid, t.fid),
                            "user tuple `*%s` is expanded into %s(%s), which takes a fixed number of positionals: any non-empty tuple raises TypeError"
                            % (short(st.value, 20), t.fid, ", ".join(t.all_params)))
    rep.note(rule, "package", "%d internal call sites star-expand a user tuple" % n)
    # positive control: the rule's matcher is alive iff it recognises user tuples at the callback sites
    alive = sum(1 for ci in eng.res.calls.values() if ci.role and any(isinstance(a, ast.Starred) and any(x[0] == "U" for x in eng.res.ev(ci.caller, a.value)) for a in ci.node.args))
    rep.require_count(rule, "starred user tuples recognised anywhere (matcher alive)", alive, 3)      # at least objfun, h and prox_uh (today 20+)
    if n == 0:
        rep.ok(rule, "package", "no internal call star-expands a user tuple")


def rule_none_defaults(eng, rep, rule="C06-3.no-None-default-can-be-star-expanded"):
    """A parameter that carries a user argument tuple must not fall back to a None default at any call site."""
    n = 0
    for ci in eng.res.calls.values():
        if not ci.targets:
            continue
        for (t, bound) in eng.res.call_targets(ci.caller, ci.node):
            b = bind_call(ci.node, t, bound and t.is_method)
            for p, e in b.params.items():
                if isinstance(e, tuple) and is_none(e[1]):
                    atoms = eng.res.var.get((t.fid, p), set())
                    if any(a[0] == "U" and a[1].startswith("args") for a in atoms):
                        n += 1
                        rep.bad(rule, eng.where(ci.caller, ci.node), "%s->%s|None-default-for-%s" % (ci.caller.fid, t.fid, p),
                                "parameter %s of %s carries a user argument tuple elsewhere but takes its None default here: `*None` raises TypeError" % (p, t.fid))
    if n == 0:
        rep.ok(rule, "package", "every call that reaches a star-expanded argument tuple supplies it explicitly (declared None defaults are never taken)")


def rule_subproblem_over_the_box(eng, rep, rule="C06-6.regularised-subproblem-is-solved-over-the-feasible-set"):
    """Every ctrsbox_sfista call must be handed the feasible set: the solver's projection list (which ends with the bound box, C09-2) or a list that
    contains a box projector (a callable whose body is pbox(...)) -- on every reaching definition of the argument.  An empty or box-less list solves the
    regularised sub-problem over the trust region only and the step leaves the bounds."""
    sf = eng.fn("trust_region.ctrsbox_sfista")
    pname = "projections" if "projections" in sf.all_params else sf.posparams[3]
    n = 0

    def is_box_callable(fi, cfg, at, e, depth=2):
        if isinstance(e, ast.Lambda):
            return isinstance(e.body, ast.Call) and any(t.fid == "util.pbox" for t in (eng.res.calls[id(e.body)].targets if id(e.body) in eng.res.calls else []))
        if isinstance(e, ast.Name) and depth > 0:
            try:
                defs = cfg.defs_reaching(at, e.id)
            except Exception:
                return False
            if not defs:
                return False
            for dn in defs:
                st = cfg.ast_of(dn)
                if isinstance(st, ast.Assign) and len(st.targets) == 1:
                    if not is_box_callable(fi, cfg, st, st.value, depth - 1):
                        return False
                elif isinstance(st, ast.FunctionDef):
                    body = [x for x in st.body if not (isinstance(x, ast.Expr) and isinstance(x.value, ast.Constant))]
                    if not (len(body) == 1 and isinstance(body[0], ast.Return) and isinstance(body[0].value, ast.Call) and "pbox" in ekey(body[0].value.func)):
                        return False
                else:
                    return False
            return True
        if isinstance(e, ast.Call) and id(e) in eng.res.calls and eng.res.calls[id(e)].kind == "CTOR":
            # a small callable class: its __call__ returns pbox(...)
            for t in eng.res.calls[id(e)].targets:
                cls = eng.prog.classes.get(t.cls)
                call = cls.methods.get("__call__") if cls else None
                if call is not None and any(isinstance(r, ast.Return) and isinstance(r.value, ast.Call) and "pbox" in ekey(r.value.func) for r in eng.prog.own_nodes(call)):
                    return True
        return False

    def feasible_set(fi, cfg, at, e, depth=3):
        """True / False / None(unknown)"""
        if isinstance(e, ast.Attribute) and e.attr == "projections":
            return True
        if isinstance(e, (ast.List, ast.Tuple)):
            return any(is_box_callable(fi, cfg, at, x) for x in e.elts)
        if isinstance(e, ast.Name) and depth > 0:
            try:
                defs = cfg.defs_reaching(at, e.id)
            except Exception:
                return None
            res = []
            for dn in defs:
                st = cfg.ast_of(dn)
                if isinstance(st, ast.Assign) and len(st.targets) == 1 and isinstance(st.targets[0], ast.Name):
                    res.append(feasible_set(fi, cfg, st, st.value, depth - 1))
                elif dn == cfg.entry:
                    res.append(None)
                else:
                    res.append(None)
            if any(r is False for r in res):
                return False
            return True if res and all(r is True for r in res) else None
        if isinstance(e, ast.Call) and isinstance(e.func, ast.Name) and e.func.id == "list" and e.args:
            return feasible_set(fi, cfg, at, e.args[0], depth - 1)
        if isinstance(e, ast.Call) and id(e) in eng.res.calls and len(eng.res.calls[id(e)].targets) == 1 and depth > 0:
            # a helper that returns the feasible set: every return of it must be one
            t = eng.res.calls[id(e)].targets[0]
            if not t.is_lambda:
                tcfg = eng.cfg(t)
                res = [feasible_set(t, tcfg, r, r.value, depth - 1) for r in eng.prog.own_nodes(t) if isinstance(r, ast.Return) and r.value is not None]
                if any(r is False for r in res):
                    return False
                return True if res and all(r is True for r in res) else None
        return None

    for ci in eng.calls_to(sf.fid):
        fi = ci.caller
        if fi.fid.startswith("trust_region."):
            continue
        cfg = eng.cfg(fi)
        b = bind_call(ci.node, sf, False)
        e = b.params.get(pname)
        n += 1
        site = eng.where(fi, ci.node)
        if e is None or isinstance(e, tuple):
            rep.bad(rule, site, "%s|no-feasible-set" % fi.fid, "ctrsbox_sfista is called without a projection list")
            continue
        v = feasible_set(fi, cfg, ci.node, e)
        if v is True:
            rep.ok(rule, site, "the sub-problem is solved over `%s`, which contains the bound box on every path" % short(e, 40))
        elif v is False:
            rep.bad(rule, site, "%s|feasible-set-without-box|%s" % (fi.fid, short(e, 20)),
                    "the projector list `%s` handed to ctrsbox_sfista can be empty / lack the box projector on some path: the regularised step is then computed over the trust region only and ignores the bounds" % short(e, 40))
        else:
            rep.unknown(rule, site, "cannot tell what the projector list `%s` contains" % short(e, 40))
    rep.require_count(rule, "ctrsbox_sfista call sites outside trust_region.py", n, 1)      # (today 4 copies of one call)


LOWER_UPPER_WORDS = [("sl", "su"), ("xl", "xu"), ("lower", "upper"), ("xlb", "xub"), ("sl_abs", "su_abs"), ("xl_abs", "xu_abs"), ("l", "u"), ("lo", "hi"), ("lb", "ub")]


def rule_box_projectors_get_a_lower_and_an_upper_bound(eng, rep, rule="C06-7.box-projector-is-handed-the-lower-bound-and-the-upper-bound"):
    """Every call of util.pbox(x, l, u): `u` is the expression `l` with the lower-bound name replaced by its upper-bound twin (sl/su, xl/xu, xlb/xub, lower/upper, ..) --
    the same base point, the same frame, the two ends of one box.  `pbox(x, xbase + su, xbase + su)` (or the two ends crossed) type-checks and agrees in frame, but
    the regularised sub-problem is then solved over a box that is a single point / empty."""
    import re
    pb = eng.fn("util.pbox")
    n = 0
    for ci in eng.calls_to(pb.fid):
        node = ci.node
        if len(node.args) < 3:
            continue
        n += 1
        site = eng.where(ci.caller, node)
        l, u = ekey(node.args[1]), ekey(node.args[2])
        okc = False
        for (lo, hi) in LOWER_UPPER_WORDS:
            if re.search(r"(?<![A-Za-z0-9_])%s(?![A-Za-z0-9_])" % re.escape(lo), l) and re.sub(r"(?<![A-Za-z0-9_])%s(?![A-Za-z0-9_])" % re.escape(lo), hi, l) == u:
                okc = True
        if not okc and "lower" in l and l.replace("lower", "upper") == u:
            okc = True          # box_lower / box_upper, lower_bound / upper_bound, ..
        if okc:
            rep.ok(rule, site, "pbox(.., %s, %s): the two ends of one box" % (l[:40], u[:40]))
        elif l == u:
            rep.bad(rule, site, "%s|box-ends-identical|%s" % (ci.caller.fid, l[:40]), "pbox is handed `%s` as both ends of the box: the feasible set of the sub-problem is a single point" % l)
        else:
            # is the pair at least recognisably crossed?
            crossed = any(re.sub(r"(?<![A-Za-z0-9_])%s(?![A-Za-z0-9_])" % re.escape(hi), lo, l) == u and re.search(r"(?<![A-Za-z0-9_])%s(?![A-Za-z0-9_])" % re.escape(hi), l) for (lo, hi) in LOWER_UPPER_WORDS)
            if crossed:
                rep.bad(rule, site, "%s|box-ends-crossed|%s" % (ci.caller.fid, l[:40]), "pbox is handed the upper bound `%s` as lower end and the lower bound `%s` as upper end" % (l, u))
            else:
                rep.unknown(rule, site, "cannot tell whether `%s` / `%s` are the lower and the upper end of one box" % (l[:50], u[:50]))
    rep.require_count(rule, "calls of pbox", n, 2)


def run(eng, rep):
    rep.explain("C06 (pass-through and frame clauses only): callable/tuple roles from solve's parameters are propagated by the 0-CFA atom analysis; every call of "
                "role h/prox_uh/objfun must star-expand exactly the tuple of its own role; no user tuple is star-expanded into a fixed-arity internal callee (T10); "
                "the frame interpreter (T5) checks, per configuration, that every projector handed to dykstra acts in the frame of the projected point and that "
                "callbacks are evaluated in user coordinates and their results combined only with user-frame values.")
    rep.not_decided += ["convergence within 1e-3*(1+F*) and the success flag (numerical)", "quality of the smoothed-FISTA iteration"]
    rep.guarded(rule_pass_through, eng, rep)
    rep.guarded(rule_no_star_into_fixed_arity, eng, rep)
    rep.guarded(rule_none_defaults, eng, rep)
    rep.guarded(rule_subproblem_over_the_box, eng, rep)
    rep.guarded(rule_box_projectors_get_a_lower_and_an_upper_bound, eng, rep)
    n = rule_frames(eng, rep, kinds=("dykstra-frames", "callback-frame", "arith"), rule_prefix="C06-4", exact_rule=None)
    rep.require_count("C06-4.frame-agreement", "dykstra/callback/arithmetic sites analysed over all configurations", n, 60)
