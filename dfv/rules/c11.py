"""C11 -- the returned Jacobian is the fit through the evaluations it names (structural clauses: matrix and labels travel
together, the label snapshot is a copy, labels are point numbers, un-scaling is applied exactly once)."""
import ast

from ..loader import AnalysisError, ekey
from ..norm import atom_of, const_value, is_none
from .. import frames
from .anchors import anchors
from .common import mentions, short, guards_of, assigned_names
from .c03 import rule_roles
from .c02 import final_ctor
from .c16 import _written_field


def rule_pair_written_together(eng, rep, rule="C11-1c.whoever-can-write-the-labels-can-write-the-matrix-and-vice-versa"):
    """Effect summaries over the call graph inside Model: for every method, 'may write model_jac_eval_nums' and 'may write model_jac' (directly or through the Model
    methods it calls) must coincide.  A method that can refresh the labels without recomputing the Jacobian (or the reverse) leaves a matrix paired with the
    evaluation numbers of another point set."""
    model = eng.prog.cls("Model")
    direct = {}
    for m in model.methods.values():
        sn = m.posparams[0] if m.posparams else None
        w = set()
        for node in eng.prog.own_nodes(m):
            tg = node.targets if isinstance(node, ast.Assign) else ([node.target] if isinstance(node, ast.AugAssign) else [])
            for t in tg:
                f = _written_field(t, sn)
                if f in ("model_jac", "model_jac_eval_nums"):
                    w.add(f)
        direct[m.fid] = w
    may = dict((k, set(v)) for k, v in direct.items())
    changed = True
    while changed:
        changed = False
        for m in model.methods.values():
            for ci in eng.calls_in(m):
                for t in ci.targets:
                    if t.fid in may and not may[t.fid] <= may[m.fid]:
                        may[m.fid] |= may[t.fid]
                        changed = True
    n = 0
    for m in sorted(model.methods.values(), key=lambda f: f.qualname):
        if m.qualname.endswith(".__init__") or not may[m.fid]:
            continue
        callers = eng.res.callers.get(m.fid, [])
        if callers and all(ci.caller.cls == "Model" for ci in callers):
            continue          # a private step of a Model method: its effect is part of its callers' summaries
        n += 1
        site = eng.where(m)
        if may[m.fid] == {"model_jac", "model_jac_eval_nums"}:
            rep.ok(rule, site, "%s can write both the Jacobian and its labels" % m.qualname, nontrivial=bool(direct[m.fid]))
        else:
            have = sorted(may[m.fid])[0]
            miss = "model_jac" if have == "model_jac_eval_nums" else "model_jac_eval_nums"
            via = [t.qualname for ci in eng.calls_in(m) for t in ci.targets if t.fid in may and have in may[t.fid]]
            rep.bad(rule, site, "%s|writes-%s-without-%s" % (m.fid, have, miss),
                    "%s can write Model.%s%s but never Model.%s: the returned Jacobian is then paired with the evaluation numbers of a different point set"
                    % (m.qualname, have, (" (through %s)" % via[0]) if via and have not in direct[m.fid] else "", miss))
    rep.require_count(rule, "Model methods that can write the Jacobian or its labels", n, 1)


def rule_observers_do_not_modify_solver_state(eng, rep, rule="C11-6.recording-code-does-not-modify-what-it-records"):
    """The diagnostic recorder is an observer: it reads the controller / model.  An in-place operation (augmented assignment, element store) on a value it obtained
    from them -- e.g. `jac /= scale` on the Jacobian handed out by get_final_results(), which is the saved slot itself -- changes the run it is recording."""
    di = eng.prog.cls("DiagnosticInfo")
    n = 0
    for m in di.methods.values():
        sn = m.posparams[0] if m.posparams else None
        foreign_params = [p for p in m.all_params if p != sn]
        if not foreign_params:
            continue
        cfg = eng.cfg(m)

        def rooted_in_foreign(e, at, depth=3):
            """does the value of e come out of one of the foreign parameters (attribute chain, call on it, unpacking of such a call)?"""
            for sub in ast.walk(e):
                if isinstance(sub, ast.Name):
                    if sub.id in foreign_params:
                        return True
                    if depth > 0 and sub.id != sn:
                        try:
                            defs = cfg.defs_reaching(at, sub.id)
                        except Exception:
                            defs = []
                        for dn in defs:
                            ds = cfg.ast_of(dn)
                            if isinstance(ds, ast.Assign) and rooted_in_foreign(ds.value, ds, depth - 1):
                                # copies / arithmetic results are the recorder's own objects
                                v = ds.value
                                fresh = isinstance(v, ast.BinOp) or (isinstance(v, ast.Call) and ekey(v.func).split(".")[-1] in ("copy", "array", "remove_scaling", "norm", "sqrt", "max", "min", "float", "int", "len", "sumsq"))
                                if not fresh:
                                    return True
            return False

        for node, d in cfg.g.nodes(data=True):
            st = d["ast"]
            if d["kind"] != "stmt":
                continue
            tgt = None
            if isinstance(st, ast.AugAssign):
                tgt = st.target
            elif isinstance(st, ast.Assign) and isinstance(st.targets[0], ast.Subscript):
                tgt = st.targets[0]
            if tgt is None:
                continue
            root = tgt
            while isinstance(root, (ast.Subscript, ast.Attribute)):
                root = root.value
            if not isinstance(root, ast.Name) or root.id == sn:
                continue
            n += 1
            if root.id in foreign_params or rooted_in_foreign(ast.Name(id=root.id, ctx=ast.Load()), st):
                rep.bad(rule, eng.where(m, st), "%s|observer-modifies-solver-state|%s" % (m.fid, short(st, 30)),
                        "`%s` modifies in place a value the recorder obtained from the controller / model: recording an iteration changes the solver's own data (here possibly the saved Jacobian, which get_final_results hands out uncopied)" % short(st, 60))
            else:
                rep.ok(rule, eng.where(m, st), "in-place operation on the recorder's own object", nontrivial=False)
    rep.ok(rule, "dfols/diagnostic_info.py:DiagnosticInfo", "%d in-place operations on non-self objects inspected in the recorder" % n)


def rule_design_matrix_from_evaluated_positions(eng, rep, rule="C11-5.interpolation-system-is-built-from-the-positions-that-were-evaluated"):
    """A stored point is evaluated at its clamped position (Model.xpt applies the bounds on read; growing-phase and perturbed steps store raw positions that can lie
    outside the box).  The fit names those evaluations, so the directions that feed the interpolation system must come through the same accessor: in xpt_directions
    and interpolation_matrix every position is xpt(k) / xopt() (or an expression clamped against sl / su), never a raw read of the points array."""
    model = eng.prog.cls("Model")
    n = 0
    for name in ("xpt_directions", "interpolation_matrix"):
        m = model.methods.get(name)
        if m is None:
            raise AnalysisError("anchor method Model.%s vanished" % name)
        sn = m.posparams[0]
        raw = []
        for node in eng.prog.own_nodes(m):
            if isinstance(node, ast.Attribute) and node.attr == "points" and isinstance(node.value, ast.Name) and node.value.id == sn and isinstance(node.ctx, ast.Load):
                # inside a clamp against the relative bounds?
                cur, clamped = node, False
                for _ in range(8):
                    cur = eng.prog.parent.get(id(cur))
                    if cur is None:
                        break
                    if isinstance(cur, ast.Call) and ekey(cur.func).split(".")[-1] in ("minimum", "maximum", "clip") and any(x in ekey(cur) for x in (".sl", ".su")):
                        clamped = True
                        break
                if not clamped:
                    raw.append(node)
        n += 1
        if raw:
            st = eng.prog.stmt_of(raw[0])
            rep.bad(rule, eng.where(m, st), "%s|raw-points-in-design-matrix" % m.fid,
                    "`%s` reads the stored positions without the bounds applied on read: points stored outside the box were evaluated at their clamped position, so the fit goes through positions that were never evaluated" % short(st, 60))
        else:
            uses_accessor = any(isinstance(c, ast.Call) and ekey(c.func).split(".")[-1] in ("xpt", "xopt", "xpt_directions") for c in eng.prog.own_nodes(m))
            if uses_accessor:
                rep.ok(rule, eng.where(m), "%s takes every position through xpt / xopt (bounds applied on read)" % m.qualname)
            else:
                rep.unknown(rule, eng.where(m), "%s neither reads the points array nor calls the accessors" % m.qualname)
    rep.require_count(rule, "functions feeding the interpolation system", n, 2)


def rule_together(eng, rep, rule="C11-1.matrix-and-labels-are-produced-and-travel-together"):
    im = eng.fn("model.Model.interpolate_mini_models_svd")
    cfg = eng.cfg(im)
    selfn = im.posparams[0]
    jac_nodes, lab_nodes = [], []
    for n, d in cfg.g.nodes(data=True):
        st = d["ast"]
        if d["kind"] == "stmt" and isinstance(st, ast.Assign) and len(st.targets) == 1:
            f = _written_field(st.targets[0], selfn)
            if f == "model_jac" and "solve_geom_system" not in ekey(st.value) and any(isinstance(s, ast.Name) for s in ast.walk(st.value)):
                jac_nodes.append(n)
            if f == "model_jac_eval_nums":
                lab_nodes.append(n)
    # the assignment that takes the Jacobian from the solved system: the one whose value derives from the solve result
    solved = None
    for n in jac_nodes:
        st = cfg.ast_of(n)
        for sub in ast.walk(st.value):
            if isinstance(sub, ast.Name):
                for dn in cfg.defs_reaching(sub, sub.id):
                    ds = cfg.ast_of(dn)
                    if isinstance(ds, ast.Assign) and "solve_geom_system" in ekey(ds.value):
                        solved = n
    site = eng.where(im)
    if solved is None or len(lab_nodes) != 1:
        if any(o.verdict == "violated" and o.rule.startswith("C11-1c") for o in rep.obs):
            rep.note(rule, site, "the label snapshot is not taken next to the Jacobian assignment; the pairing is judged by C11-1c (violated)")
            return
        rep.unknown(rule, site, "cannot find the Jacobian assignment from the solved system / the label snapshot (found %d snapshot sites)" % len(lab_nodes))
    else:
        lab = lab_nodes[0]
        a = cfg.path_avoiding(solved, cfg.exit, [lab])
        b = cfg.path_avoiding(cfg.entry, lab, [solved])
        if a is None and b is None:
            rep.ok(rule, eng.where(im, cfg.ast_of(lab)), "every path that stores a newly solved Jacobian also snapshots the evaluation numbers, and vice versa")
        else:
            rep.bad(rule, eng.where(im, cfg.ast_of(lab)), "model.Model.interpolate_mini_models_svd|jacobian-without-labels",
                    "a path stores a new Jacobian without the label snapshot (or the reverse)", path=cfg.describe_path(a or b)[-10:])
        # the snapshot reads the array the fit was made from (eval_num), with no point replacement in between
        st = cfg.ast_of(lab)
        if "eval_num" in mentions(st.value):
            rep.ok(rule, eng.where(im, st), "labels are taken from Model.eval_num at the time of the fit", nontrivial=False)
        else:
            rep.bad(rule, eng.where(im, st), "model.Model.interpolate_mini_models_svd|labels-from|%s" % short(st.value, 30), "labels are `%s`, not the current evaluation numbers" % short(st.value))
    # merge in solve: jacmin and jacmin_eval_nums replaced under one guard
    A = anchors(eng)
    solve = A.solve
    scfg = eng.cfg(solve)
    ci, b = final_ctor(eng, A)
    jn, ln = b.params.get("jacmin"), b.params.get("jacmin_eval_nums")
    if not (isinstance(jn, ast.Name) and isinstance(ln, ast.Name)):
        rep.unknown(rule, eng.where(solve), "Jacobian / label arguments of the result are not plain names")
        return
    pos = {}
    for c in A.solve_main_calls:
        st = eng.prog.stmt_of(c.node)
        for i, nme in enumerate(assigned_names(st.targets[0])):
            pos.setdefault(nme, i)
    jdefs = [n for n, d in scfg.g.nodes(data=True) if d["kind"] == "stmt" and isinstance(d["ast"], ast.Assign) and jn.id in assigned_names(d["ast"].targets[0]) and not isinstance(d["ast"].targets[0], ast.Subscript)]
    ldefs = [n for n, d in scfg.g.nodes(data=True) if d["kind"] == "stmt" and isinstance(d["ast"], ast.Assign) and ln.id in assigned_names(d["ast"].targets[0])]
    for n in jdefs:
        st = scfg.ast_of(n)
        if isinstance(st.targets[0], (ast.Tuple, ast.List)):
            if n in ldefs:
                rep.ok(rule, eng.where(solve, st), "first run: %s and %s unpacked from the same solve_main result" % (jn.id, ln.id))
            else:
                rep.bad(rule, eng.where(solve, st), "solver.solve|jacobian-unpacked-without-labels", "%s is unpacked without %s" % (jn.id, ln.id))
            continue
        # plain assignment in the merge: same control dependences as a label assignment, matching positions
        cd = frozenset((b2, lab) for (b2, lab) in scfg.control_closure(n))
        twins = [m for m in ldefs if frozenset((b2, lab) for (b2, lab) in scfg.control_closure(m)) == cd and not isinstance(scfg.ast_of(m).targets[0], (ast.Tuple, ast.List))]
        if twins and pos.get(ekey(st.value)) == 3 and pos.get(ekey(scfg.ast_of(twins[0]).value)) == len(pos) - 1 or (twins and pos.get(ekey(st.value)) is not None and pos.get(ekey(scfg.ast_of(twins[0]).value)) is not None
                                                                                                                       and pos.get(ekey(scfg.ast_of(twins[0]).value)) - pos.get(ekey(st.value)) == pos.get(ln.id, 0) - pos.get(jn.id, 0)):
            rep.ok(rule, eng.where(solve, st), "merge replaces %s and %s under the same guard, from the same run" % (jn.id, ln.id))
        else:
            rep.bad(rule, eng.where(solve, st), "solver.solve|merge-jacobian-without-labels", "%s is replaced without replacing %s under the same guard" % (jn.id, ln.id))
    for n in ldefs:
        if n not in jdefs and not isinstance(scfg.ast_of(n).targets[0], (ast.Tuple, ast.List)):
            cd = frozenset((b2, lab) for (b2, lab) in scfg.control_closure(n))
            if not [m for m in jdefs if frozenset((b2, lab) for (b2, lab) in scfg.control_closure(m)) == cd]:
                rep.bad(rule, eng.where(solve, scfg.ast_of(n)), "solver.solve|merge-labels-without-jacobian", "%s is replaced without %s" % (ln.id, jn.id))


def rule_snapshot_is_copy(eng, rep, rule="C11-2.label-snapshot-is-a-copy"):
    vfg = eng.vfg
    src = ("f", "Model", "eval_num")
    sinks = [("f", "Model", "model_jac_eval_nums"), ("f", "Model", "jacsave_eval_nums")]
    for s in sinks:
        if s not in vfg.preds:
            raise AnalysisError("anchor field %s.%s vanished" % (s[1], s[2]))

    def follow(srcn, kind, info, dst):
        if kind not in ("copy", "sel", "proj", "tup", "default"):
            return False
        if isinstance(info, str) and info.startswith("via"):
            return False      # .copy() / np.array(): a fresh object
        return True

    w = vfg.back(sinks, follow)
    if src in w.nodes:
        rep.bad(rule, "Model.model_jac_eval_nums / jacsave_eval_nums", "model.Model|label-snapshot-aliases-eval_num",
                "the evaluation-number labels of a Jacobian alias Model.eval_num, which is updated in place by change_point/swap_points: later replacements silently relabel the old Jacobian",
                path=w.path(src))
    else:
        rep.ok(rule, "Model.model_jac_eval_nums / jacsave_eval_nums", "no alias path from Model.eval_num (in-place writers: change_point, swap_points) to the stored labels: every flow passes .copy()")
    # the matcher is alive: with copies allowed the source must be reachable
    w2 = vfg.back(sinks, lambda a, k, i, d: k in ("copy", "sel", "proj", "tup", "default"))
    if src not in w2.nodes:
        rep.unknown(rule, "Model.model_jac_eval_nums", "labels do not originate from Model.eval_num at all -- anchor lost")


def rule_unscaling_once(eng, rep, rule="C11-4.jacobian-is-un-scaled-exactly-once"):
    A = anchors(eng)
    solve = A.solve
    cfg = eng.cfg(solve)
    ci, b = final_ctor(eng, A)
    jn = b.params.get("jacmin")
    if not isinstance(jn, ast.Name):
        rep.unknown(rule, eng.where(solve), "Jacobian argument of the result is not a plain name")
        return
    J = jn.id
    ctor_node = cfg.cfg_node(ci.node)
    # candidate un-scaling statements: J[...] = J[...] / S  or  J = J / S  (any arithmetic re-definition of J from itself)
    cands = []
    for n, d in cfg.g.nodes(data=True):
        st = d["ast"]
        if d["kind"] != "stmt":
            continue
        if isinstance(st, ast.Assign) and len(st.targets) == 1:
            t = st.targets[0]
            root = t.value if isinstance(t, ast.Subscript) else t
            if ekey(root) == J and isinstance(st.value, ast.BinOp) and J in mentions(st.value.left):
                cands.append((n, st, t, st.value.op, st.value.right))
        elif isinstance(st, ast.AugAssign):
            t = st.target
            root = t.value if isinstance(t, ast.Subscript) else t
            if ekey(root) == J:
                cands.append((n, st, t, st.op, st.value))
    site = eng.where(solve)
    if len(cands) != 1:
        rep.bad(rule, site, "solver.solve|unscaling-sites-%d" % len(cands), "expected exactly one statement that rescales the returned Jacobian, found %d: with internal scaling the columns are %s" % (len(cands), "left in scaled coordinates" if not cands else "rescaled more than once"))
        return
    n, st, t, op, rhs = cands[0]
    from .common import expand_unpacked
    rhs = expand_unpacked(cfg, st, rhs)       # `_, col_scale = scaling_changes ... / col_scale[i]`  ==  `/ scaling_changes[1][i]`
    s2 = eng.where(solve, st)
    problems = []
    if not isinstance(op, ast.Div):
        problems.append(("operator", "columns are combined with the scale by %s instead of a division" % type(op).__name__))
    # the divisor is the scale component [1] of scaling_changes
    sc = [s for s in ast.walk(rhs) if isinstance(s, ast.Subscript) and ekey(s.value) == "scaling_changes"]
    if not sc or const_value(sc[0].slice) != 1:
        problems.append(("component", "the divisor `%s` is not the scale component scaling_changes[1]" % short(rhs)))
    # per column i over range(n) or whole matrix
    loops = [(h, kind, lst) for (h, kind, lst) in cfg.loops if n in cfg.loop_nodes(h)]
    if isinstance(t, ast.Subscript):
        col = t.slice.elts[1] if isinstance(t.slice, ast.Tuple) and len(t.slice.elts) == 2 else None
        if len(loops) != 1 or loops[0][1] != "for" or col is None or ekey(col) != ekey(loops[0][2].target) or not (isinstance(loops[0][2].iter, ast.Call) and ekey(loops[0][2].iter) == "range(n)"):
            problems.append(("columns", "the rescaling is not applied to column i for every i in range(n)"))
        elif not any(ekey(s) == "scaling_changes[1][%s]" % ekey(col) for s in ast.walk(rhs)):
            problems.append(("columns", "column i is not divided by its own scale scaling_changes[1][i]"))
        outer = [l for l in cfg.loops if n in cfg.loop_nodes(l[0]) and l[0] != loops[0][0]] if loops else []
    else:
        outer = loops
    if outer:
        problems.append(("in-loop", "the rescaling sits inside a loop (%s): it is applied once per run, not once" % short(outer[0][2], 40)))
    gs = guards_of(cfg, n)
    g_sc = any(a.op == "isnot" and ekey(a.lhs) == "scaling_changes" and is_none(a.rhs) for (_b, a) in gs)
    g_j = any(a.op == "isnot" and ekey(a.lhs) == J and is_none(a.rhs) for (_b, a) in gs)
    if not g_sc:
        problems.append(("guard-scaling", "the rescaling is not guarded by `scaling_changes is not None`"))
    if not g_j:
        problems.append(("guard-none", "the rescaling is not guarded by `%s is not None`" % J))
    # (the exit test of an earlier `while` loop is not a guard of what follows the loop: every run gets there eventually)
    while_tests = set(m for (h, kind, lst) in cfg.loops if kind == "while" for m in cfg.nodes_of_kind("cond") if cfg.stmt_of(m) is lst and n not in cfg.loop_nodes(h))
    extra = [a for (_b, a) in gs if _b not in while_tests and not (a.op == "isnot" and ekey(a.lhs) in ("scaling_changes", J)) and ekey(a.lhs) != "exit_info"]
    if extra:
        problems.append(("extra-guard", "the rescaling is additionally guarded by `%r`: some scaled runs return scaled columns" % extra[0]))
    # it lies between the last (re)definition of J by a run and the construction of the result
    if cfg.path_avoiding(n, ctor_node, []) is None:
        problems.append(("order", "the rescaling is not followed by the construction of the result"))
    for dn in [x for x, d in cfg.g.nodes(data=True) if d["kind"] == "stmt" and isinstance(d["ast"], ast.Assign) and J in assigned_names(d["ast"].targets[0]) and x != n]:
        if cfg.path_avoiding(n, dn, []) is not None and not loops_contains(cfg, loops, dn):
            problems.append(("order", "%s is re-assigned after the rescaling (`%s`)" % (J, short(cfg.ast_of(dn), 40))))
    if problems:
        for (k, msg) in problems:
            rep.bad(rule, s2, "solver.solve|unscaling-%s" % k, msg)
    else:
        rep.ok(rule, s2, "`%s` for every column, once, after the last run, under `scaling_changes is not None and %s is not None`" % (short(st, 50), J))


def loops_contains(cfg, loops, n):
    return any(n in cfg.loop_nodes(h) for (h, k, s) in loops)


def run(eng, rep):
    rep.explain("C11 (structural clauses): must-pass-through queries on interpolate_mini_models_svd pair the Jacobian assignment with the label snapshot (T2); "
                "value-flow shows the stored labels never alias Model.eval_num without a .copy() (T11); the labels' provenance is the point counter (T4, shared "
                "with C03-1); in solve the returned Jacobian is rescaled by exactly one statement -- column i divided by scaling_changes[1][i] for i in range(n), "
                "outside every other loop, guarded by exactly `scaling_changes is not None and jacmin is not None`, between the last run and the result.")
    rep.explain('Also decided: Jacobian and labels come from the same record at the final selection (C11-1b).')
    rep.not_decided += ["equality with an independent fit / 'equals A for linear residuals' (numerical)"]
    A = anchors(eng)
    rep.guarded(rule_pair_written_together, eng, rep)
    rep.guarded(rule_observers_do_not_modify_solver_state, eng, rep)
    rep.guarded(rule_design_matrix_from_evaluated_positions, eng, rep)
    rep.guarded(rule_together, eng, rep)
    rep.guarded(rule_snapshot_is_copy, eng, rep)
    from .records import rule_snapshots_are_copies
    rep.guarded(rule_snapshots_are_copies, eng, rep, "C11-2b.saved-jacobian-and-its-labels-do-not-alias-live-arrays", [("f", "Model", f) for f in ("jacsave", "jacsave_eval_nums")], "the saved Jacobian")
    rep.guarded(rule_roles, eng, rep, A, rule="C11-3.labels-are-point-numbers")
    from .c03 import rule_tuple_coherence
    rep.guarded(rule_tuple_coherence, eng, rep, A, rule="C11-1b.jacobian-and-labels-come-from-the-same-record")
    rep.guarded(rule_unscaling_once, eng, rep)
