"""C17 -- model bookkeeping stays consistent under any sequence of updates (structural clauses: the five per-point arrays
move together, sample counts, selection tables, validity of the incumbent index).  The running-mean formula is not decided."""
import ast

from ..loader import AnalysisError, ekey
from ..norm import const_value
from .common import mentions, short, guards_of
from .c16 import _written_field
from .selection import rule_selection
from .c03 import rule_objective_construction
from .anchors import anchors


def _grown_by_one(v, t):
    """`np.append(T, value..)` / `np.insert(T, position, value..)` re-bound to T itself: returns the value expression, else None."""
    if isinstance(v, ast.Call) and v.args and ekey(v.args[0]) == ekey(t):
        if ekey(v.func).endswith("append") and len(v.args) >= 2:
            return v.args[1]
        if ekey(v.func).endswith(".insert") and len(v.args) >= 3:
            return v.args[2]
    return None


def record_fields(eng):
    """The per-point record: union of the fields that change_point writes at its index parameter, that swap_points relocates and
    that add_new_point appends to (three sibling views of the same record; any one of them may be the broken one)."""
    out = []
    cp = eng.fn("model.Model.change_point")
    selfn, k = cp.posparams[0], cp.posparams[1]
    for node in eng.prog.own_nodes(cp):
        if isinstance(node, ast.Assign) and len(node.targets) == 1 and isinstance(node.targets[0], ast.Subscript):
            t = node.targets[0]
            f = _written_field(t, selfn)
            idx = t.slice.elts[0] if isinstance(t.slice, ast.Tuple) else t.slice
            if f is not None and ekey(idx) == k and f not in out:
                out.append(f)
    for fid in ("model.Model.swap_points", "model.Model.add_new_point"):
        m = eng.fn(fid)
        sn = m.posparams[0]
        for node in eng.prog.own_nodes(m):
            if isinstance(node, ast.Assign) and len(node.targets) == 1:
                t = node.targets[0]
                f = _written_field(t, sn)
                v = node.value
                moved = (isinstance(t, ast.Subscript) and isinstance(v, ast.Subscript) and ekey(v.value) == ekey(t.value)) or \
                        (isinstance(t, ast.Attribute) and _grown_by_one(v, t) is not None)
                if f is not None and moved and f not in out:
                    out.append(f)
    return out


def _is_append_helper(eng, call):
    """the callee builds  w = <alloc>(len(v) + 1 ...); w[:-1] = v; w[-1] = e; return w   for its first two parameters (v, e)"""
    ci = eng.res.calls.get(id(call))
    if ci is None or len(ci.targets) != 1 or len(call.args) != 2:
        return False
    t = ci.targets[0]
    if t.is_lambda or len(t.posparams) != 2:
        return False
    v, e = t.posparams
    rets = [r for r in eng.prog.own_nodes(t) if isinstance(r, ast.Return)]
    if len(rets) != 1 or not isinstance(rets[0].value, ast.Name):
        return False
    w = rets[0].value.id
    alloc = body = last = False
    for node in eng.prog.own_nodes(t):
        if isinstance(node, ast.Assign) and len(node.targets) == 1:
            tg, val = node.targets[0], node.value
            if isinstance(tg, ast.Name) and tg.id == w and isinstance(val, ast.Call) and ekey(val.func).split(".")[-1] in ("zeros", "empty", "ones", "full"):
                txt = ekey(val).replace(" ", "")
                alloc = ("len(%s)+1" % v) in txt or ("%s.shape[0]+1" % v) in txt or ("%s.size+1" % v) in txt
            elif isinstance(tg, ast.Subscript) and isinstance(tg.value, ast.Name) and tg.value.id == w:
                st = ekey(tg.slice).replace(" ", "")
                if st == ":-1" and ekey(val) == v:
                    body = True
                elif st == "-1" and ekey(val) == e:
                    last = True
    return alloc and body and last


def _helper_stores(eng, m, rec, depth=2):
    """(field, index text) for record stores made on behalf of m by private Model helpers it calls (`self._update_objval(k, ...)`): the helper's own index
    expression is rewritten in terms of the caller's argument when it is one of the helper's parameters."""
    from ..resolve import bind_call
    out = []
    if depth <= 0:
        return out
    for node in eng.prog.own_nodes(m):
        if not isinstance(node, ast.Call):
            continue
        ci = eng.res.calls.get(id(node))
        if ci is None or len(ci.targets) != 1:
            continue
        h = ci.targets[0]
        if h.cls != "Model" or h.fid == m.fid or h.qualname.endswith(".__init__"):
            continue
        cs = eng.res.callers.get(h.fid, [])
        if not (cs and all(c.caller.cls == "Model" for c in cs)):
            continue
        try:
            bound = bind_call(node, h, True).params
        except Exception:
            bound = None
        hself = h.posparams[0] if h.posparams else None
        for n2 in eng.prog.own_nodes(h):
            if not isinstance(n2, (ast.Assign, ast.AugAssign)):
                continue
            for t in (n2.targets if isinstance(n2, ast.Assign) else [n2.target]):
                f = _written_field(t, hself)
                if f in rec and isinstance(t, ast.Subscript):
                    idx = t.slice.elts[0] if isinstance(t.slice, ast.Tuple) else t.slice
                    itxt = ekey(idx)
                    if isinstance(idx, ast.Name) and bound and isinstance(bound.get(idx.id), ast.AST):
                        itxt = ekey(bound[idx.id])
                    out.append((f, itxt))
        out += _helper_stores(eng, h, rec, depth - 1)
    return out


def rule_parallel_arrays(eng, rep, rule="C17-1.per-point-arrays-move-together"):
    rec = record_fields(eng)
    if not rep.require_count(rule, "per-point record fields (written by change_point at index k)", len(rec), 5):
        return rec
    rep.extra["record_fields"] = rec
    model = eng.prog.cls("Model")
    nmeth = 0
    for m in sorted(model.methods.values(), key=lambda f: f.qualname):
        selfn = m.posparams[0] if m.posparams else None
        kinds = {}      # kind -> {field: index text}
        for node in eng.prog.own_nodes(m):
            if not isinstance(node, (ast.Assign, ast.AugAssign)):
                continue
            tg = node.targets if isinstance(node, ast.Assign) else [node.target]
            for t in tg:
                f = _written_field(t, selfn)
                if f not in rec:
                    continue
                val = node.value
                if isinstance(t, ast.Attribute):
                    # whole-array re-binding
                    if _grown_by_one(val, t) is not None:
                        kinds.setdefault("append", {})[f] = "end"
                    elif isinstance(val, ast.Call) and val.args and ekey(val.args[0]) == ekey(t) and _is_append_helper(eng, val):
                        kinds.setdefault("append", {})[f] = "end"       # a local/internal helper that returns a copy with one more entry
                    elif isinstance(val, ast.Call) and id(val) in eng.res.calls and eng.res.calls[id(val)].targets and any(ekey(a) == ekey(t) for a in val.args):
                        rep.unknown(rule, eng.where(m, node), "`%s` re-binds a record array through the internal helper %s, whose effect the rule cannot classify (append / permutation / other)"
                                    % (short(node, 50), eng.res.calls[id(val)].targets[0].qualname))
                        continue
                    elif m.qualname.endswith(".__init__"):
                        kinds.setdefault("alloc", {})[f] = "-"
                    else:
                        kinds.setdefault("rebind", {})[f] = short(val, 30)
                    continue
                idx = t.slice.elts[0] if isinstance(t.slice, ast.Tuple) else t.slice
                itxt = ekey(idx)
                if isinstance(node, ast.Assign) and isinstance(val, ast.Subscript) and ekey(val.value) == ekey(t.value):
                    # same array on both sides: a relocation of entries (swap / permutation)
                    vidx = val.slice.elts[0] if isinstance(val.slice, ast.Tuple) else val.slice
                    kinds.setdefault("relocate", {})[f] = "%s<-%s" % (itxt, ekey(vidx))
                elif isinstance(node, ast.Assign) and isinstance(val, ast.BinOp) and ekey(t) in [ekey(s) for s in ast.walk(val)] and f == "points":
                    kinds.setdefault("transform", {})[f] = itxt     # base shift: decided by C16-3
                elif m.qualname.endswith(".__init__"):
                    kinds.setdefault("alloc", {})[f] = itxt
                else:
                    kinds.setdefault("store", {})[f] = itxt
        callers = eng.res.callers.get(m.fid, [])
        if callers and all(ci.caller.cls == "Model" for ci in callers) and set(kinds) <= {"store"}:
            continue          # a private step (e.g. an extracted `_update_objval(k, ..)`): its stores are counted in the methods that call it, below
        for (f, itxt) in _helper_stores(eng, m, rec):
            kinds.setdefault("store", {}).setdefault(f, itxt)
        if not kinds or set(kinds) <= {"alloc", "transform"}:
            continue
        nmeth += 1
        site = eng.where(m)
        for kind in ("relocate", "append"):
            if kind in kinds:
                got = kinds[kind]
                missing = [f for f in rec if f not in got]
                idxs = set(got.values())
                if missing:
                    rep.bad(rule, site, "%s|%s-misses|%s" % (m.fid, kind, "+".join(missing)),
                            "%s %ss records but leaves %s behind: the arrays no longer describe the same points" % (m.qualname, kind, missing))
                elif len(idxs) != 1:
                    rep.bad(rule, site, "%s|%s-different-indices" % (m.fid, kind), "%s %ss the record arrays with different index expressions %s" % (m.qualname, kind, sorted(idxs)))
                else:
                    rep.ok(rule, site, "%s %ss all %d record arrays with the same index expression (%s)" % (m.qualname, kind, len(rec), idxs.pop()))
        if "store" in kinds:
            got = kinds["store"]
            idxs = set(got.values())
            if set(got) == set(rec):
                if len(idxs) == 1:
                    rep.ok(rule, site, "%s replaces a record: all %d arrays written at index %s" % (m.qualname, len(rec), idxs.pop()))
                else:
                    rep.bad(rule, site, "%s|replace-different-indices" % m.fid, "record arrays are written at different indices %s" % sorted(idxs))
            else:
                # a partial writer is legitimate only for re-sampling the same point: residual, objective, sample count
                partial = set(got)
                if partial == {"fval_v", "objval", "nsamples"} and len(idxs) == 1:
                    rep.ok(rule, site, "%s re-samples a point: writes exactly residual, objective and sample count at index %s" % (m.qualname, idxs.pop()))
                else:
                    rep.bad(rule, site, "%s|partial-record-write|%s" % (m.fid, "+".join(sorted(partial))),
                            "%s writes only %s of the per-point record %s" % (m.qualname, sorted(partial), rec))
        if "rebind" in kinds:
            rep.bad(rule, site, "%s|record-array-rebound|%s" % (m.fid, "+".join(sorted(kinds["rebind"]))), "%s re-binds %s to something other than an append of itself" % (m.qualname, sorted(kinds["rebind"])))
    rep.require_count(rule, "Model methods that move or write records", nmeth, 4)
    return rec


def rule_sample_counts(eng, rep, rule="C17-3.sample-count-is-1-on-replace-and-plus-1-on-resample"):
    model = eng.prog.cls("Model")
    n = 0
    for m in sorted(model.methods.values(), key=lambda f: f.qualname):
        if m.qualname.endswith(".__init__"):
            continue
        selfn = m.posparams[0] if m.posparams else None
        writes_pts = averaged = False
        ns = []
        for node in eng.prog.own_nodes(m):
            if isinstance(node, (ast.Assign, ast.AugAssign)):
                tg = node.targets if isinstance(node, ast.Assign) else [node.target]
                for t in tg:
                    f = _written_field(t, selfn)
                    if f == "nsamples":
                        ns.append(node)
                    if f == "points" and isinstance(node, ast.Assign) and not (isinstance(node.value, ast.BinOp) and ekey(t) in [ekey(s) for s in ast.walk(node.value)]) \
                            and not (isinstance(node.value, ast.Subscript) and ekey(node.value.value) == ekey(t.value if isinstance(t, ast.Subscript) else t)):
                        writes_pts = True
                    if f == "fval_v" and isinstance(node, ast.Assign) and isinstance(node.value, ast.BinOp) and ekey(t) in [ekey(s) for s in ast.walk(node.value)]:
                        averaged = True
        for node in ns:
            n += 1
            site = eng.where(m, node)
            if isinstance(node, ast.AugAssign):
                if averaged and isinstance(node.op, ast.Add) and const_value(node.value) == 1:
                    rep.ok(rule, site, "nsamples[k] += 1 where the residual is averaged with one new sample")
                else:
                    rep.bad(rule, site, "%s|nsamples-increment" % m.fid, "`%s`: sample count must grow by exactly 1, and only where a sample is averaged in" % short(node))
            else:
                v = node.value
                # `n_old = self.nsamples[k]; ...; self.nsamples[k] = n_old + 1` is the increment written out
                from .common import expand_locals
                ve = expand_locals(eng.cfg(m), node, v)
                tkey = ekey(node.targets[0])
                if averaged and isinstance(ve, ast.BinOp) and isinstance(ve.op, ast.Add) and \
                        ((ekey(ve.left) == tkey and const_value(ve.right) == 1) or (ekey(ve.right) == tkey and const_value(ve.left) == 1)):
                    rep.ok(rule, site, "nsamples[k] = nsamples[k] + 1 (through a temporary) where the residual is averaged with one new sample")
                    continue
                lit = const_value(v) == 1 or (isinstance(v, ast.Call) and (ekey(v.func).endswith("append") or _is_append_helper(eng, v)) and len(v.args) > 1 and const_value(v.args[1]) == 1) \
                    or (isinstance(v, ast.Call) and ekey(v.func).endswith(".insert") and len(v.args) > 2 and const_value(v.args[2]) == 1)
                reloc = isinstance(v, ast.Subscript) and "nsamples" in ekey(v.value)
                if writes_pts and lit:
                    rep.ok(rule, site, "a replaced / appended point starts with sample count 1")
                elif reloc:
                    rep.ok(rule, site, "sample counts relocated with their points", nontrivial=False)
                else:
                    rep.bad(rule, site, "%s|nsamples-store|%s" % (m.fid, short(v, 20)), "`%s`: a sample count may only be set to 1 when the point is replaced/appended" % short(node))
        if writes_pts and not ns:
            rep.bad(rule, eng.where(m), "%s|point-replaced-without-resetting-nsamples" % m.fid, "%s replaces a point but keeps the old sample count" % m.qualname)
    rep.require_count(rule, "writes of the sample-count array", n, 3)


def rule_kopt_valid(eng, rep, rule="C17-5.incumbent-index-stays-valid"):
    model = eng.prog.cls("Model")
    n = 0
    for m in sorted(model.methods.values(), key=lambda f: f.qualname):
        selfn = m.posparams[0] if m.posparams else None
        cfg = eng.cfg(m)
        for nn, d in cfg.g.nodes(data=True):
            st = d["ast"]
            if d["kind"] != "stmt" or not isinstance(st, ast.Assign) or len(st.targets) != 1 or _written_field(st.targets[0], selfn) != "kopt" \
                    or not isinstance(st.targets[0], ast.Attribute):
                continue
            n += 1
            v = st.value
            site = eng.where(m, st)
            txt = ekey(v)
            how = None
            if const_value(v) == 0 and m.qualname.endswith(".__init__"):
                how = "initial point 0"
            elif isinstance(v, ast.Name) and v.id in m.all_params:
                # bounded by an assert  0 <= k < npt()  or by the growing branch  k == npt_so_far (then npt_so_far += 1)
                asserts = [a for a in eng.prog.own_nodes(m) if isinstance(a, ast.Assert) and v.id in mentions(a.test) and ("npt" in ekey(a.test))]
                swap_partner = any(isinstance(c, ast.Compare) and "kopt" in ekey(c) and v.id != ekey(c.comparators[0]) for c in ast.walk(m.node) if isinstance(c, ast.Compare))
                if asserts:
                    how = "parameter `%s` bounded by `assert %s`" % (v.id, short(asserts[0].test, 40))
                elif swap_partner:
                    how = "swap partner of the old incumbent index"
            elif txt.replace(" ", "") == "%s.npt()-1" % selfn:
                how = "last point after an append"
            elif isinstance(v, ast.Call) and ekey(v.func).endswith(("nanargmin", "argmin")):
                a0 = v.args[0] if v.args else None
                bounded = False
                if isinstance(a0, ast.Subscript) and "npt()" in ekey(a0.slice):
                    bounded = True
                elif isinstance(a0, ast.Name):
                    defs = cfg.defs_reaching(a0, a0.id)
                    bounded = bool(defs) and all(isinstance(cfg.ast_of(x), ast.Assign) and isinstance(cfg.ast_of(x).value, ast.Subscript) and "npt()" in ekey(cfg.ast_of(x).value.slice) for x in defs)
                if bounded:
                    how = "arg-min over the first npt() entries"
            if how:
                rep.ok(rule, site, "kopt := %s -- %s" % (short(v, 30), how))
            else:
                rep.bad(rule, site, "%s|kopt-store|%s" % (m.fid, short(v, 30)), "`%s`: the new incumbent index is not bounded by npt() in a recognised way" % short(st))
    rep.require_count(rule, "stores to the incumbent index", n, 4)


def rule_reselection_guard(eng, rep, rule="C17-4b.incumbent-is-re-selected-whenever-a-finite-value-exists"):
    """add_new_sample re-selects the incumbent by a NaN-ignoring arg-min.  The only admissible guard is `not all values are NaN` (needed because nanargmin
    raises on an all-NaN slice); any stronger guard skips the re-selection and leaves kopt on a point that is no longer the best."""
    m = eng.fn("model.Model.add_new_sample")
    cfg = eng.cfg(m)
    n = 0
    for nn, d in cfg.g.nodes(data=True):
        st = d["ast"]
        if d["kind"] == "stmt" and isinstance(st, ast.Assign) and _written_field(st.targets[0], m.posparams[0]) == "kopt":
            n += 1
            gs = guards_of(cfg, nn)
            bad = []
            for (_b, a) in gs:
                from .common import expand_locals
                lhs_x = expand_locals(cfg, cfg.ast_of(_b), a.lhs, depth=1) if isinstance(a.lhs, ast.Name) else a.lhs       # `all_nan = np.all(np.isnan(..)); if not all_nan:`
                t = ekey(lhs_x).replace("numpy", "np")
                if a.op == "false" and t.startswith("np.all(np.isnan("):
                    continue
                bad.append(a)
            site = eng.where(m, st)
            if bad:
                rep.bad(rule, site, "model.Model.add_new_sample|reselection-guard|%s" % short(bad[0].lhs, 30),
                        "the incumbent is re-selected only if `%r`: whenever that fails although a finite value is stored, kopt stays on a point that is no longer the best" % bad[0])
            else:
                rep.ok(rule, site, "re-selection runs whenever some stored objective is not NaN")
    rep.require_count(rule, "incumbent re-selections in add_new_sample", n, 1)
    # must-pass-through: every normal exit of add_new_sample lies behind the re-selection, or behind the all-NaN outcome of its admissible guard
    # (dominance-based guards do not see an early `return` placed before the re-selection)
    from ..dataflow import Flow
    from ..norm import atom_of
    resel = set(nn for nn, d in cfg.g.nodes(data=True) if d["kind"] == "stmt" and isinstance(d["ast"], ast.Assign)
                and _written_field(d["ast"].targets[0], m.posparams[0]) == "kopt")

    def node_fn(nn, s):
        return ["done"] if nn in resel else [s]

    def edge_fn(a, b, e, s):
        if s == "pending" and cfg.kind(a) == "cond" and e.get("label") in (True, False):
            at = atom_of(cfg.ast_of(a), e["label"])
            from .common import expand_locals
            lhs_x = expand_locals(cfg, cfg.ast_of(a), at.lhs, depth=1) if isinstance(at.lhs, ast.Name) else at.lhs
            if at.op == "truth" and ekey(lhs_x).replace("numpy", "np").startswith("np.all(np.isnan("):
                return "done"
        return s

    fl = Flow(cfg, "pending", node_fn, edge_fn)
    if "pending" in set(fl.states(cfg.exit)):
        p = fl.path_to(cfg.exit, "pending")
        last = [x for x in p if cfg.kind(x) == "stmt" and isinstance(cfg.ast_of(x), ast.Return)]
        where = eng.where(m, cfg.ast_of(last[-1])) if last else eng.where(m)
        rep.bad(rule, where, "model.Model.add_new_sample|exit-without-reselection",
                "add_new_sample can return after changing objval[k] without re-selecting the incumbent although finite values are stored: kopt no longer designates the smallest stored objective",
                path=cfg.describe_path(p)[-12:])
    else:
        rep.ok(rule, eng.where(m), "every normal exit of add_new_sample lies behind the re-selection or behind `all values are NaN`")


class _NoForm(Exception):
    pass


def rule_running_mean(eng, rep, rule="C17-8.re-sampled-residual-is-the-arithmetic-mean-of-its-samples"):
    """Where a residual row is updated from itself and a new sample (Model.add_new_sample), the stored value must be the arithmetic mean again: with n samples so far,
    new row == (n*old + sample)/(n+1) *as a rational function* of (old, sample, n).  The statement (temporaries and one-expression helpers looked through) is translated
    to a rational expression -- each read of the sample count becomes n or n+1 according to whether the count's own increment lies before or after the read -- and
    normalised (sympy.cancel; a normal form, no search).  Any algebraically equal way of writing the update passes; a weight of the wrong phase (n+1 over n+2, 1/n) does not."""
    import sympy as sp
    from .common import inline_simple_calls
    model = eng.prog.cls("Model")
    nsites = 0
    for m in sorted(model.methods.values(), key=lambda f: f.qualname):
        if m.qualname.endswith(".__init__"):
            continue
        selfn = m.posparams[0] if m.posparams else None
        cfg = eng.cfg(m)
        for node in list(eng.prog.own_nodes(m)):
            if not (isinstance(node, ast.Assign) and len(node.targets) == 1 and _written_field(node.targets[0], selfn) == "fval_v" and isinstance(node.targets[0], ast.Subscript)):
                continue
            tgt = node.targets[0]
            tkey = ekey(tgt)
            if tkey not in [ekey(x) for x in ast.walk(node.value)]:
                # maybe through a temporary: old = self.fval_v[k, :]; ... handled below by the translator; cheap pre-filter on the field name
                if "fval_v" not in mentions(node.value) and not any(isinstance(x, ast.Name) and x.id not in m.all_params for x in ast.walk(node.value)):
                    continue
            sl = tgt.slice
            idx = sl.elts[0] if isinstance(sl, ast.Tuple) and sl.elts else sl
            ikey = ekey(idx)
            incs = [cfg.cfg_node(x) for x in eng.prog.own_nodes(m) if (isinstance(x, ast.AugAssign) and _written_field(x.target, selfn) == "nsamples")
                    or (isinstance(x, ast.Assign) and any(_written_field(t, selfn) == "nsamples" for t in x.targets))]
            n, OLD = sp.Symbol("n", positive=True), sp.Symbol("old", real=True)
            others = {}
            seen_old = [False]

            def phase(stmt):
                here = cfg.cfg_node(stmt)
                if not incs:
                    return n
                after = [i for i in incs if cfg.path_avoiding(i, here, []) is not None and i != here]
                if not after:
                    return n
                if all(cfg.dominates(i, here) for i in incs) and all(cfg.path_avoiding(here, i, []) is None for i in incs):
                    return n + 1
                raise _NoForm("the sample count is incremented on some paths before `%s` and on others after" % short(stmt, 40))

            def tr(e, stmt, depth=6):
                if isinstance(e, ast.Constant) and isinstance(e.value, (int, float)) and not isinstance(e.value, bool):
                    return sp.nsimplify(e.value)
                if isinstance(e, ast.BinOp) and isinstance(e.op, (ast.Add, ast.Sub, ast.Mult, ast.Div)):
                    l, r = tr(e.left, stmt, depth), tr(e.right, stmt, depth)
                    return l + r if isinstance(e.op, ast.Add) else l - r if isinstance(e.op, ast.Sub) else l * r if isinstance(e.op, ast.Mult) else l / r
                if isinstance(e, ast.UnaryOp) and isinstance(e.op, (ast.USub, ast.UAdd)):
                    v = tr(e.operand, stmt, depth)
                    return -v if isinstance(e.op, ast.USub) else v
                if isinstance(e, ast.Call) and ekey(e.func) in ("float", "np.float64", "numpy.float64", "np.asarray", "np.array") and len(e.args) == 1 and not e.keywords:
                    return tr(e.args[0], stmt, depth)
                if isinstance(e, ast.Call) and isinstance(e.func, ast.Attribute) and e.func.attr == "copy" and not e.args:
                    return tr(e.func.value, stmt, depth)
                if isinstance(e, ast.Call):
                    e2 = inline_simple_calls(eng, e, depth=1)
                    if not isinstance(e2, ast.Call) or ekey(e2) != ekey(e):
                        return tr(e2, stmt, depth - 1)
                    raise _NoForm("call `%s` has no rational form" % short(e, 40))
                if isinstance(e, (ast.Subscript, ast.Attribute)):
                    k = ekey(e)
                    if k == tkey:
                        seen_old[0] = True
                        return OLD
                    root = e
                    while isinstance(root, ast.Subscript):
                        root = root.value
                    if isinstance(root, ast.Attribute) and isinstance(root.value, ast.Name) and root.value.id == selfn and root.attr == "nsamples":
                        i2 = e.slice if isinstance(e, ast.Subscript) else None
                        if i2 is not None and ekey(i2) == ikey:
                            return phase(stmt)
                        raise _NoForm("reads the sample count of another slot: `%s`" % short(e, 40))
                    return others.setdefault(k, sp.Symbol("v%d" % len(others), real=True))
                if isinstance(e, ast.Name):
                    if e.id in m.all_params:
                        defs = cfg.defs_reaching(stmt, e.id)
                        if all(cfg.kind(d) == "entry" for d in defs):
                            return others.setdefault(e.id, sp.Symbol("p_" + e.id, real=True))
                    defs = cfg.defs_reaching(stmt, e.id)
                    if len(defs) == 1 and depth > 0:
                        st = cfg.ast_of(defs[0])
                        if isinstance(st, ast.Assign) and len(st.targets) == 1 and isinstance(st.targets[0], ast.Name):
                            return tr(st.value, st, depth - 1)
                    raise _NoForm("`%s` has no single defining expression here" % e.id)
                raise _NoForm("`%s` has no rational form" % short(e, 40))

            site = eng.where(m, node)
            try:
                V = tr(node.value, node)
            except _NoForm as ex:
                if tkey in [ekey(x) for x in ast.walk(node.value)]:
                    nsites += 1
                    rep.unknown(rule, site, "`%s`: %s" % (short(node, 60), ex))
                continue
            if not seen_old[0]:
                continue          # a plain store (replace / append / relocation), not an update from the row itself
            nsites += 1
            news = [v for k, v in others.items() if V.has(v)]
            pnews = [k for k, v in others.items() if V.has(v)]
            if len(news) != 1 or pnews[0] not in m.all_params:
                if not news:
                    rep.bad(rule, site, "%s|update-ignores-the-new-sample" % m.fid, "`%s`: the updated residual does not depend on any new sample" % short(node, 60))
                else:
                    rep.unknown(rule, site, "`%s`: more than one value besides the old row and the sample count enters the update (%s)" % (short(node, 60), ", ".join(sorted(pnews))))
                continue
            NEW = news[0]
            want = (n * OLD + NEW) / (n + 1)
            diff = sp.cancel(sp.together(V - want))
            if diff == 0:
                rep.ok(rule, site, "`%s` == (n*old + %s)/(n+1) as a rational function (n = samples before this one; the count is incremented %s)"
                       % (short(node, 50), pnews[0], "afterwards" if not V.has(n + 2) else "first"))
            else:
                got = sp.collect(sp.expand(sp.cancel(sp.together(V))), [OLD, NEW])
                rep.bad(rule, site, "%s|not-the-arithmetic-mean" % m.fid,
                        "`%s`: with n samples averaged so far the new row is %s, but the arithmetic mean of the n+1 samples is (n*old + new)/(n+1)"
                        % (short(node, 60), str(got).replace(str(NEW), "new")))
    rep.require_count(rule, "residual rows updated from themselves and a new sample", nsites, 1)


def rule_new_records_land_inside_the_count(eng, rep, rule="C17-9.a-record-added-to-the-set-is-stored-where-the-point-count-puts-it"):
    """The per-point arrays are allocated at the capacity of the set (`num_pts` rows); the points held are rows [0, npt()) with npt() = min(capacity, points added
    so far).  A method that makes the arrays one row longer and counts the new record (`npt_so_far += 1`) must store it in row npt() -- the first unused row.
    `np.append` puts it behind ALL rows, which is row npt() only when the set is full; while the set is still growing the new record lies outside [0, npt()),
    a blank row (residual inf) is counted instead and `kopt = npt() - 1` designates that blank row.  Accepted: `np.insert(A, self.npt(), ..)` (position read
    before the count changes), or an append guarded by a test that the set is full."""
    from .common import capacity_fields
    caps = capacity_fields(eng)
    rec = set(record_fields(eng))
    model = eng.prog.cls("Model")
    n = 0
    for m in sorted(model.methods.values(), key=lambda f: f.qualname):
        sn = m.posparams[0] if m.posparams else None
        grows = []
        for node in eng.prog.own_nodes(m):
            if isinstance(node, ast.Assign) and len(node.targets) == 1 and isinstance(node.targets[0], ast.Attribute) and node.targets[0].attr in rec \
                    and isinstance(node.value, ast.Call) and isinstance(node.value.func, ast.Attribute) and node.value.func.attr in ("append", "insert", "vstack", "concatenate", "r_") \
                    and node.value.args and ekey(node.value.args[0]) == ekey(node.targets[0]):
                grows.append(node)
        if not grows:
            continue
        cfg = eng.cfg(m)
        counts = [k for k, d in cfg.g.nodes(data=True) if d["kind"] == "stmt" and isinstance(d["ast"], ast.AugAssign) and isinstance(d["ast"].target, ast.Attribute)
                  and d["ast"].target.attr == "npt_so_far"]
        for node in grows:
            n += 1
            site = eng.where(m, node)
            fld = node.targets[0].attr
            how = node.value.func.attr
            if how == "insert" and len(node.value.args) >= 2:
                pos = node.value.args[1]
                exprs = [pos]
                if isinstance(pos, ast.Name):
                    exprs = [cfg.ast_of(d).value for d in cfg.defs_reaching(node, pos.id) if isinstance(cfg.ast_of(d), ast.Assign)]
                    at = [d for d in cfg.defs_reaching(node, pos.id)]
                else:
                    at = [cfg.cfg_node(node)]
                # npt() itself, or the expression npt() returns written out (`min(self.num_pts, self.npt_so_far)`)
                nptf = eng.fn("model.Model.npt")
                nrets = [r.value for r in eng.prog.own_nodes(nptf) if isinstance(r, ast.Return) and r.value is not None]
                npt_texts = set(ekey(r).replace(nptf.posparams[0] + ".", sn + ".") for r in nrets) if len(nrets) == 1 else set()
                is_count = bool(exprs) and all((isinstance(e, ast.Call) and isinstance(e.func, ast.Attribute) and e.func.attr == "npt" and not e.args) or ekey(e) in npt_texts for e in exprs)
                stale = any(cfg.path_avoiding(c, a, []) is not None for c in counts for a in at)
                if is_count and not stale:
                    rep.ok(rule, site, "Model.%s: the new row is inserted at npt(), read before the count is increased" % fld)
                elif is_count:
                    rep.bad(rule, site, "%s|insert-position-read-after-the-count-changed|%s" % (m.fid, fld), "the insert position of Model.%s is npt() read after npt_so_far was increased: one row too far" % fld)
                else:
                    rep.bad(rule, site, "%s|insert-position-is-not-the-point-count|%s" % (m.fid, fld),
                            "Model.%s gets its new row at `%s`, not at npt(): the record is not where the point count puts it" % (fld, ekey(pos)))
                continue
            # append / stack: behind every allocated row
            full = False
            for (_b, a) in guards_of(cfg, cfg.cfg_node(node)):
                txt = (ekey(a.lhs) if a.lhs is not None else "") + " " + (ekey(a.rhs) if a.rhs is not None else "")
                if a.op in ("le", "eq") and any(c in txt for c in caps) and ("npt_so_far" in txt or "npt()" in txt):
                    full = True
            if full or not counts:
                rep.ok(rule, site, "Model.%s is appended %s" % (fld, "under a test that the set is full" if full else "by a method that does not count a new point"), nontrivial=full)
            else:
                rep.bad(rule, site, "%s|appended-behind-unused-rows|%s" % (m.fid, fld),
                        "Model.%s grows by np.%s (behind all %s allocated rows) while the method counts the record through npt_so_far: when the set is still growing (npt_so_far < %s) the new "
                        "record lies outside [0, npt()) and a blank row is counted instead" % (fld, how, "/".join(sorted(caps)), "/".join(sorted(caps))))
    rep.require_count(rule, "statements that make a per-point array one row longer", n, 3)


def rule_swaps_repoint_the_incumbent(eng, rep, rule="C17-5b.a-swap-of-two-records-re-points-the-incumbent-index-both-ways"):
    """A Model method that exchanges two records (`A[[i, j]] = A[[j, i]]` on the per-point arrays) moves the incumbent's record when kopt is i or j: the stores to kopt
    must map i -> j and j -> i, each under the test `kopt == <the other>` (a missing or one-sided re-pointing leaves kopt on the record that moved away)."""
    model = eng.prog.cls("Model")
    rec = set(record_fields(eng))
    n = 0
    for m in sorted(model.methods.values(), key=lambda f: f.qualname):
        sn = m.posparams[0] if m.posparams else None
        pairs = set()
        for node in eng.prog.own_nodes(m):
            if isinstance(node, ast.Assign) and len(node.targets) == 1 and isinstance(node.targets[0], ast.Subscript) and isinstance(node.value, ast.Subscript):
                t, v = node.targets[0], node.value
                if _written_field(t, sn) in rec and ekey(t.value) == ekey(v.value):
                    ti = t.slice.elts[0] if isinstance(t.slice, ast.Tuple) else t.slice
                    vi = v.slice.elts[0] if isinstance(v.slice, ast.Tuple) else v.slice
                    mcfg = eng.cfg(m)

                    def _lst(e):
                        if isinstance(e, ast.Name):         # index list through a temporary: dest = [k1, k2]
                            dd = [mcfg.ast_of(x) for x in mcfg.defs_reaching(node, e.id)]
                            if len(dd) == 1 and isinstance(dd[0], ast.Assign) and isinstance(dd[0].value, ast.List):
                                return dd[0].value
                        return e
                    ti, vi = _lst(ti), _lst(vi)
                    if isinstance(ti, ast.List) and isinstance(vi, ast.List) and len(ti.elts) == 2 and len(vi.elts) == 2 \
                            and ekey(ti.elts[0]) == ekey(vi.elts[1]) and ekey(ti.elts[1]) == ekey(vi.elts[0]):
                        pairs.add((ekey(ti.elts[0]), ekey(ti.elts[1])))
        if not pairs:
            continue
        cfg = eng.cfg(m)
        for (a, b) in sorted(pairs):
            n += 1
            site = eng.where(m)
            maps = set()
            for k, d in cfg.g.nodes(data=True):
                st = d["ast"]
                if d["kind"] == "stmt" and isinstance(st, ast.Assign) and len(st.targets) == 1 and isinstance(st.targets[0], ast.Attribute) and st.targets[0].attr == "kopt":
                    for (_bn, at) in guards_of(cfg, k):
                        if at.op == "eq":
                            l, r = ekey(at.lhs), ekey(at.rhs)
                            other = r if l.endswith(".kopt") else (l if r.endswith(".kopt") else None)
                            if other is not None:
                                maps.add((other, ekey(st.value)))
            need = {(a, b), (b, a)}
            if need <= maps:
                rep.ok(rule, site, "records %s and %s are exchanged and kopt is re-pointed %s -> %s and %s -> %s" % (a, b, a, b, b, a))
            elif any(d["kind"] == "stmt" and isinstance(d["ast"], ast.Assign) and len(d["ast"].targets) == 1 and isinstance(d["ast"].targets[0], ast.Attribute)
                     and d["ast"].targets[0].attr == "kopt" and isinstance(d["ast"].value, (ast.IfExp, ast.Subscript, ast.Call)) for _k, d in cfg.g.nodes(data=True)):
                rep.unknown(rule, site, "kopt is re-pointed by an expression form (conditional expression / look-up) this rule does not interpret")
            else:
                miss = sorted(need - maps)
                rep.bad(rule, site, "%s|incumbent-not-re-pointed|%s" % (m.fid, ",".join("%s->%s" % x for x in miss)),
                        "%s exchanges the records %s and %s but does not re-point kopt for %s: after the swap kopt designates the record that moved away"
                        % (m.qualname, a, b, ", ".join("kopt == %s" % x[0] for x in miss)))
    rep.require_count(rule, "record exchanges in Model methods", n, 1)


def run(eng, rep):
    rep.explain("C17 (structural clauses): the per-point record is derived from change_point (fields written at index k); every Model method that relocates, appends, "
                "replaces or re-samples records must touch all record arrays with one index expression (T4 coherence); sample counts are set to 1 exactly on "
                "replace/append and incremented by 1 exactly where a residual is averaged; every stored objective is sumsq(residual)[+h] (shared with C03-5); "
                "complete decision tables (ordering, ties, NaN, None) for incumbent moves and the final selection (T6); every store to kopt is bounded by npt().")
    rep.explain("Also decided: the re-selection after a re-sample is guarded only by 'not all NaN' and lies on every path to a normal exit (C17-4b); the saved record never aliases live arrays (C17-6); extra samples go to the slot of their point (C17-7); append helpers are recognised structurally.")
    rep.explain("The running-mean update of a re-sampled residual equals (n*old + new)/(n+1) as a rational function, with each read of the sample count placed before or after its increment (C17-8, sympy.cancel as normaliser).")
    rep.not_decided += ["rounding error of the running mean (the identity is decided over the rationals)"]
    rep.guarded(rule_parallel_arrays, eng, rep)
    A = anchors(eng)
    rep.guarded(rule_objective_construction, eng, rep, A)
    rep.guarded(rule_sample_counts, eng, rep)
    rep.guarded(rule_selection, eng, rep, "C17-4.incumbent-and-final-selection-tables", {"ORDER", "NAN_CAND", "NAN_HOLDER", "NONE_HOLDER"}, "C17")
    rep.guarded(rule_kopt_valid, eng, rep)
    rep.guarded(rule_swaps_repoint_the_incumbent, eng, rep)
    rep.guarded(rule_new_records_land_inside_the_count, eng, rep)
    rep.guarded(rule_reselection_guard, eng, rep)
    rep.guarded(rule_running_mean, eng, rep)
    from .records import rule_snapshots_are_copies
    from .c03 import rule_extra_samples_same_slot
    rep.guarded(rule_extra_samples_same_slot, eng, rep, rule="C17-7.extra-samples-go-to-the-slot-of-their-point")
    # ('evaluation numbers travel with their points' at the call sites of the stores is decided by C03-3 and not repeated here: it would only duplicate
    #  the four recorded findings of the parallel initialisers under a second property)
    rep.guarded(rule_snapshots_are_copies, eng, rep, "C17-6.saved-record-does-not-alias-live-arrays", [("f", "Model", f) for f in ("xsave", "rsave", "jacsave", "jacsave_eval_nums")], "the saved-point slot")
