"""C04 -- the best point ever evaluated is never lost (structural clauses).

Decided: every evaluation result is offered to the model on every path (typestate 'pending result');
the incumbent is saved before a soft restart can overwrite it; every selection prefers the smaller value
(decision tables); every exit of solve_main returns what get_final_results selected after the last mutation.
"""
import ast

from ..loader import AnalysisError, ekey
from ..norm import atom_of, const_value, is_none
from ..dataflow import Flow
from .. import tables
from .anchors import anchors
from .common import mentions, guards_of, short, assigned_names, calls_to_in
from .records import eval_sites, consumers_in, result_positions, CONSUMERS
from .selection import rule_selection


def _exit_label(cfg, n):
    d = cfg.g.nodes[n]
    if d.get("jump"):
        return d["jump"]
    if isinstance(d["ast"], ast.Return):
        return "return"
    return d["kind"]


def _context_key(eng, cfg, n):
    """Stable description of where a path ends: the last call statement that precedes the exit on its dominator chain."""
    idom = cfg.dominators()
    cur = n
    for _ in range(60):
        cur = idom.get(cur)
        if cur is None or cur == cfg.entry:
            break
        st = cfg.ast_of(cur)
        if cfg.kind(cur) == "stmt" and isinstance(st, ast.Assign) and isinstance(st.value, ast.Call):
            f = st.value.func
            name = f.attr if isinstance(f, ast.Attribute) else (f.id if isinstance(f, ast.Name) else "?")
            if name in ("soft_restart", "ExitInformation", "max"):
                continue
            return "after-%s" % name
    return "?"


def _drain_loops(eng, fi, cfg, es, un, cons):
    """Heads of loops that, from inside the consumer loop of a parked list, offer the current entry and all later ones to a record consumer:
    `for j in range(<consumer loop variable>, <the consumer loop's own upper bound>)` whose body unpacks `L[idx(j)]` with the consumer's own index expression
    (loop variable renamed) and hands the unpacked residual to a consumer."""
    import re
    out = set()
    # the consumer loop: innermost for-loop containing the unpack
    outer = [(h, st) for (h, kind, st) in cfg.loops if kind == "for" and un in cfg.loop_nodes(h)]
    if not outer:
        return out
    h0, st0 = min(outer, key=lambda hs: len(cfg.loop_nodes(hs[0])))
    if not (isinstance(st0.target, ast.Name) and isinstance(st0.iter, ast.Call) and ekey(st0.iter.func) == "range" and st0.iter.args):
        return out
    v = st0.target.id
    upper0 = ekey(st0.iter.args[-1] if len(st0.iter.args) >= 2 else st0.iter.args[0])
    uidx = ekey(cfg.ast_of(un).value.slice)

    def ren(txt, name):
        return re.sub(r"\b%s\b" % re.escape(name), "VAR", txt)
    for (h, kind, st) in cfg.loops:
        if kind != "for" or h == h0 or not any(x is st for x in ast.walk(st0)):
            continue          # (lexically inside the consumer loop: a branch that returns is not part of its natural loop)
        if not (isinstance(st.target, ast.Name) and isinstance(st.iter, ast.Call) and ekey(st.iter.func) == "range" and len(st.iter.args) == 2):
            continue
        lo, up = st.iter.args
        if not (isinstance(lo, ast.Name) and lo.id == v and ekey(up) == upper0):
            continue
        j = st.target.id
        inner_unpack = None
        for n in cfg.loop_nodes(h):
            a = cfg.ast_of(n)
            if cfg.kind(n) == "stmt" and isinstance(a, ast.Assign) and isinstance(a.targets[0], (ast.Tuple, ast.List)) and isinstance(a.value, ast.Subscript) \
                    and isinstance(a.value.value, ast.Name) and a.value.value.id == es.listvar and ren(ekey(a.value.slice), j) == ren(uidx, v):
                inner_unpack = (n, assigned_names(a.targets[0]))
        if inner_unpack is None:
            continue
        rv = inner_unpack[1][0]
        if any(c.node in cfg.loop_nodes(h) and c.arg("rvec") is not None and rv in mentions(c.arg("rvec")) for c in cons):
            out.add(h)
    return out


def rule_results_consumed(eng, rep, rule="C04-1.every-evaluation-result-is-offered-to-the-model"):
    pos = result_positions(eng)       # e.g. ['rvec_list', 'obj_list', 'num_samples_run', 'exit_info']
    sites = eval_sites(eng)
    rep.require_count(rule, "evaluate_objective call sites", len(sites), tables.MIN_COUNTS["evaluate_objective_call_sites"])
    by_fn = {}
    for es in sites:
        if es.mode == "other" or not es.unpacks:
            rep.unknown(rule, eng.where(es.fi, es.call), "result of evaluate_objective is neither unpacked nor parked in a list")
            continue
        by_fn.setdefault(es.fi.fid, []).append(es)
    for fid, ess in sorted(by_fn.items()):
        fi = eng.prog.functions[fid]
        cfg = eng.cfg(fi)
        cons = consumers_in(eng, fi)
        unpack_nodes = {}
        for es in ess:
            for (n, names) in es.unpacks:
                unpack_nodes[n] = (es, names)
        # variable names holding the residual block / the sample count at each unpack
        for un, (es, names) in sorted(unpack_nodes.items()):
            if len(names) != len(pos):
                rep.unknown(rule, eng.where(fi, cfg.ast_of(un)), "result tuple unpacked into %d names, evaluate_objective returns %d" % (len(names), len(pos)))
                continue
            rv, ns = names[0], names[2]
            cons_nodes = set()
            for c in cons:
                rarg = c.arg("rvec")
                if rarg is not None and rv in mentions(rarg):
                    cons_nodes.add(c.node)
            # soft_restart(..., rvec_to_save=<rv ...>) also consumes
            for ci in eng.calls_in(fi):
                if any(t.fid == "controller.Controller.soft_restart" for t in ci.targets):
                    for kw in ci.node.keywords:
                        if kw.arg == "rvec_to_save" and rv in mentions(kw.value):
                            cons_nodes.add(cfg.cfg_node(ci.node))
            other_evals = set(e.node for e in ess) | set(unpack_nodes) - {un}
            drains = _drain_loops(eng, fi, cfg, es, un, cons) if es.mode == "list" else set()

            def node_fn(n, s, un=un, cons_nodes=cons_nodes, drains=drains):
                if n == un:
                    return ["P"]
                if n in cons_nodes or n in drains:
                    return ["-"]          # (a drain loop offers this entry and every later one of the parked list)
                return [s]

            loop_heads = set(h for (h, kind, lst) in cfg.loops if cfg.path_avoiding(h, un, []) is not None and cfg.path_avoiding(un, h, []) is not None)
            leaks = []

            def edge_fn(a, b, e, s, cfg=cfg, rv=rv, ns=ns, un=un, loop_heads=loop_heads, leaks=leaks):
                if s != "P":
                    return s
                if cfg.kind(a) == "cond" and e["label"] in (True, False):
                    at = atom_of(cfg.ast_of(a), e["label"])
                    # nothing was evaluated: not (num_samples_run > 0)
                    if at.op == "le" and ekey(at.lhs) == ns and const_value(at.rhs) == 0:
                        return "-"
                    if at.op == "lt" and ekey(at.lhs) == ns and const_value(at.rhs) == 1:
                        return "-"
                    # the value is NaN: it cannot be the best point
                    if at.op == "truth" and "isnan" in ekey(at.lhs) and rv in mentions(at.lhs):
                        return "-"
                dead = False
                if b == cfg.exit or b == cfg.raise_exit:
                    dead = e["kind"] != "raise"
                elif e["kind"] in ("back", "continue") and b in loop_heads:
                    dead = True
                elif cfg.g.nodes[a].get("jump") == "break" and cfg.path_avoiding(b, un, []) is None:
                    dead = True
                elif b == un:
                    dead = True
                if dead:
                    leaks.append((a, b))
                    return "-"
                return s

            fl = Flow(cfg, "-", node_fn, edge_fn)
            site = eng.where(fi, cfg.ast_of(un))
            if es.mode == "list":
                # results parked in a list: an early exit from the consumer loop drops the remaining evaluated points
                heads = [h for (h, kind, lst) in cfg.loops if cfg.path_avoiding(h, un, []) is not None and cfg.path_avoiding(un, h, []) is not None]
                for n2, d2 in cfg.g.nodes(data=True):
                    early = d2["kind"] == "stmt" and (isinstance(d2["ast"], ast.Return) or d2.get("jump") == "break")
                    if early and drains and cfg.path_avoiding(un, n2, drains) is None:
                        rep.ok(rule, eng.where(fi, d2["ast"]), "early exit from the consumer loop of `%s` only after a loop that offers this and every later parked result to the saved-point slot" % es.listvar)
                        continue
                    if early and any(cfg.path_avoiding(h, n2, []) is not None and cfg.path_avoiding(un, n2, [h]) is not None for h in heads):
                        rep.bad(rule, eng.where(fi, d2["ast"]), "%s|parked-results-dropped|%s" % (fid, es.listvar),
                                "early exit from the loop that consumes the parked results `%s`: points evaluated for later list entries are never offered to the model" % es.listvar)
            if not leaks:
                rep.ok(rule, site, "on every path the evaluated (%s, %s) reaches change_point/add_new_point/save_point, or nothing was evaluated, or the value is NaN" % (rv, ns))
            seen = set()
            for (n, m) in leaks:
                key = "%s|%s|%s" % (fid, _exit_label(cfg, n), _context_key(eng, cfg, n))
                if key in seen:
                    continue
                seen.add(key)
                p = fl.path_to(n, "P")
                rep.bad(rule, eng.where(fi, cfg.ast_of(n)) if cfg.ast_of(n) is not None else site, key,
                        "the point evaluated at %s can be dropped here (%s) without being offered to the model or the saved-point slot"
                        % (eng.where(fi, cfg.ast_of(un)), _exit_label(cfg, n)), path=cfg.describe_path(p)[-25:])


def rule_incumbent_saved_before_restart(eng, rep, rule="C04-2.incumbent-saved-before-soft-restart"):
    sr = eng.fn("controller.Controller.soft_restart")
    cfg = eng.cfg(sr)
    saves = []
    for c in consumers_in(eng, sr):
        if c.target.fid == "model.Model.save_point":
            x = c.arg("x")
            if x is not None and isinstance(x, ast.Call) and "xopt" in ekey(x.func):
                saves.append(c)
    geo = [cfg.cfg_node(ci.node) for ci in eng.calls_in(sr) if any(t.fid in ("controller.Controller.geometry_step", "controller.Controller.evaluate_objective") for t in ci.targets)]
    if not geo:
        rep.unknown(rule, eng.where(sr), "no geometry step / evaluation in soft_restart")
        return
    if not saves:
        rep.bad(rule, eng.where(sr), "controller.Controller.soft_restart|incumbent-not-saved", "soft_restart never saves the incumbent (xopt) before moving points")
        return
    snodes = [c.node for c in saves]
    for g in geo:
        p = cfg.path_avoiding(cfg.entry, g, snodes)
        site = eng.where(sr, cfg.ast_of(g))
        if p is None:
            rep.ok(rule, site, "a save_point of the incumbent dominates this point-moving call")
        else:
            rep.bad(rule, site, "controller.Controller.soft_restart|geometry-before-save", "points can be moved before the incumbent is saved", path=cfg.describe_path(p)[-15:])


def rule_exits_select(eng, rep, rule="C04-4.all-exits-go-through-final-selection"):
    """Every return of solve_main after the Controller exists returns what a get_final_results() call selected,
    with no model-mutating call between that selection and the return."""
    A = anchors(eng)
    sm = A.solve_main
    cfg = eng.cfg(sm)
    gfr = "model.Model.get_final_results"
    gnodes = {}
    for ci in eng.calls_in(sm):
        if any(t.fid == gfr for t in ci.targets):
            st = eng.prog.stmt_of(ci.node)
            if isinstance(st, ast.Assign) and isinstance(st.targets[0], (ast.Tuple, ast.List)):
                gnodes[cfg.cfg_node(ci.node)] = assigned_names(st.targets[0])
    ctor = [cfg.cfg_node(ci.node) for ci in eng.calls_in(sm) if ci.kind == "CTOR" and any(t.cls == "Controller" for t in ci.targets)]
    if not ctor or not gnodes:
        rep.unknown(rule, eng.where(sm), "Controller construction / get_final_results call not found in solve_main")
        return
    rets = [n for n, d in cfg.g.nodes(data=True) if d["kind"] == "stmt" and isinstance(d["ast"], ast.Return)]
    mutators = set()
    for ci in eng.calls_in(sm):
        for t in ci.targets:
            if t.cls in ("Controller", "Model") and t.qualname.split(".")[-1] not in ("get_final_results", "npt", "n", "m", "xopt", "objopt", "ropt", "xpt", "__init__"):
                mutators.add(cfg.cfg_node(ci.node))
    n = 0
    for r in rets:
        if cfg.path_avoiding(ctor[0], r, []) is None:
            continue
        n += 1
        rn = cfg.ast_of(r)
        site = eng.where(sm, rn)
        if not isinstance(rn.value, ast.Tuple):
            rep.unknown(rule, site, "return value is not a tuple")
            continue
        # positions 0,1,2,4 and the two last must come from one get_final_results unpack
        elts = rn.value.elts
        want = [0, 1, 2, 4, len(elts) - 2, len(elts) - 1]
        srcs = set()
        okc = True
        for i in want:
            e = elts[i]
            if not isinstance(e, ast.Name):
                okc = False
                break
            defs = cfg.defs_reaching(e, e.id)
            if len(defs) != 1 or defs[0] not in gnodes:
                okc = False
                break
            if gnodes[defs[0]].index(e.id) != [0, 1, 2, 4, 5, 6][want.index(i)]:
                okc = False
                rep.bad(rule, site, "solver.solve_main|result-position-crossed|%d" % i,
                        "position %d of the returned tuple is position %d of get_final_results()" % (i, gnodes[defs[0]].index(e.id)))
                break
            srcs.add(defs[0])
        if not okc or len(srcs) != 1:
            if okc is False and len(srcs) <= 1:
                rep.bad(rule, site, "solver.solve_main|return-bypasses-final-selection|%s" % _context_key(eng, cfg, r),
                        "a return after the Controller exists does not take (x, resid, obj, nsamples, eval numbers) from one get_final_results() call")
            continue
        g = list(srcs)[0]
        p = None
        for mnode in mutators:
            if cfg.path_avoiding(g, mnode, [r]) is not None and cfg.path_avoiding(mnode, r, [g]) is not None:
                p = mnode
        if p is not None:
            rep.bad(rule, site, "solver.solve_main|model-mutated-after-selection", "the model is changed (%s) between the final selection and the return" % short(cfg.ast_of(p), 50))
        else:
            rep.ok(rule, site, "returns the selection of get_final_results() taken after the last model mutation")
    rep.require_count(rule, "returns of solve_main after the Controller exists", n, 2)


def rule_incumbent_not_overwritten_blindly(eng, rep, rule="C04-5.incumbent-is-replaced-only-by-a-point-known-to-be-better"):
    """Controller.choose_point_to_replace may return the incumbent's index only when skip_kopt is False.  That is allowed only where the
    candidate is known to improve on the incumbent (the actual reduction was positive: guard `ratio > 0` with ratio from calculate_ratio);
    everywhere else the incumbent must be skipped, otherwise the best point can be overwritten without having been saved."""
    from ..resolve import bind_call
    cp = eng.fn("controller.Controller.choose_point_to_replace")
    if "skip_kopt" not in cp.all_params:
        raise AnalysisError("anchor parameter skip_kopt of choose_point_to_replace vanished")
    n = 0
    for ci in eng.calls_to(cp.fid):
        n += 1
        fi = ci.caller
        cfg = eng.cfg(fi)
        b = bind_call(ci.node, cp, True)
        e = b.params.get("skip_kopt")
        site = eng.where(fi, ci.node)
        val = None
        if isinstance(e, tuple):
            val = e[1].value if isinstance(e[1], ast.Constant) else None
        elif isinstance(e, ast.Constant):
            val = e.value
        if val is True:
            rep.ok(rule, site, "incumbent is skipped when choosing the point to replace")
            continue
        # skip_kopt False / unknown: needs the improvement guard
        okc = False
        for (bn, a) in guards_of(cfg, cfg.cfg_node(ci.node)):
            if a.op == "lt" and const_value(a.lhs) == 0 and isinstance(a.rhs, ast.Name):
                for dn in cfg.defs_reaching(cfg.ast_of(bn), a.rhs.id):
                    ds = cfg.ast_of(dn)
                    if isinstance(ds, ast.Assign) and isinstance(ds.value, ast.Call) and any(t.fid == "controller.Controller.calculate_ratio" for t in eng.res.calls[id(ds.value)].targets) \
                            and assigned_names(ds.targets[0])[:1] == [a.rhs.id]:
                        okc = True
        if okc:
            rep.ok(rule, site, "the incumbent may be chosen, but only under `ratio > 0` (the new point reduced the objective)")
        else:
            rep.bad(rule, site, "%s|incumbent-may-be-overwritten|skip_kopt=%s" % (fi.fid, ekey(e) if e is not None and not isinstance(e, tuple) else "default"),
                    "choose_point_to_replace may return the incumbent here (skip_kopt is not True) although nothing establishes that the new point is better: the best point can be overwritten without being saved")
    rep.require_count(rule, "call sites of choose_point_to_replace", n, 3)


def rule_ratio_sign_is_the_sign_of_the_actual_reduction(eng, rep, rule="C04-5b.a-positive-ratio-means-the-objective-was-reduced"):
    """C04-5 accepts `ratio > 0` (ratio from calculate_ratio) as 'the new point is better'.  ratio = actual / predicted has the sign of the actual reduction only
    if the predicted reduction is not negative; so inside calculate_ratio every path from the true edge of `predicted < 0` to the return must hand back an exit
    (which the caller tests before it looks at the ratio, C07-19) -- a negative predicted reduction that is merely logged makes a *worse* point look better, and
    the incumbent is then overwritten without having been saved (seed C04-x)."""
    cr = eng.fn("controller.Controller.calculate_ratio")
    cfg = eng.cfg(cr)
    rets = [n for n, d in cfg.g.nodes(data=True) if d["kind"] == "stmt" and isinstance(d["ast"], ast.Return) and d["ast"].value is not None]
    n = 0
    for rn in rets:
        rv = cfg.ast_of(rn).value
        if not (isinstance(rv, ast.Tuple) and len(rv.elts) == 2 and isinstance(rv.elts[1], ast.Name)):
            rep.unknown(rule, eng.where(cr, rv), "calculate_ratio does not return a (ratio, exit) pair of locals")
            continue
        exitvar = rv.elts[1].id
        ratio_e = rv.elts[0]
        site = eng.where(cr, rv)
        quots = []
        if isinstance(ratio_e, ast.Name):
            for dn in cfg.defs_reaching(cfg.ast_of(rn), ratio_e.id):
                ds = cfg.ast_of(dn)
                if isinstance(ds, ast.Assign) and isinstance(ds.value, ast.BinOp) and isinstance(ds.value.op, ast.Div):
                    quots.append((dn, ds.value))
                else:
                    quots.append((dn, None))
        elif isinstance(ratio_e, ast.BinOp) and isinstance(ratio_e.op, ast.Div):
            quots.append((rn, ratio_e))
        if not quots or any(q is None for (_d, q) in quots):
            rep.unknown(rule, site, "the returned ratio is not a quotient of two locals on every reaching definition")
            continue
        for (dn, q) in quots:
            n += 1
            den = q.right
            if not isinstance(den, ast.Name):
                rep.unknown(rule, site, "denominator of the ratio is not a local (%s)" % short(den))
                continue
            # cond nodes that test the sign of the denominator
            tests = []
            for cn in cfg.nodes_of_kind("cond"):
                tnode = cfg.ast_of(cn)
                if isinstance(tnode, ast.Name):
                    # `model_increase = den < 0; if model_increase:` is the same test (the denominator must not change between the two, checked below)
                    dd = [cfg.ast_of(x) for x in cfg.defs_reaching(tnode, tnode.id)]
                    if len(dd) == 1 and isinstance(dd[0], ast.Assign) and isinstance(dd[0].value, ast.Compare):
                        tnode = dd[0].value
                for outcome in (True, False):
                    a = atom_of(tnode, outcome)
                    # denominator negative:  den < 0  (lt(den, 0))
                    if a.op == "lt" and ekey(a.lhs) == den.id and const_value(a.rhs) == 0:
                        tests.append((cn, outcome))
            if not tests:
                rep.bad(rule, site, "controller.Controller.calculate_ratio|sign-of-prediction-untested|%s" % den.id,
                        "the ratio %s is returned without any test of the sign of `%s`: a step with a negative predicted AND a negative actual reduction gets a positive ratio, "
                        "is taken for an improvement and may overwrite the incumbent" % (short(q), den.id))
                continue
            exit_stores = [m for m, d in cfg.g.nodes(data=True) if d["kind"] == "stmt" and isinstance(d["ast"], ast.Assign)
                           and any(isinstance(t, ast.Name) and t.id == exitvar for t in d["ast"].targets)
                           and isinstance(d["ast"].value, ast.Call) and not is_none(d["ast"].value)]
            none_stores = [m for m, d in cfg.g.nodes(data=True) if d["kind"] == "stmt" and isinstance(d["ast"], ast.Assign)
                           and any(isinstance(t, ast.Name) and t.id == exitvar for t in d["ast"].targets) and is_none(d["ast"].value)]
            bad_path = None
            for (cn, outcome) in tests:
                # the denominator must not be re-assigned between the test and the division
                for m, e in cfg.succ(cn):
                    if e.get("label") != outcome:
                        continue
                    def _feasible(a2, m2, e2, den=den):
                        # a second test of the same sign on the way (`if den < 0 and A: .. elif den < 0: ..`) cannot answer differently: the denominator is not
                        # re-assigned in between (checked below), so its "not negative" edge is infeasible on a path that started from "negative"
                        if cfg.kind(a2) == "cond" and e2.get("label") in (True, False):
                            at2 = atom_of(cfg.ast_of(a2), e2["label"])
                            if at2.op == "le" and const_value(at2.lhs) == 0 and ekey(at2.rhs) == den.id:      # 0 <= den
                                return False
                        return True
                    pth = cfg.path_avoiding(m, rn, exit_stores, edge_ok=_feasible) if m not in exit_stores else None
                    if m == rn:
                        pth = [m]
                    if pth is not None:
                        bad_path = (cn, pth)
                    else:
                        # an exit stored on the negative branch must not be cleared again before the return
                        for es in exit_stores:
                            for ns in none_stores:
                                if cfg.path_avoiding(es, ns, []) is not None and cfg.path_avoiding(ns, rn, exit_stores) is not None and cfg.path_avoiding(m, es, []) is not None:
                                    bad_path = (cn, [es, ns, rn])
            redefined = [m for m, d in cfg.g.nodes(data=True) if d["kind"] == "stmt" and den.id in cfg.defs_of(m)[0]
                         and any(cfg.path_avoiding(cn, m, []) is not None for (cn, _o) in tests) and cfg.path_avoiding(m, dn, []) is not None and m != dn]
            if bad_path is not None:
                rep.bad(rule, site, "controller.Controller.calculate_ratio|negative-prediction-returned-without-exit|%s" % den.id,
                        "`%s < 0` can be true on a path to the return on which no exit is handed back (%s): ratio = %s is then positive for a point that is WORSE, the caller "
                        "takes it for an improvement (`ratio > 0`) and may overwrite the incumbent without saving it" % (den.id, exitvar, short(q)),
                        path=[cfg.describe(x) for x in bad_path[1]] if hasattr(cfg, "describe") else None)
            elif redefined:
                rep.unknown(rule, site, "`%s` is re-assigned between its sign test and the division" % den.id)
            else:
                rep.ok(rule, site, "every path on which `%s < 0` holds returns a non-None %s: where the caller reads the ratio, its sign is the sign of the actual reduction" % (den.id, exitvar))
    rep.require_count(rule, "ratio quotients returned by calculate_ratio", n, 1)


def rule_furthest_point_loops_stop_before_the_incumbent(eng, rep, rule="C04-7.loops-over-the-points-furthest-from-the-incumbent-never-reach-the-incumbent"):
    """`np.argsort(distances_to_xopt())[::-1]` lists the points from the furthest to the closest; its last entry is the incumbent itself (distance 0).  A loop that
    overwrites the listed points (geometry_step / change_point) must stop before that entry -- nothing saves the incumbent first.  The number of passes is bounded
    either by the loop's own limit (`min(.., len(L) - 1)`, `min(.., npt() - 1)`, `L[:-1]`) or by every caller's argument (`min(.., npt() - 1)`); with neither the
    best point found can be replaced by a geometry point (seed C18-x removed the limit in the callee and widened the caller's cap by one)."""
    OVERWRITERS = ("controller.Controller.geometry_step", "model.Model.change_point")
    n = 0

    def is_desc_argsort(e):
        # np.argsort(X)[::-1]   (optionally sliced again)
        cur = e
        sl = None
        if isinstance(cur, ast.Subscript) and isinstance(cur.slice, ast.Slice) and not _is_reverse(cur.slice):
            sl = cur.slice
            cur = cur.value
        if isinstance(cur, ast.Subscript) and isinstance(cur.slice, ast.Slice) and _is_reverse(cur.slice) and isinstance(cur.value, ast.Call) \
                and ekey(cur.value.func).endswith("argsort"):
            return cur.value.args[0] if cur.value.args else None, sl
        return None, None

    def _is_reverse(slc):
        return slc.lower is None and slc.upper is None and slc.step is not None and const_value(slc.step) == -1

    def excl(e, lname):
        """e is `len(L) - c` or `<..>.npt() - c` with c >= 1"""
        if isinstance(e, ast.BinOp) and isinstance(e.op, ast.Sub) and (const_value(e.right) or 0) >= 1:
            l = e.left
            if isinstance(l, ast.Call) and isinstance(l.func, ast.Name) and l.func.id == "len" and l.args and ekey(l.args[0]) == lname:
                return True
            if isinstance(l, ast.Call) and isinstance(l.func, ast.Attribute) and l.func.attr == "npt" and not l.args:
                return True
        return False

    def parts(e):
        if isinstance(e, ast.Call) and isinstance(e.func, ast.Name) and e.func.id == "min":
            out = []
            for a in e.args:
                out += parts(a)
            return out
        return [e]

    for fi in eng.prog.functions.values():
        if fi.is_lambda or fi.cls != "Controller":
            continue
        lists = {}
        for node in eng.prog.own_nodes(fi):
            if isinstance(node, ast.Assign) and len(node.targets) == 1 and isinstance(node.targets[0], ast.Name):
                src, sl = is_desc_argsort(node.value)
                if src is None and isinstance(node.value, ast.Call) and eng.res.calls.get(id(node.value)) is not None:
                    # a helper every return of which is the descending argsort of the distances to the incumbent
                    tg = [t for t in eng.res.calls[id(node.value)].targets if isinstance(getattr(t, "node", None), ast.FunctionDef)]
                    if len(tg) == 1:
                        hcfg = eng.cfg(tg[0])
                        rets = [r for r in eng.prog.own_nodes(tg[0]) if isinstance(r, ast.Return) and r.value is not None]
                        from .common import expand_locals
                        hs = [is_desc_argsort(r.value) for r in rets]
                        if rets and all(h[0] is not None and "distances_to_xopt" in ekey(expand_locals(hcfg, r, h[0])) for h, r in zip(hs, rets)):
                            src, sl = ast.parse("self.model.distances_to_xopt()", mode="eval").body, hs[0][1]
                if src is not None:
                    lists[node.targets[0].id] = (node, src, sl)
        if not lists:
            continue
        cfg = eng.cfg(fi)
        for lname, (ldef, src, lslice) in lists.items():
            # the sorted quantity is the distance to the incumbent
            srcs = [src]
            if isinstance(src, ast.Name):
                srcs = [cfg.ast_of(d).value for d in cfg.defs_reaching(ldef, src.id) if isinstance(cfg.ast_of(d), ast.Assign)]
            if not srcs or not all("distances_to_xopt" in ekey(x) for x in srcs):
                continue
            for loop in [x for x in eng.prog.own_nodes(fi) if isinstance(x, ast.For)]:
                idx = None
                limits = []
                if isinstance(loop.iter, ast.Call) and isinstance(loop.iter.func, ast.Name) and loop.iter.func.id == "range" and len(loop.iter.args) == 1 \
                        and isinstance(loop.target, ast.Name):
                    uses = [x for st in loop.body for x in ast.walk(st) if isinstance(x, ast.Subscript) and ekey(x.value) == lname and ekey(x.slice) == loop.target.id]
                    if not uses:
                        continue
                    lim = loop.iter.args[0]
                    if isinstance(lim, ast.Name) and lim.id not in fi.all_params:
                        # the limit hoisted into a local: `num_moves = min(num_pts_to_move, len(L) - 1)`
                        dd = [cfg.ast_of(x) for x in cfg.defs_reaching(loop.iter, lim.id)]
                        if len(dd) == 1 and isinstance(dd[0], ast.Assign) and len(dd[0].targets) == 1 and isinstance(dd[0].targets[0], ast.Name):
                            lim = dd[0].value
                    limits = parts(lim)
                elif ekey(loop.iter) == lname:
                    limits = []
                elif isinstance(loop.iter, ast.Subscript) and ekey(loop.iter.value) == lname and isinstance(loop.iter.slice, ast.Slice):
                    up = loop.iter.slice.upper
                    limits = parts(up) if up is not None else []
                    if up is not None and (const_value(up) or 0) <= -1:
                        limits = [ast.parse("len(%s) - 1" % lname, mode="eval").body]
                else:
                    continue
                # does the body overwrite a point?
                over = [c for st in loop.body for c in ast.walk(st) if isinstance(c, ast.Call) and eng.res.calls.get(id(c)) is not None
                        and any(t.fid in OVERWRITERS for t in eng.res.calls[id(c)].targets)]
                if not over:
                    continue
                n += 1
                site = eng.where(fi, loop)
                if lslice is not None and lslice.upper is not None:
                    limits = limits + parts(lslice.upper)
                    if (const_value(lslice.upper) or 0) <= -1:
                        limits.append(ast.parse("len(%s) - 1" % lname, mode="eval").body)
                okc = any(excl(e, lname) for e in limits)
                via = None
                if not okc:
                    # a limit that is a parameter: every caller must pass min(.., npt() - 1)
                    for e in limits:
                        if isinstance(e, ast.Name) and e.id in fi.all_params:
                            callers = eng.calls_to(fi.fid)
                            allok = bool(callers)
                            for ci in callers:
                                from .common import arg_of, expand_locals
                                a = arg_of(eng, ci.node, fi, e.id)
                                if a is None:
                                    allok = False
                                    continue
                                ccfg = eng.cfg(ci.caller)
                                ax = expand_locals(ccfg, eng.prog.stmt_of(ci.node), a)
                                if not any(excl(x, lname) for x in parts(ax)):
                                    allok = False
                            if allok:
                                okc = True
                                via = e.id
                if okc:
                    rep.ok(rule, site, "the loop over `%s` (furthest first, incumbent last) makes at most len - 1 passes%s" % (lname, " (every caller bounds `%s` by npt() - 1)" % via if via else ""))
                else:
                    rep.bad(rule, site, "%s|loop-can-reach-the-incumbent|%s" % (fi.fid, lname),
                            "the loop over `%s` (points sorted from the furthest to the closest; the last entry is the incumbent) is bounded by neither `len(%s) - 1` / `npt() - 1` nor by its "
                            "callers: with enough passes %s overwrites the incumbent, which nothing has saved" % (lname, lname, short(over[0].func)))
    rep.require_count(rule, "loops that overwrite points in order of decreasing distance from the incumbent", n, 1)


def run(eng, rep):
    rep.explain("C04: typestate 'pending evaluation result' over every CFG path after each of the evaluate_objective call sites (T3): the "
                "result must reach change_point/add_new_point/save_point unless nothing was evaluated or the value is NaN; the incumbent save "
                "dominates every point-moving call in soft_restart (T2); decision tables of all selection guards over {lo<hi} (T6); every "
                "return of solve_main takes its record from one get_final_results() call after the last mutation (T2).")
    rep.explain('Also decided: the incumbent is overwritten only by a point known to be better (C04-5); selection tables are computed by walking the CFG to the store for every row of the order domain.')
    rep.not_decided += ["'a later run can only improve on an earlier one' beyond the merge guard", "anything about objective values themselves"]
    rep.guarded(rule_results_consumed, eng, rep)
    rep.guarded(rule_incumbent_saved_before_restart, eng, rep)
    rep.guarded(rule_selection, eng, rep, "C04-3.selection-prefers-the-smaller-value", {"ORDER", "NONE_HOLDER", "NAN_HOLDER"}, "C04")
    rep.guarded(rule_exits_select, eng, rep)
    rep.guarded(rule_incumbent_not_overwritten_blindly, eng, rep)
    rep.guarded(rule_ratio_sign_is_the_sign_of_the_actual_reduction, eng, rep)
    rep.guarded(rule_furthest_point_loops_stop_before_the_incumbent, eng, rep)
    from .records import rule_eval_results_are_fresh
    rep.guarded(rule_eval_results_are_fresh, eng, rep, "C04-6.evaluation-results-are-fresh-arrays")
