"""C07 -- solve always returns a well-formed result; bad input is reported, not raised.

Decided (structure only): call conformance of every resolved internal call, shape of the graceful
input-error path, presence of a guard for every documented invalid-argument class, agreement of the
exit-code and parameter registries (code<->code and code<->docs), unknown key => ValueError, inventory of
explicit raises reachable from solve, exit_info never None where it is dereferenced.
"""
import ast

from ..loader import AnalysisError, ekey
from ..norm import Atom, atom_of, const_value, is_none
from ..resolve import bind_call
from ..dataflow import Flow
from .. import tables
from .common import (mentions, guards_of, param_key, param_keys_in, is_param_set, calls_to_in, short,
                     PARAMS_CALL, assigned_names)


# --------------------------------------------------------------------------------------------- C07-1
def rule_call_conformance(eng, rep, rule="C07-1.call-conformance"):
    n = 0
    for ci in eng.res.calls.values():
        if ci.kind not in ("INTERNAL", "CTOR"):
            continue
        for (t, bound) in eng.res.call_targets(ci.caller, ci.node):
            n += 1
            b = bind_call(ci.node, t, bound and t.is_method)
            site = eng.where(ci.caller, ci.node)
            if b.errors:
                for err in b.errors:
                    kind = err.split("(")[0].split("'")[0].strip()
                    rep.bad(rule, site, "%s->%s|%s" % (ci.caller.fid, t.fid, kind),
                            "call %s does not bind to %s%s: %s" % (short(ci.node, 60), t.fid,
                                                                  "(" + ", ".join(t.all_params) + ")", err))
            else:
                rep.ok(rule, site, "%s binds to %s" % (short(ci.node, 40), t.fid), nontrivial=bool(ci.node.keywords or len(ci.node.args) > 2))
    rep.require_count(rule, "resolved internal calls", n, 300)


def rule_names_resolve(eng, rep, rule="C07-1b.names-resolve"):
    """Every global name read in the package resolves (module symbol, star import, builtin)."""
    import builtins
    n = 0
    exc = set((m, nm) for (m, nm, _r) in tables.UNRESOLVED_NAME_EXCEPTIONS)
    for fi in eng.prog.functions.values():
        for node in eng.prog.own_nodes(fi):
            if isinstance(node, ast.Name) and isinstance(node.ctx, ast.Load):
                if eng.res.scope_of(fi, node.id) is not None:
                    continue
                n += 1
                if eng.res.module_symbol(fi.module, node.id) is not None or hasattr(builtins, node.id):
                    continue
                # comprehension variables
                if _is_comprehension_var(eng, node):
                    continue
                if (fi.fid.split(".")[0], node.id) in exc:          # (the function's home module: the exception moves with the function)
                    rep.note(rule, eng.where(fi, node), "unresolved name %s (frozen exception)" % node.id)
                    continue
                rep.bad(rule, eng.where(fi, node), "%s|%s" % (fi.fid, node.id),
                        "name '%s' is not defined in module %s (NameError at run time)" % (node.id, fi.module))
    rep.ok(rule, "package", "%d global name reads resolve" % n)


def _is_comprehension_var(eng, node):
    cur = eng.prog.parent.get(id(node))
    while cur is not None and not isinstance(cur, (ast.FunctionDef, ast.Lambda, ast.Module)):
        if isinstance(cur, (ast.ListComp, ast.SetComp, ast.DictComp, ast.GeneratorExp)):
            for gen in cur.generators:
                for t in ast.walk(gen.target):
                    if isinstance(t, ast.Name) and t.id == node.id:
                        return True
        cur = eng.prog.parent.get(id(cur))
    return False


# --------------------------------------------------------------------------------------------- C07-2/3
def _is_input_error_ctor(eng, e):
    if not isinstance(e, ast.Call):
        return False
    ci = eng.res.calls.get(id(e))
    return bool(ci and any(t.fid == "controller.ExitInformation.__init__" for t in ci.targets)
                and e.args and isinstance(e.args[0], ast.Name) and e.args[0].id == "EXIT_INPUT_ERROR")


def _validation_helper(eng, call):
    """If `call` resolves to one internal function every return of which is None or ExitInformation(EXIT_INPUT_ERROR, ..) (an extracted block of input checks),
    return (helper, cfg of the helper, [cfg nodes of its error returns]); else None."""
    ci = eng.res.calls.get(id(call)) if isinstance(call, ast.Call) else None
    if ci is None or len(ci.targets) != 1:
        return None
    h = ci.targets[0]
    if h.cls is not None or h.fid.startswith("controller.ExitInformation"):
        return None
    hcfg = eng.cfg(h)
    errs = []
    rets = [(n, d["ast"]) for n, d in hcfg.g.nodes(data=True) if d["kind"] == "stmt" and isinstance(d["ast"], ast.Return)]
    if not rets:
        return None
    for n, r in rets:
        if r.value is None or is_none(r.value):
            continue
        if _is_input_error_ctor(eng, r.value):
            errs.append(n)
        else:
            return None
    # no other effect that matters here: the helper must not call anything that evaluates or raises on purpose
    for node in eng.prog.own_nodes(h):
        if isinstance(node, ast.Raise):
            return None
    return (h, hcfg, errs) if errs else None


def _input_error_sites(eng, solve, cfg):
    """CFG nodes `exit_info = ExitInformation(EXIT_INPUT_ERROR, ...)` in solve, and `exit_info = <validation helper>(...)`."""
    out = []
    for n, d in cfg.g.nodes(data=True):
        st = d["ast"]
        if d["kind"] == "stmt" and isinstance(st, ast.Assign) and isinstance(st.value, ast.Call):
            if _is_input_error_ctor(eng, st.value) or _validation_helper(eng, st.value) is not None:
                out.append(n)
    return out


def _through_boolean_local(cfg, at, a, depth=2):
    """`flag = A and B; if flag:` guards like `if A and B:`: a truth test of a local with one reaching definition that is a comparison / conjunction is replaced by the
    atoms of that definition (a negated test only when the definition is a single comparison)."""
    if depth <= 0 or a.op not in ("truth", "false") or not isinstance(a.lhs, ast.Name):
        return [a]
    try:
        defs = cfg.defs_reaching(at, a.lhs.id)
    except Exception:
        return [a]
    if len(defs) != 1:
        return [a]
    ds = cfg.ast_of(list(defs)[0])
    if not (isinstance(ds, ast.Assign) and len(ds.targets) == 1 and isinstance(ds.targets[0], ast.Name)):
        return [a]
    v = ds.value
    want = a.op == "truth"
    if isinstance(v, ast.Compare) and len(v.ops) == 1:
        return [atom_of(v, want)]
    if isinstance(v, ast.BoolOp) and isinstance(v.op, ast.And) and want:
        out = []
        for c in v.values:
            out += _through_boolean_local(cfg, ds, atom_of(c, True), depth - 1)
        return out
    if isinstance(v, ast.BoolOp) and isinstance(v.op, ast.Or) and not want:
        out = []
        for c in v.values:
            out += _through_boolean_local(cfg, ds, atom_of(c, False), depth - 1)
        return out
    return [a]


def _site_guard_sets(eng, cfg, s):
    """The guard atoms under which site s assigns an input error: one list per error outcome.  A validation helper contributes one list per error return,
    made of the guards at the call site plus the helper's own guards with its parameters replaced by the call's arguments."""
    import copy
    outer = []
    for (gn, a) in guards_of(cfg, s):
        outer += _through_boolean_local(cfg, cfg.ast_of(gn), a)
    st = cfg.ast_of(s)
    vh = _validation_helper(eng, st.value) if isinstance(st, ast.Assign) else None
    if vh is None:
        return [outer]
    h, hcfg, errs = vh
    b = bind_call(st.value, h, False)
    mapping = dict((k, v) for k, v in b.params.items() if isinstance(v, ast.AST))

    class _S(ast.NodeTransformer):
        def visit_Name(self, node):
            if isinstance(node.ctx, ast.Load) and node.id in mapping:
                return copy.deepcopy(mapping[node.id])
            return node
    out = []
    for r in errs:
        inner = []
        for (_b, a) in guards_of(hcfg, r):
            lhs = _S().visit(copy.deepcopy(a.lhs))
            rhs = _S().visit(copy.deepcopy(a.rhs)) if a.rhs is not None else None
            na = Atom.__new__(Atom)
            na.op, na.lhs, na.rhs = a.op, lhs, rhs
            inner.append(na)
        out.append(outer + inner)
    return out


def _graceful_cond(eng, cfg, var="exit_info"):
    """The cond node `exit_info is not None` whose True side returns from solve."""
    cands = []
    for n in cfg.nodes_of_kind("cond"):
        a = atom_of(cfg.ast_of(n), True)
        if a.op in ("isnot", "is") and isinstance(a.lhs, ast.Name) and a.lhs.id == var and is_none(a.rhs):
            true_lab = True if a.op == "isnot" else False
            # the non-None side must lead only to returns (no path to the fall-through exit avoiding Return)
            for m, e in cfg.succ(n):
                if e["label"] == true_lab:
                    rets = [r for r, d in cfg.g.nodes(data=True) if d["kind"] == "stmt" and isinstance(d["ast"], ast.Return)]
                    if m in rets or (cfg.path_avoiding(m, cfg.exit, rets) is None and m not in (cfg.exit,)):
                        cands.append((n, true_lab, m))
    return cands


def rule_graceful(eng, rep):
    rule = "C07-2.graceful-input-error"
    solve = eng.fn("solver.solve")
    cfg = eng.cfg(solve)
    sites = _input_error_sites(eng, solve, cfg)
    if not rep.require_count(rule, "input-error assignments in solve", sum(len(_site_guard_sets(eng, cfg, s)) for s in sites), 15):
        return None
    cands = _graceful_cond(eng, cfg)
    if not cands:
        rep.unknown(rule, eng.where(solve), "cannot find the `if exit_info is not None: ... return` construct")
        return None
    # the graceful test is the first such cond that post-dates every input-error assignment
    gc = None
    for (n, lab, tgt) in cands:
        if all(cfg.path_avoiding(n, s, []) is None for s in sites):
            gc = (n, lab, tgt)
            break
    if gc is None:
        rep.unknown(rule, eng.where(solve), "no graceful-return test after the validation block")
        return None
    gnode, glab, gtarget = gc
    # (a) first error wins
    for s in sites:
        st = cfg.ast_of(s)
        gs = guards_of(cfg, s)
        first = any(a.op == "is" and isinstance(a.lhs, ast.Name) and a.lhs.id == "exit_info" and is_none(a.rhs) for (_b, a) in gs)
        site = eng.where(solve, st)
        if not first and not any(s2 != s and cfg.path_avoiding(s2, s, []) is not None for s2 in sites):
            rep.ok(rule, site, "no earlier input-error assignment can reach this one (exclusive branch of an if/elif chain, or the first check): nothing is overwritten")
            continue
        if first:
            rep.ok(rule, site, "assignment guarded by `exit_info is None` (first error wins)")
        else:
            rep.bad(rule, site, "solver.solve|first-error-wins|%s" % ekey(st.value.args[1] if len(st.value.args) > 1 else st.value)[:50],
                    "input-error assignment not guarded by `exit_info is None`: a later check overwrites an earlier error")
    # (b) the graceful return dominates everything that can evaluate
    evaluators = []
    for ci in eng.calls_in(solve):
        fids = set(t.fid for t in ci.targets)
        if ci.kind == "USER" or fids & {"solver.solve_main", "util.dykstra"}:
            evaluators.append(ci)
    for ci in evaluators:
        cn = cfg.cfg_node(ci.node)
        p = cfg.path_avoiding(cfg.entry, cn, [gnode])
        site = eng.where(solve, ci.node)
        if p is not None:
            rep.bad(rule, site, "solver.solve|evaluator-before-graceful-return|%s" % short(ci.node.func, 30),
                    "call %s can run before the input-error return" % short(ci.node, 50), path=cfg.describe_path(p))
            continue
        p2 = cfg.path_avoiding(gtarget, cn, []) if gtarget != cn else [gtarget]
        if p2 is not None:
            rep.bad(rule, site, "solver.solve|evaluator-on-error-branch|%s" % short(ci.node.func, 30),
                    "call %s is reachable on the input-error branch" % short(ci.node, 50), path=cfg.describe_path(p2))
        else:
            rep.ok(rule, site, "dominated by the false edge of the graceful-return test")
    rep.require_count(rule, "evaluating calls in solve", len(evaluators), 3)      # x0 projection + first run + restart run (today 4)
    # (c) what the graceful branch returns
    rets = [r for r, d in cfg.g.nodes(data=True) if d["kind"] == "stmt" and isinstance(d["ast"], ast.Return)
            and cfg.path_avoiding(gtarget, r, []) is not None or r == gtarget and isinstance(cfg.ast_of(r), ast.Return)]
    for r in rets:
        rn = cfg.ast_of(r)
        site = eng.where(solve, rn)
        ctor = _origin_ctor(eng, cfg, rn.value, rn)
        if ctor is None:
            rep.bad(rule, site, "solver.solve|graceful-return-not-OptimResults", "input-error branch does not return an OptimResults(...)")
            continue
        opt_init = eng.fn("solver.OptimResults.__init__")
        b = bind_call(ctor, opt_init, True)
        okc = not b.errors
        for pname in ("nf", "nx"):
            e = b.params.get(pname)
            if e is None or isinstance(e, tuple) or const_value(e) != 0:
                okc = False
                rep.bad(rule, site, "solver.solve|graceful-return-%s-not-zero" % pname,
                        "input-error result must report %s = 0 (got %s)" % (pname, ekey(e) if e is not None and not isinstance(e, tuple) else "nothing"))
        fe = b.params.get("exit_flag")
        if fe is not None and not isinstance(fe, tuple):
            if not _traces_to_attr(cfg, fe, rn, "exit_info", "flag"):
                okc = False
                rep.bad(rule, site, "solver.solve|graceful-return-flag", "flag of the input-error result is not exit_info.flag")
        if okc:
            rep.ok(rule, site, "returns OptimResults with exit_info.flag, nf = nx = 0")
    # (d) result of check_all_params feeds a validation
    cap = calls_to_in(eng, solve, "params.ParameterList.check_all_params")
    if not cap:
        rep.bad(rule, eng.where(solve), "solver.solve|check_all_params-not-called", "user parameter values are never validated")
    for c in cap:
        st = eng.prog.stmt_of(c)
        names = []
        if isinstance(st, ast.Assign):
            for t in st.targets:
                names += assigned_names(t)
        used = False
        for s in sites:
            for (_b, a) in guards_of(cfg, s):
                if mentions(a.lhs) & set(names[:1]):
                    used = True
        if used and cfg.path_avoiding(gnode, cfg.cfg_node(c), []) is None:
            rep.ok(rule, eng.where(solve, c), "check_all_params result guards an input-error assignment")
        else:
            rep.bad(rule, eng.where(solve, c), "solver.solve|check_all_params-ignored", "result of check_all_params does not reach a validation")
    return cfg, sites, gnode


def _origin_ctor(eng, cfg, expr, at):
    """If expr is (a local bound to) a constructor call of OptimResults return that call."""
    if isinstance(expr, ast.Call):
        ci = eng.res.calls.get(id(expr))
        if ci and any(t.fid == "solver.OptimResults.__init__" for t in ci.targets):
            return expr
        return None
    if isinstance(expr, ast.Name):
        defs = cfg.defs_reaching(at, expr.id)
        if len(defs) == 1:
            st = cfg.ast_of(defs[0])
            if isinstance(st, ast.Assign) and len(st.targets) == 1:
                return _origin_ctor(eng, cfg, st.value, st)
    return None


def _traces_to_attr(cfg, expr, at, base, attr):
    if isinstance(expr, ast.Attribute) and isinstance(expr.value, ast.Name) and expr.value.id == base and expr.attr == attr:
        return True
    if isinstance(expr, ast.Name):
        defs = cfg.defs_reaching(at, expr.id)
        oks = []
        for d in defs:
            st = cfg.ast_of(d)
            if isinstance(st, ast.Assign) and len(st.targets) == 1:
                oks.append(_traces_to_attr(cfg, st.value, st, base, attr))
            else:
                oks.append(False)
        return bool(oks) and all(oks)
    return False


def _side_matches(node, want):
    if want is None:
        return is_none(node)
    if isinstance(want, (int, float)):
        v = const_value(node)
        return v is not None and float(v) == float(want)
    return want <= mentions(node)


def rule_invalid_arg_guards(eng, rep, ctx):
    rule = "C07-3.documented-invalid-arguments"
    if ctx is None:
        return
    cfg, sites, gnode = ctx

    def A(ps):
        return cfg.ast_of(ps[0])
    solve = eng.fn("solver.solve")
    site_guards = {}
    for s in sites:
        for gs in _site_guard_sets(eng, cfg, s):
            site_guards[(s, len(site_guards))] = [a for a in gs if not (isinstance(a.lhs, ast.Name) and a.lhs.id == "exit_info")]
    classified = set()
    missing = []
    # comparison rows
    for (rid, op, lhs, rhs, co, reason) in tables.INVALID_ARG_ROWS:
        subject_hits, exact_hits = [], []
        for s, gs in site_guards.items():
            for a in gs:
                ops_same_subject = {"lt": ("lt", "le"), "le": ("lt", "le"), "is": ("is",), "ne": ("ne", "eq")}[op]
                fwd = a.op in ops_same_subject and _side_matches(a.lhs, lhs) and _side_matches(a.rhs, rhs)
                rev = a.op in ops_same_subject and op in ("ne",) and _side_matches(a.rhs, lhs) and _side_matches(a.lhs, rhs)
                if not (fwd or rev):
                    continue
                cook = all(any(b.op == cop and isinstance(b.lhs, ast.Name) and b.lhs.id == cname for b in gs) for (cop, cname) in co)
                if not cook:
                    continue
                # the error at this site must be attributable to this predicate: no OTHER atom of its guard list is itself the error predicate of a different row
                # (`elif lh is not None: error .. elif lh <= 0: error` -- the second site is reached under `lh is None` but reports `lh <= 0`, not the missing constant)
                def _is_other_rows_predicate(b):
                    for (rid2, op2, lhs2, rhs2, _co2, _r2) in tables.INVALID_ARG_ROWS:
                        if rid2 != rid and b.op == op2 and _side_matches(b.lhs, lhs2) and _side_matches(b.rhs, rhs2):
                            return True
                    return False
                if a.op == op and any(b is not a and _is_other_rows_predicate(b) for b in gs):
                    continue
                subject_hits.append((s, a))
                if a.op == op:
                    exact_hits.append((s, a))
        inverted = []
        if op == "is" and not exact_hits:
            for s, gs in site_guards.items():
                if gs and gs[0].op == "isnot" and _side_matches(gs[0].lhs, lhs) and _side_matches(gs[0].rhs, rhs) \
                        and all(any(b.op == cop and isinstance(b.lhs, ast.Name) and b.lhs.id == cname for b in gs) for (cop, cname) in co):
                    inverted.append((s, gs[0]))       # (the site's own, innermost guard comes first)
        if inverted and not exact_hits:
            for (s, a) in inverted:
                classified.add(s)
            rep.bad(rule, eng.where(solve, A(inverted[0][0])), "solver.solve|inverted-guard|%s" % rid,
                    "the input error for the documented class `%s` (%s) is raised under `%r`, the opposite of the class: the invalid argument is accepted and the valid one refused" % (rid, reason, inverted[0][1]))
            continue
        if exact_hits:
            for (s, a) in exact_hits:
                classified.add(s)
            rep.ok(rule, eng.where(solve, A(exact_hits[0][0])), "%s guarded by `%r`" % (rid, exact_hits[0][1]))
        elif subject_hits:
            for (s, a) in subject_hits:
                classified.add(s)
            rep.bad(rule, eng.where(solve, A(subject_hits[0][0])), "solver.solve|weakened-guard|%s" % rid,
                    "guard for documented class `%s` (%s) is `%r`: boundary value is no longer rejected" % (rid, reason, subject_hits[0][1]))
        else:
            missing.append(rid)
    # parameter-value row
    pv = [s for s, gs in site_guards.items() if any(a.op == "false" and isinstance(a.lhs, ast.Name) for a in gs)
          and any(calls_to_in(eng, solve, "params.ParameterList.check_all_params"))]
    pv = [s for s in pv if not param_keys_in(eng, _all_guard_expr(site_guards[s]))]
    if pv:
        classified |= set(pv)
        rep.ok(rule, eng.where(solve, A(pv[0])), "bad parameter values guarded by `not all_ok`")
    else:
        missing.append("bad parameter values")
    # single-parameter threshold rows
    for (rid, key, op, lit, reason) in tables.PARAM_THRESHOLD_ROWS:
        hit = weak = None
        for s, gs in site_guards.items():
            for a in gs:
                if op in ("lt", "le") and isinstance(a.lhs, ast.Call) and param_key(eng, a.lhs) == key and const_value(a.rhs) == lit and a.op in ("lt", "le"):
                    if a.op == op:
                        hit = (s, a)
                    else:
                        weak = (s, a)
                # upper thresholds: `params(key) >= lit` is the atom `lit <= params(key)`; `>` would let the boundary value through
                if op == "ge" and isinstance(a.rhs, ast.Call) and param_key(eng, a.rhs) == key and const_value(a.lhs) == lit and a.op in ("lt", "le"):
                    if a.op == "le":
                        hit = (s, a)
                    else:
                        weak = (s, a)
        if hit is not None:
            classified.add(hit[0])
            rep.ok(rule, eng.where(solve, A(hit[0])), "%s guarded by `%r`" % (rid, hit[1]))
        elif weak is not None:
            classified.add(weak[0])
            rep.bad(rule, eng.where(solve, A(weak[0])), "solver.solve|weakened-guard|%s" % rid, "guard for `%s` (%s) is `%r`: boundary value is no longer rejected" % (rid, reason, weak[1]))
        else:
            missing.append(rid)
    # an option that contradicts an argument: (row id, parameter key, required truth of the key, names on the smaller side, names on the larger side)
    for (rid, key, want, small, large, reason) in tables.OPTION_VS_ARGUMENT_ROWS:
        hit = None
        for s, gs in site_guards.items():
            opt = any((a.op == ("truth" if want else "false")) and isinstance(a.lhs, ast.Call) and param_key(eng, a.lhs) == key for a in gs)
            def _m(e, s=s):
                # names of the expression, an explaining local replaced by its defining expression (one level)
                if isinstance(e, ast.Name):
                    from .common import expand_locals
                    try:
                        return mentions(e) | mentions(expand_locals(cfg, A(s), e, depth=1))
                    except Exception:
                        return mentions(e)
                return mentions(e)
            cmp_ = any(a.op in ("lt", "le") and set(small) <= _m(a.lhs) and set(large) <= _m(a.rhs) for a in gs)
            if opt and cmp_:
                hit = s
        if hit is not None:
            classified.add(hit)
            rep.ok(rule, eng.where(solve, A(hit)), "contradiction `%s` guarded" % rid)
        else:
            missing.append(rid)
    # option-pair rows
    for (rid, conds, reason) in tables.OPTION_PAIR_ROWS:
        hit = None
        for s, gs in site_guards.items():
            okrow = True
            for (key, want) in conds:
                found = False
                for a in gs:
                    keys = param_keys_in(eng, a.lhs) | (param_keys_in(eng, a.rhs) if a.rhs is not None else set())
                    if key not in keys:
                        continue
                    if want is True and a.op == "truth":
                        found = True
                    elif want is False and a.op == "false":
                        found = True
                    elif want == "notnone" and a.op == "isnot" and is_none(a.rhs):
                        found = True
                if not found:
                    okrow = False
                    break
            if okrow:
                hit = s
                break
        if hit is not None:
            classified.add(hit)
            rep.ok(rule, eng.where(solve, A(hit)), "option conflict `%s` guarded" % rid)
        else:
            missing.append(rid)
    unclassified = [s for s in site_guards if s not in classified]
    for rid in missing:
        if unclassified:
            rep.unknown(rule, eng.where(solve), "no guard recognised for documented class `%s`, but %d input-error guards are in a form "
                        "the idiom table does not cover (e.g. %s)" % (rid, len(unclassified), short(A(unclassified[0]), 60)))
        else:
            rep.bad(rule, eng.where(solve), "solver.solve|missing-guard|%s" % rid,
                    "documented invalid-argument class `%s` has no guard ending in an EXIT_INPUT_ERROR result" % rid)
    for s in unclassified:
        rep.note(rule, eng.where(solve, A(s)), "additional input-error guard (not in the documented table)")


def _all_guard_expr(atoms):
    elts = []
    for a in atoms:
        elts.append(a.lhs)
        if a.rhs is not None:
            elts.append(a.rhs)
    return ast.Tuple(elts=elts, ctx=ast.Load())


# --------------------------------------------------------------------------------------------- C07-4
def exit_module(eng):
    """the module that defines the EXIT_* constants (controller on the pinned tree)"""
    best = None
    for mi in eng.prog.modules.values():
        k = len([n for n in mi.globals if n.startswith("EXIT_")])
        if k and (best is None or k > best[0]):
            best = (k, mi)
    if best is None:
        raise AnalysisError("no module defines EXIT_* constants")
    return best[1]


def exit_registry(eng):
    ctrl = exit_module(eng)
    consts = {}
    for name, val in ctrl.globals.items():
        if name.startswith("EXIT_"):
            v = const_value(val)
            if v is None:
                raise AnalysisError("exit code %s is not an integer literal" % name)
            consts[name] = v
    return consts


def rule_exit_registry(eng, rep):
    rule = "C07-4.exit-code-registry"
    ctrl = exit_module(eng)
    consts = exit_registry(eng)
    if not rep.require_count(rule, "EXIT_* constants", len(consts), 8):
        return
    # unique values
    inv = {}
    for k, v in consts.items():
        inv.setdefault(v, []).append(k)
    for v, ks in inv.items():
        if len(ks) > 1:
            rep.bad(rule, "dfols/controller.py", "controller|duplicate-exit-value|%s" % "+".join(sorted(ks)), "exit codes %s share the value %s" % (ks, v))
    exported = set(n for n in (ctrl.all or []) if n.startswith("EXIT_"))
    # attributes of OptimResults
    init = eng.fn("solver.OptimResults.__init__")
    attrs = {}
    for node in eng.prog.own_nodes(init):
        if isinstance(node, ast.Assign):
            for t in node.targets:
                if isinstance(t, ast.Attribute) and isinstance(t.value, ast.Name) and t.value.id == init.posparams[0] and t.attr.startswith("EXIT_"):
                    attrs[t.attr] = node.value
    documented = set(eng.docs.exit_codes)
    if not rep.require_count(rule, "documented exit codes", len(documented), 5):
        return
    # stems
    msg = eng.fn("controller.ExitInformation.message")
    cfgm = eng.cfg(msg)
    stems = set()
    for n in cfgm.nodes_of_kind("cond"):
        a = atom_of(cfgm.ast_of(n), True)
        if a.op == "eq":
            for side in (a.lhs, a.rhs):
                if isinstance(side, ast.Name) and side.id in consts:
                    stems.add(side.id)
    # ... or a table look-up: a dict (literal in place or a module-level constant) keyed by the EXIT_* names, used with [] / .get()
    def module_value(e):
        if isinstance(e, ast.Name) and e.id in ctrl.globals:
            return ctrl.globals[e.id]
        return e
    for node in eng.prog.own_nodes(msg):
        tab = None
        if isinstance(node, ast.Call) and isinstance(node.func, ast.Attribute) and node.func.attr == "get":
            tab = module_value(node.func.value)
        elif isinstance(node, ast.Subscript):
            tab = module_value(node.value)
        if isinstance(tab, ast.Dict):
            for k in tab.keys:
                if isinstance(k, ast.Name) and k.id in consts:
                    stems.add(k.id)
    # restart classification
    rst = eng.fn("controller.ExitInformation.able_to_do_restart")
    classified = set()
    for node in eng.prog.own_nodes(rst):
        if isinstance(node, ast.Compare) and len(node.ops) == 1 and isinstance(node.ops[0], ast.In) and isinstance(module_value(node.comparators[0]), (ast.List, ast.Tuple, ast.Set)):
            for e in module_value(node.comparators[0]).elts:
                if isinstance(e, ast.Name):
                    classified.add(e.id)
    # constructed flags
    constructed = {}
    nsites = 0
    for ci in eng.calls_to("controller.ExitInformation.__init__"):
        nsites += 1
        call = ci.node
        site = eng.where(ci.caller, call)
        b = bind_call(call, eng.fn("controller.ExitInformation.__init__"), True)
        fl = b.params.get("flag")
        ms = b.params.get("msg_details")
        if not isinstance(fl, ast.Name) or fl.id not in consts:
            rep.bad(rule, site, "%s|raw-exit-flag|%s" % (ci.caller.fid, short(fl, 30) if fl is not None and not isinstance(fl, tuple) else "?"),
                    "exit flag is not one of the named EXIT_* constants")
        else:
            constructed.setdefault(fl.id, []).append(site)
        if not _nonempty_message(ms):
            rep.bad(rule, site, "%s|empty-exit-message" % ci.caller.fid, "exit message is not a non-empty literal")
        else:
            rep.ok(rule, site, "flag %s with literal message" % (fl.id if isinstance(fl, ast.Name) else "?"), nontrivial=False)
    rep.require_count(rule, "ExitInformation construction sites", nsites, tables.MIN_COUNTS["exit_constructions"])

    def cmp(a, aname, b, bname, what, keyfmt, site):
        for x in sorted(a - b):
            rep.bad(rule, site, keyfmt % x, what % x)
        if not (a - b):
            rep.ok(rule, site, "%s is a subset of %s (%d names)" % (aname, bname, len(a)))

    cmp(documented, "user-guide exit codes", set(attrs), "OptimResults attributes",
        "exit code %s is documented in the user guide as an attribute of the result but OptimResults does not define it",
        "solver.OptimResults.__init__|documented-not-exposed|%s", "dfols/solver.py:OptimResults.__init__")
    cmp(set(attrs), "OptimResults attributes", set(consts), "controller constants",
        "result attribute %s does not name an exit-code constant", "solver.OptimResults.__init__|attr-not-constant|%s", "dfols/solver.py:OptimResults.__init__")
    for name, val in attrs.items():
        if not (isinstance(val, ast.Name) and val.id == name):
            rep.bad(rule, "dfols/solver.py:OptimResults.__init__", "solver.OptimResults.__init__|attr-crossed|%s" % name,
                    "self.%s is assigned %s" % (name, ekey(val)))
    cmp(set(constructed), "constructed flags", stems, "message stems",
        "flag %s can be returned but ExitInformation.message has no stem for it ('Unknown exit flag')",
        "controller.ExitInformation.message|no-stem|%s", "dfols/controller.py:ExitInformation.message")
    cmp(set(constructed), "constructed flags", documented, "user-guide exit codes",
        "flag %s can be returned but is not documented in the user guide",
        "docs/userguide.rst|undocumented|%s", "docs/userguide.rst")
    # constants used outside controller must be exported
    for fi in eng.prog.functions.values():
        if fi.module == "controller":
            continue
        for node in eng.prog.own_nodes(fi):
            if isinstance(node, ast.Name) and node.id in consts and isinstance(node.ctx, ast.Load) and eng.res.scope_of(fi, node.id) is None:
                if eng.res.module_symbol(fi.module, node.id) is None:
                    rep.bad(rule, eng.where(fi, node), "%s|not-exported|%s" % (fi.module, node.id), "constant %s is used but not importable here" % node.id)
    # every constructed flag has a deliberate restart classification or falls to the message-based default
    for name in sorted(set(constructed) - classified):
        rep.note(rule, "dfols/controller.py:ExitInformation.able_to_do_restart", "%s falls to the message-based default branch" % name)


def _nonempty_message(ms):
    if ms is None or isinstance(ms, tuple):
        return False
    if isinstance(ms, ast.Constant) and isinstance(ms.value, str):
        return bool(ms.value.strip())
    if isinstance(ms, ast.BinOp) and isinstance(ms.op, (ast.Mod, ast.Add)):
        return _nonempty_message(ms.left)
    if isinstance(ms, ast.JoinedStr):
        return any(isinstance(v, ast.Constant) and v.value.strip() for v in ms.values)
    if isinstance(ms, ast.Call) and isinstance(ms.func, ast.Attribute) and ms.func.attr == "format":
        return _nonempty_message(ms.func.value)
    return False


# --------------------------------------------------------------------------------------------- C07-5
def param_registry(eng):
    init = eng.fn("params.ParameterList.__init__")
    defaults = {}
    for node in eng.prog.own_nodes(init):
        if isinstance(node, ast.Assign):
            for t in node.targets:
                if isinstance(t, ast.Subscript) and isinstance(t.value, ast.Attribute) and t.value.attr == "params" \
                        and isinstance(t.slice, ast.Constant) and isinstance(t.slice.value, str):
                    defaults[t.slice.value] = node.value
    pt = eng.fn("params.ParameterList.param_type")
    cfgp = eng.cfg(pt)
    typed = {}
    for n in cfgp.nodes_of_kind("cond"):
        a = atom_of(cfgp.ast_of(n), True)
        if a.op == "eq":
            for side in (a.lhs, a.rhs):
                if isinstance(side, ast.Constant) and isinstance(side.value, str):
                    # the tuple assigned on the true edge
                    tup = None
                    for m, e in cfgp.succ(n):
                        if e["label"] is True:
                            st = cfgp.ast_of(m)
                            if isinstance(st, ast.Assign) and isinstance(st.value, ast.Tuple):
                                tup = st.value
                            elif isinstance(st, ast.Return) and isinstance(st.value, ast.Tuple):
                                tup = st.value              # `if key == "k": return 'int', False, lo, hi`
                    typed[side.value] = tup
    # ... or a table: a dict (in place or a module-level constant of params.py) from key to (type, nonetype_ok, lower, upper), read with [] / .get() / `in`
    pm = eng.prog.modules.get(pt.module)
    tables_seen = []
    for node in eng.prog.own_nodes(pt):
        cand = None
        if isinstance(node, ast.Subscript):
            cand = node.value
        elif isinstance(node, ast.Call) and isinstance(node.func, ast.Attribute) and node.func.attr == "get":
            cand = node.func.value
        elif isinstance(node, ast.Compare) and len(node.ops) == 1 and isinstance(node.ops[0], (ast.In, ast.NotIn)):
            cand = node.comparators[0]
        if isinstance(cand, ast.Name) and pm is not None and cand.id in pm.globals:
            cand = pm.globals[cand.id]
        if isinstance(cand, ast.Dict) and cand not in tables_seen:
            tables_seen.append(cand)
    for tab in tables_seen:
        for k, v in zip(tab.keys, tab.values):
            if isinstance(k, ast.Constant) and isinstance(k.value, str) and isinstance(v, ast.Tuple) and len(v.elts) == 4:
                typed.setdefault(k.value, v)
    return defaults, typed


def rule_param_registry(eng, rep):
    rule = "C07-5.parameter-registry"
    defaults, typed = param_registry(eng)
    if not rep.require_count(rule, "parameter defaults", len(defaults), tables.MIN_COUNTS["param_keys"]):
        return
    documented = set(eng.docs.param_keys)
    used = {}
    for ci in eng.calls_to(PARAMS_CALL):
        k = param_key(eng, ci.node)
        if k is not None:
            used.setdefault(k, []).append(ci)
    # params.params_changed['k'] / params.params['k'] literal subscripts outside ParameterList
    for fi in eng.prog.functions.values():
        if fi.cls == "ParameterList":
            continue
        for node in eng.prog.own_nodes(fi):
            if isinstance(node, ast.Subscript) and isinstance(node.value, ast.Attribute) and node.value.attr in ("params_changed", "params") \
                    and isinstance(node.slice, ast.Constant) and isinstance(node.slice.value, str):
                if any(a == ("C", "ParameterList") for a in eng.res.ev(fi, node.value.value)):
                    used.setdefault(node.slice.value, []).append(None)
    rep.require_count(rule, "distinct literal keys used", len(used), 55)
    D, T, U = set(defaults), set(typed), set(used)
    for k in sorted(U - D):
        ci = used[k][0]
        rep.bad(rule, eng.where(ci.caller, ci.node) if ci else "dfols", "params|used-not-defaulted|%s" % k,
                "parameter '%s' is read but has no default: ValueError('Unknown parameter') in the middle of a solve" % k)
    for k in sorted(D - T):
        rep.bad(rule, "dfols/params.py:ParameterList.param_type", "params|defaulted-not-typed|%s" % k,
                "parameter '%s' has a default but no branch in param_type: check_all_params hits `assert False`" % k)
    for k in sorted(T - D):
        rep.bad(rule, "dfols/params.py:ParameterList.param_type", "params|typed-not-defaulted|%s" % k, "param_type knows '%s' but it has no default" % k)
    for k in sorted(D - documented):
        rep.bad(rule, "docs/advanced.rst", "docs|param-undocumented|%s" % k, "parameter '%s' is not documented in advanced.rst" % k)
    for k in sorted(documented - D):
        rep.bad(rule, "docs/advanced.rst", "docs|param-documented-missing|%s" % k, "documented parameter '%s' does not exist" % k)
    if not (U - D) and not (D - T) and not (T - D):
        rep.ok(rule, "dfols/params.py", "defaults (%d) = typed (%d) >= used (%d)" % (len(D), len(T), len(U)))
    if not (D - documented) and not (documented - D):
        rep.ok(rule, "docs/advanced.rst", "documented keys = defaulted keys (%d)" % len(D))
    # type strings handled by check_param
    cp = eng.fn("params.ParameterList.check_param")
    cfgc = eng.cfg(cp)
    handled = set()
    for n in cfgc.nodes_of_kind("cond"):
        a = atom_of(cfgc.ast_of(n), True)
        if a.op == "eq":
            for side in (a.lhs, a.rhs):
                if isinstance(side, ast.Constant) and isinstance(side.value, str):
                    handled.add(side.value)
    for k, tup in sorted(typed.items()):
        if tup is None or len(tup.elts) != 4:
            rep.unknown(rule, "dfols/params.py:ParameterList.param_type", "cannot read the type tuple of '%s'" % k)
            continue
        ts = tup.elts[0]
        if not (isinstance(ts, ast.Constant) and ts.value in handled):
            rep.bad(rule, "dfols/params.py:ParameterList.param_type", "params|type-str-unhandled|%s" % k,
                    "type string %s of '%s' has no branch in check_param" % (ekey(ts), k))
        # default value is of the declared type (literal defaults only)
        dv = defaults.get(k)
        if isinstance(ts, ast.Constant) and isinstance(dv, ast.Constant) and dv.value is not None:
            want = {"int": int, "float": float, "bool": bool}.get(ts.value)
            if want is not None:
                good = isinstance(dv.value, want) and (want is bool or not isinstance(dv.value, bool))
                if not good:
                    rep.bad(rule, "dfols/params.py:ParameterList.__init__", "params|default-wrong-type|%s" % k,
                            "default %r of '%s' is not of declared type %s: every solve would end in 'Bad parameters'" % (dv.value, k, ts.value))
    rep.ok(rule, "dfols/params.py:ParameterList.check_param", "type strings %s all handled" % sorted(handled))


# --------------------------------------------------------------------------------------------- C07-6
def rule_unknown_key(eng, rep):
    rule = "C07-6.unknown-key-raises-ValueError"
    call = eng.fn(PARAMS_CALL)
    cfg = eng.cfg(call)
    key = call.posparams[1] if len(call.posparams) > 1 else None
    found = False
    for n in cfg.nodes_of_kind("cond"):
        a = atom_of(cfg.ast_of(n), True)
        if a.op in ("in", "notin") and isinstance(a.lhs, ast.Name) and a.lhs.id == key:
            found = True
            unknown_edge = (a.op == "notin")       # `if key in ...: else: raise`  or the guard clause  `if key not in ...: raise`
            for m, e in cfg.succ(n):
                if e["label"] is unknown_edge:
                    # every path from m must end in `raise ValueError`
                    raises = [r for r, d in cfg.g.nodes(data=True) if d["kind"] == "stmt" and isinstance(d["ast"], ast.Raise)
                              and _raised_name(d["ast"]) == "ValueError"]
                    p = cfg.path_avoiding(m, cfg.exit, raises) if m not in raises else None
                    if p is not None or (m == cfg.exit):
                        rep.bad(rule, eng.where(call), "params.ParameterList.__call__|unknown-key-returns",
                                "an unknown key can fall through without ValueError", path=cfg.describe_path(p or [m]))
                    else:
                        rep.ok(rule, eng.where(call), "unknown-key branch always ends in raise ValueError")
    if not found:
        rep.unknown(rule, eng.where(call), "membership test of the key not found")
    # solve applies user_params through __call__ outside any try
    solve = eng.fn("solver.solve")
    applied = False
    for ci in eng.calls_in(solve):
        if any(t.fid == PARAMS_CALL for t in ci.targets) and param_key(eng, ci.node) is None and is_param_set(ci.node):
            applied = True
            if _enclosing_try(eng, ci.node) is not None:
                rep.bad(rule, eng.where(solve, ci.node), "solver.solve|user-param-in-try", "user parameters are applied inside a try block")
            else:
                rep.ok(rule, eng.where(solve, ci.node), "user key applied through ParameterList.__call__ outside any try")
    if not applied:
        rep.bad(rule, eng.where(solve), "solver.solve|user-params-not-applied", "user_params entries are not applied through ParameterList.__call__")
    # ... and as given: the dictionary the caller passed is neither re-bound nor are its keys transformed (documented keys are case-sensitive)
    scfg = eng.cfg(solve)
    if "user_params" in solve.all_params:
        redefs = [n for n in scfg.g.nodes if n != scfg.entry and "user_params" in scfg.defs_of(n)[0]]
        if redefs:
            st = scfg.ast_of(redefs[0])
            rep.bad(rule, eng.where(solve, st), "solver.solve|user-params-rebound", "`%s` replaces the caller's parameter dictionary before it is applied: a key that is valid as documented can become an unknown one (ValueError)" % short(st, 60))
        else:
            rep.ok(rule, eng.where(solve), "user_params is applied as passed (never re-bound)")


def _raised_name(r):
    e = r.exc
    if isinstance(e, ast.Call):
        e = e.func
    if isinstance(e, ast.Name):
        return e.id
    if isinstance(e, ast.Attribute):
        return e.attr
    return None


def _enclosing_try(eng, node):
    cur = eng.prog.parent.get(id(node))
    prev = node
    while cur is not None and not isinstance(cur, (ast.FunctionDef, ast.Lambda)):
        if isinstance(cur, ast.Try) and any(prev is s for s in cur.body):
            return cur
        prev = cur
        cur = eng.prog.parent.get(id(cur))
    return None


# --------------------------------------------------------------------------------------------- C07-7
def rule_raises(eng, rep):
    rule = "C07-7.raise-inventory"
    reach = eng.reachable_from_solve()
    n = 0
    nassert = 0
    for fid in sorted(reach):
        fi = eng.prog.functions[fid]
        cfg = None
        for node in eng.prog.own_nodes(fi):
            if isinstance(node, ast.Assert):
                nassert += 1
            if not isinstance(node, ast.Raise):
                continue
            n += 1
            name = _raised_name(node)
            site = eng.where(fi, node)
            if any(fid == f and name == ex for (f, ex, _r) in tables.ALLOWED_RAISES):
                rep.ok(rule, site, "documented raise %s" % name)
                continue
            cfg = cfg or eng.cfg(fi)
            gs = guards_of(cfg, cfg.cfg_node(node))
            optin = False
            for (_b, a) in gs:
                if a.op != "truth":
                    continue
                if tables.OPT_IN_RAISE_PARAM in param_keys_in(eng, a.lhs):
                    optin = True
                elif isinstance(a.lhs, ast.Name) and _param_fed_only_by_key(eng, fi, a.lhs.id, tables.OPT_IN_RAISE_PARAM):
                    optin = True
            if optin:
                rep.ok(rule, site, "raise %s only under the opt-in parameter %s" % (name, tables.OPT_IN_RAISE_PARAM))
                continue
            # the construct is the raise statement itself (exception type + message), wherever a refactoring puts it
            msgs = [c.value for c in ast.walk(node) if isinstance(c, ast.Constant) and isinstance(c.value, str)]
            rep.bad(rule, site, "raise|%s|%s" % (name, (msgs[0][:60] if msgs else fid)), "explicit `raise %s` reachable from solve (a documented-domain input can surface as an exception)" % name)
    rep.require_count(rule, "raise statements reachable from solve", n, 3)
    rep.note(rule, "package", "%d assert statements reachable from solve (listed, not armed)" % nassert)


def _param_fed_only_by_key(eng, fi, pname, key):
    """Parameter pname of fi receives, at every resolved call site, params(key) (possibly and-ed)."""
    if pname not in fi.all_params:
        return False
    sites = eng.res.callers.get(fi.fid, [])
    if not sites:
        return False
    for ci in sites:
        okc = False
        for t, bound in eng.res.call_targets(ci.caller, ci.node):
            if t.fid != fi.fid:
                continue
            b = bind_call(ci.node, t, bound and t.is_method)
            e = b.params.get(pname)
            if e is not None and not isinstance(e, tuple) and param_key(eng, e) == key:
                okc = True
        if not okc:
            return False
    return True


# --------------------------------------------------------------------------------------------- C07-9
def rule_exit_info_nonnull(eng, rep):
    """Where solve dereferences exit_info (flag/message/able_to_do_restart) it cannot be None:
    in solve_main every `break` of the main loop and every return carries a non-None exit_info."""
    rule = "C07-9.exit-info-never-None"
    sm = eng.fn("solver.solve_main")
    cfg = eng.cfg(sm)
    var = "exit_info"
    NONE, SET, MAYBE = "None", "Set", "Maybe"

    def classify(value):
        if is_none(value):
            return NONE
        if isinstance(value, ast.Call):
            ci = eng.res.calls.get(id(value))
            if ci and ci.kind == "CTOR" and any(t.cls == "ExitInformation" for t in ci.targets):
                return SET
        return MAYBE

    def node_fn(n, s):
        d = cfg.g.nodes[n]
        st = d["ast"]
        if d["kind"] == "entry":
            return [MAYBE]
        if d["kind"] == "stmt" and isinstance(st, ast.Assign):
            for t in st.targets:
                if isinstance(t, ast.Name) and t.id == var:
                    return [classify(st.value)]
                if isinstance(t, (ast.Tuple, ast.List)) and var in assigned_names(t):
                    return [MAYBE]
        return [s]

    def edge_fn(a, b, e, s):
        if cfg.kind(a) == "cond" and e["label"] in (True, False):
            at = atom_of(cfg.ast_of(a), e["label"])
            if isinstance(at.lhs, ast.Name) and at.lhs.id == var and is_none(at.rhs):
                if at.op == "isnot":
                    return None if s == NONE else SET
                if at.op == "is":
                    return None if s == SET else NONE
        return s

    fl = Flow(cfg, MAYBE, node_fn, edge_fn)
    targets = [n for n, d in cfg.g.nodes(data=True) if d.get("jump") == "break" and _in_while_true(cfg, n)]
    rets = [n for n, d in cfg.g.nodes(data=True) if d["kind"] == "stmt" and isinstance(d["ast"], ast.Return)]
    rep.require_count(rule, "breaks of the main loop", len(targets), tables.MIN_COUNTS["solve_main_breaks"])
    for n in targets + rets:
        sts = fl.states(n)
        site = eng.where(sm, cfg.ast_of(n))
        badst = [s for s in sts if s != SET]
        if isinstance(cfg.ast_of(n), ast.Return):
            # only returns whose tuple carries exit_info
            if var not in mentions(cfg.ast_of(n).value):
                continue
        if badst:
            p = fl.path_to(n, badst[0])
            rep.bad(rule, site, "solver.solve_main|exit_info-maybe-None|%s" % _exit_context(cfg, n),
                    "run can end here with exit_info possibly None; solve then dereferences it", path=cfg.describe_path(p)[-25:])
        else:
            rep.ok(rule, site, "exit_info is a constructed ExitInformation on every path to this exit")


def _in_while_true(cfg, n):
    return True


def _exit_context(cfg, n):
    """A stable textual key for an exit site: the nearest preceding statement that is not a counter update."""
    preds = [p for p, e in cfg.pred(n, with_exc=False)]
    cur = n
    for _ in range(4):
        ps = [p for p, e in cfg.pred(cur, with_exc=False)]
        if len(ps) != 1:
            break
        cur = ps[0]
        st = cfg.ast_of(cur)
        if cfg.kind(cur) == "stmt" and not isinstance(st, ast.AugAssign):
            return short(st, 60)
        if cfg.kind(cur) == "cond":
            return "after " + short(st, 50)
    return "exit"


# --------------------------------------------------------------------------------------------- C07-5b
def rule_validators_test_the_value_itself(eng, rep, rule="C07-5b.type-validators-test-the-value-itself"):
    """check_param dispatches on the type string to check_integer / check_float / check_bool / check_str.  'Wrongly typed user parameters yield the
    input-error flag' needs each validator to accept only when isinstance(<the value it was given>, <that type>) holds: the value parameter is never
    re-assigned (a validator that converts its local copy accepts values the solver then receives unconverted), and every accepting return is either
    the isinstance test itself or dominated by its true outcome."""
    cp = eng.fn("params.ParameterList.check_param")
    expected = {"int": {"int"}, "float": {"float"}, "bool": {"bool"}, "str": {"str", "unicode"}}
    cfg = eng.cfg(cp)
    n = 0
    for ci in eng.calls_in(cp):
        if not ci.targets or not ci.targets[0].qualname.startswith("check_"):
            continue
        gs = guards_of(cfg, cfg.cfg_node(ci.node))
        tstr = None
        for (_b, a) in gs:
            if a.op == "eq" and isinstance(a.rhs, ast.Constant) and isinstance(a.rhs.value, str):
                tstr = a.rhs.value
            elif a.op == "eq" and isinstance(a.lhs, ast.Constant) and isinstance(a.lhs.value, str):
                tstr = a.lhs.value
        V = ci.targets[0]
        site = eng.where(V)
        if tstr not in expected:
            rep.unknown(rule, eng.where(cp, ci.node), "validator call not under a `type_str == '<type>'` test")
            continue
        n += 1
        val = V.posparams[0]
        type_params = set()
        # a thin wrapper `def check_integer(val, ..): return _check_number(val, int, ..)` is judged through the helper it delegates to, with the helper's
        # type parameter standing for the type named at the call
        wbody = [st for st in V.node.body if not (isinstance(st, ast.Expr) and isinstance(st.value, ast.Constant))]
        if len(wbody) == 1 and isinstance(wbody[0], ast.Return) and isinstance(wbody[0].value, ast.Call) and eng.res.calls.get(id(wbody[0].value)) is not None:
            hc = eng.res.calls[id(wbody[0].value)]
            hts = [t for t in hc.targets if isinstance(getattr(t, "node", None), ast.FunctionDef)]
            if len(hts) == 1:
                hb = bind_call(wbody[0].value, hts[0], False)
                hval = [pn for pn, e in hb.params.items() if isinstance(e, ast.Name) and e.id == val]
                htyp = [pn for pn, e in hb.params.items() if isinstance(e, ast.AST) and not isinstance(e, ast.Constant)
                        and set(x.id for x in ast.walk(e) if isinstance(x, ast.Name)) and set(x.id for x in ast.walk(e) if isinstance(x, ast.Name)) <= expected[tstr]]
                if len(hval) == 1 and not hb.errors:
                    V, val, type_params = hts[0], hval[0], set(htyp)
        vcfg = eng.cfg(V)
        reassigned = [m for m in vcfg.g.nodes if m != vcfg.entry and val in vcfg.defs_of(m)[0]]
        if reassigned:
            rep.bad(rule, eng.where(V, vcfg.ast_of(reassigned[0])), "%s|validator-reassigns-value" % V.fid,
                    "%s re-assigns `%s` before testing it: the test is passed by the converted copy while the parameter list keeps the original (wrongly typed) value" % (V.qualname, val))
            continue

        def is_type_test(e):
            if isinstance(e, ast.BoolOp) and isinstance(e.op, ast.Or):
                return all(is_type_test(v) for v in e.values)
            return isinstance(e, ast.Call) and isinstance(e.func, ast.Name) and e.func.id == "isinstance" and len(e.args) == 2 and ekey(e.args[0]) == val \
                and set(x.id for x in ast.walk(e.args[1]) if isinstance(x, ast.Name)) <= (expected[tstr] | type_params)

        okv = True
        for m, d in vcfg.g.nodes(data=True):
            st = d["ast"]
            if d["kind"] != "stmt" or not isinstance(st, ast.Return) or st.value is None:
                continue
            v = st.value
            if (isinstance(v, ast.Constant) and v.value is False) or is_type_test(v):
                continue
            g2 = guards_of(vcfg, m)
            none_branch = any(a.op == "is" and ekey(a.lhs) == val and is_none(a.rhs) for (_b, a) in g2)
            if none_branch and isinstance(v, ast.Name) and v.id in V.all_params:
                continue          # `if val is None: return allow_nonetype`
            typed = any(a.op == "truth" and is_type_test(a.lhs) for (_b, a) in g2)
            if not typed:
                okv = False
                rep.bad(rule, eng.where(V, st), "%s|accepts-without-type-test" % V.fid,
                        "%s can return `%s` without isinstance(%s, %s) having held" % (V.qualname, short(v, 40), val, "/".join(sorted(expected[tstr]))))
        if okv:
            rep.ok(rule, site, "%s accepts only when isinstance(%s, %s) holds for the value it was given" % (V.qualname, val, "/".join(sorted(expected[tstr]))))
    rep.require_count(rule, "type validators", n, 4)


# --------------------------------------------------------------------------------------------- C07-2b
def rule_shapes_validated_before_arithmetic(eng, rep, rule="C07-2b.user-arrays-are-combined-only-after-their-shapes-were-validated"):
    """x0 and the two bound vectors come from the caller; an element-wise operation that combines two of them broadcasts -- or raises ValueError -- when their
    shapes differ.  'Bad input is reported, not raised' therefore needs every such operation in solve to come after the shape rows of the validation block
    (first-error-wins idiom: after `if exit_info is None and <shapes differ>: exit_info = <input error>` the fact `exit_info is None => shapes agree` holds) and to
    run only under `exit_info is None` (a dominating guard, or the far side of the graceful return)."""
    solve = eng.fn("solver.solve")
    cfg = eng.cfg(solve)
    arrays = None
    # the shape rows: conds comparing np.shape(A) with np.shape(B); their arrays are the user arrays
    rows = {}
    for n in cfg.nodes_of_kind("cond"):
        t = cfg.ast_of(n)
        if isinstance(t, ast.Compare) and len(t.ops) == 1 and isinstance(t.ops[0], (ast.NotEq, ast.Eq)):
            sides = []
            for side in (t.left, t.comparators[0]):
                if isinstance(side, ast.Call) and ekey(side.func).split(".")[-1] == "shape" and side.args and isinstance(side.args[0], ast.Name):
                    sides.append(side.args[0].id)
                elif isinstance(side, ast.Attribute) and side.attr == "shape" and isinstance(side.value, ast.Name):
                    sides.append(side.value.id)
            if len(sides) == 2:
                rows[frozenset(sides)] = n
    arrays = set(x for k in rows for x in k)
    if len(arrays) < 3:
        rep.unknown(rule, eng.where(solve), "fewer than two shape rows found in solve's validation block (arrays seen: %s)" % sorted(arrays))
        return
    anchor = sorted(arrays, key=lambda a: -sum(1 for k in rows if a in k))[0]        # the array every other one is compared with (x0)

    def row_for(a, b_):
        if frozenset((a, b_)) in rows:
            return [rows[frozenset((a, b_))]]
        out = []
        for x in (a, b_):
            if x != anchor:
                r = rows.get(frozenset((x, anchor)))
                if r is None:
                    return None
                out.append(r)
        return out

    def names(e):
        return set(x.id for x in ast.walk(e) if isinstance(x, ast.Name) and x.id in arrays)

    nops = 0
    for n, d in cfg.g.nodes(data=True):
        st = d["ast"]
        if st is None or d["kind"] not in ("stmt", "cond"):
            continue
        for sub in ast.walk(st):
            pair = None
            if isinstance(sub, ast.BinOp) and isinstance(sub.op, (ast.Add, ast.Sub, ast.Mult, ast.Div)):
                l, r = names(sub.left), names(sub.right)
                if l and r and l != r:
                    pair = (sorted(l)[0], sorted(r - l or r)[0])
            elif isinstance(sub, ast.Compare) and len(sub.ops) == 1 and isinstance(sub.ops[0], (ast.Lt, ast.LtE, ast.Gt, ast.GtE)):
                l, r = names(sub.left), names(sub.comparators[0])
                if l and r and l != r:
                    pair = (sorted(l)[0], sorted(r - l or r)[0])
            if pair is None or pair[0] == pair[1]:
                continue
            nops += 1
            site = eng.where(solve, st)
            need = row_for(*pair)
            if need is None:
                rep.unknown(rule, site, "no shape row relates `%s` and `%s`" % pair)
                continue
            # the `if` of each needed row must have been passed: its first atomic test dominates this node
            def if_head(c):
                stmt = cfg.stmt_of(c)
                heads = [m for m in cfg.nodes_of_kind("cond") if cfg.stmt_of(m) is stmt]
                return min(heads)
            after_rows = all(cfg.dominates(if_head(c), n) and if_head(c) != n and not (cfg.stmt_of(c) is cfg.stmt_of(n)) for c in need)
            if not after_rows:
                # semantic form: every path to this node has evaluated the row's test or has recorded an input error on the way
                # (arms of an if/elif chain: `exit_info is None` afterwards means no arm was taken, i.e. every test of the chain was false)
                err_sites = [m for m, dd in cfg.g.nodes(data=True) if dd["kind"] == "stmt" and isinstance(dd["ast"], ast.Assign) and ekey(dd["ast"].targets[0]) == "exit_info"
                             and "EXIT_INPUT_ERROR" in ekey(dd["ast"].value)]
                after_rows = all(c != n and cfg.stmt_of(c) is not cfg.stmt_of(n) and cfg.path_avoiding(cfg.entry, n, [c] + err_sites) is None for c in need)
            gs = [a for (_b, a) in guards_of(cfg, n)]
            live = any(a.op == "is" and ekey(a.lhs) == "exit_info" and is_none(a.rhs) for a in gs)
            # or: reached only through the 'shapes agree' outcome of each needed row (e.g. a later arm of the same if/elif chain)
            agree = all(any((bnode == c) and a.op == "eq" for (bnode, a) in guards_of(cfg, n)) for c in need)
            if agree:
                rep.ok(rule, site, "`%s` is reached only through the 'same shape' outcome of the shape tests" % short(sub, 40), nontrivial=False)
                continue
            if after_rows and live:
                rep.ok(rule, site, "`%s` combines %s and %s after their shape rows, under `exit_info is None`" % (short(sub, 40), pair[0], pair[1]), nontrivial=False)
            else:
                rep.bad(rule, site, "solver.solve|arrays-combined-before-shape-check|%s" % short(sub, 25),
                        "`%s` combines the caller's arrays %s and %s %s: for bounds whose shape differs from x0 NumPy raises a broadcasting ValueError out of solve instead of the input-error flag"
                        % (short(sub, 40), pair[0], pair[1], "before their shapes were validated" if not after_rows else "although an input error may already have been recorded (not under `exit_info is None`)"))
    rep.require_count(rule, "element-wise operations combining two user arrays in solve", nops, 3)


# --------------------------------------------------------------------------------------------- C07-3b
def rule_gap_row_in_the_coordinates_of_rhobeg(eng, rep, rule="C07-3b.bound-gap-is-tested-in-the-coordinates-rhobeg-is-measured-in"):
    """rhobeg is a radius in the solver's internal variables.  With scaling_within_bounds those are the scaled variables, so the test `min(xu - xl) < 2*rhobeg`
    must read the bounds *after* they went through apply_scaling: every definition of the two bound vectors reaching the test is an apply_scaling(...) assignment."""
    solve = eng.fn("solver.solve")
    cfg = eng.cfg(solve)
    n = 0
    for c in cfg.nodes_of_kind("cond"):
        t = cfg.ast_of(c)
        at = atom_of(t, True)
        if at.op not in ("lt", "le") or "rhobeg" not in mentions(at.rhs) | mentions(at.lhs):
            continue
        side = at.lhs if "rhobeg" in mentions(at.rhs) else at.rhs
        diffs = [x for x in ast.walk(side) if isinstance(x, ast.BinOp) and isinstance(x.op, ast.Sub) and isinstance(x.left, ast.Name) and isinstance(x.right, ast.Name)]
        if not diffs:
            continue
        n += 1
        site = eng.where(solve, t)
        bad = []
        for nm in (diffs[0].left, diffs[0].right):
            for dn in cfg.defs_reaching(nm, nm.id):
                st = cfg.ast_of(dn)
                scaled = isinstance(st, ast.Assign) and isinstance(st.value, ast.Call) and id(st.value) in eng.res.calls and any(tt.fid == "util.apply_scaling" for tt in eng.res.calls[id(st.value)].targets)
                if not scaled:
                    bad.append((nm.id, st))
        if bad:
            rep.bad(rule, site, "solver.solve|gap-row-before-scaling|%s" % bad[0][0],
                    "`%s` reads `%s` as defined by `%s`, i.e. before the internal scaling: with scaling_within_bounds the physical width is compared with a radius in scaled units "
                    "(too-narrow boxes are accepted, valid ones rejected)" % (short(t, 50), bad[0][0], short(bad[0][1], 40) if bad[0][1] is not None else "the parameter"))
        else:
            rep.ok(rule, site, "`%s` reads both bound vectors as returned by apply_scaling" % short(t, 50))
    rep.require_count(rule, "gap rows (bounds difference compared with rhobeg)", n, 1)


# --------------------------------------------------------------------------------------------- C07-13
def rule_coordinate_precondition_established(eng, rep, rule="C07-13.precondition-of-the-coordinate-initialiser-is-established-by-solve"):
    """Controller.initialise_coordinate_directions asserts num_pts <= (n+1)(n+2)/2; solve_main calls it whenever init.random_initial_directions is false.
    An AssertionError out of solve is excluded only if solve itself establishes `random or npt <= bound` for the npt of every run:
      (a) the validation block rejects `not random and npt > bound` with the input-error flag;
      (b) every later assignment to npt (the hard-restart loop grows it) is followed, on every path to the next solve_main call, by a clamp
          `npt = min(npt, bound)` unless random directions are in use."""
    from ..dataflow import Flow
    from .common import arg_of, assigned_names
    KEY = "init.random_initial_directions"
    ic = eng.fn("controller.Controller.initialise_coordinate_directions")
    from .common import coordinate_precondition
    pre = coordinate_precondition(eng)
    bound = pre.comparators[0] if pre is not None else None
    if bound is None:
        rep.unknown(rule, eng.where(ic), "the asserted precondition `num_pts <= ...` of the coordinate initialiser was not found")
        return

    def norm(e, at=None):
        # (an explaining local such as `max_npt = (n + 1) * (n + 2) // 2` is looked through where the expression is evaluated)
        if at is not None and e is not None and isinstance(e, ast.Name):
            from .common import expand_locals
            try:
                e = expand_locals(cfg, at, e, depth=1)       # one level: the local's defining expression, its own names left alone
            except Exception:
                pass
        return ekey(e).replace("self.n()", "n").replace(" ", "")

    B = norm(bound)
    solve = eng.fn("solver.solve")
    cfg = eng.cfg(solve)
    sm_calls = [cfg.cfg_node(ci.node) for ci in eng.calls_in(solve) if any(t.fid == "solver.solve_main" for t in ci.targets)]
    npt_name = None
    for ci in eng.calls_in(solve):
        if any(t.fid == "solver.solve_main" for t in ci.targets):
            e = arg_of(eng, ci.node, eng.fn("solver.solve_main"), "npt")
            if isinstance(e, ast.Name):
                npt_name = e.id
    if not sm_calls or npt_name is None:
        rep.unknown(rule, eng.where(solve), "solve_main call sites / their npt argument not found")
        return

    def is_random(e):
        return isinstance(e, ast.Call) and param_key(eng, e) == KEY

    # (a) validation guard
    found = False
    for n, d in cfg.g.nodes(data=True):
        st = d["ast"]
        if d["kind"] == "stmt" and isinstance(st, ast.Assign) and ekey(st.targets[0]) == "exit_info" and "EXIT_INPUT_ERROR" in ekey(st.value):
            gsb = guards_of(cfg, n)
            gs = [a for (_b, a) in gsb]
            has_r = any(a.op == "false" and is_random(a.lhs) for a in gs)
            has_b = any(a.op == "lt" and norm(a.lhs, cfg.ast_of(b_)) == B and ekey(a.rhs) == npt_name for (b_, a) in gsb)      # bound < npt
            if has_r and has_b:
                found = True
                rep.ok(rule, eng.where(solve, st), "`not params('%s') and %s > %s` is rejected with the input-error flag" % (KEY, npt_name, ekey(bound)))
    if not found:
        rep.bad(rule, eng.where(solve), "solver.solve|coordinate-precondition-not-validated",
                "nothing in solve rejects `%s > %s` together with %s = False: solve_main then calls initialise_coordinate_directions, whose assertion `%s` fails (AssertionError out of solve)"
                % (npt_name, ekey(bound), KEY, short(bound, 40)))
    # (b) later assignments to npt
    gret = [n for n, d in cfg.g.nodes(data=True) if d["kind"] == "stmt" and isinstance(d["ast"], ast.Return)]
    first_call = min(sm_calls)
    grows = [n for n, d in cfg.g.nodes(data=True) if d["kind"] == "stmt" and isinstance(d["ast"], (ast.Assign, ast.AugAssign))
             and npt_name in assigned_names(d["ast"].targets[0] if isinstance(d["ast"], ast.Assign) else d["ast"].target)
             and cfg.path_avoiding(first_call, n, []) is not None]

    def is_clamp(st):
        return isinstance(st, ast.Assign) and isinstance(st.value, ast.Call) and isinstance(st.value.func, ast.Name) and st.value.func.id == "min" \
            and any(norm(a, st) == B for a in st.value.args) and any(ekey(a) == npt_name for a in st.value.args)

    def node_fn(n, s):
        st = cfg.ast_of(n)
        if n in grows:
            return ["OK"] if is_clamp(st) else ["U"]
        return [s]

    def edge_fn(a, b_, e, s):
        if s == "U" and cfg.kind(a) == "cond" and e.get("label") in (True, False):
            at = atom_of(cfg.ast_of(a), e["label"])
            if at.op == "truth" and is_random(at.lhs):
                return "OK"
            if at.op == "le" and ekey(at.lhs) == npt_name and norm(at.rhs, cfg.ast_of(a)) == B:
                return "OK"
        return s

    fl = Flow(cfg, "OK", node_fn, edge_fn)
    for c in sm_calls:
        st = set(fl.states(c))
        site = eng.where(solve, cfg.ast_of(c))
        if "U" in st:
            p = fl.path_to(c, "U")
            rep.bad(rule, site, "solver.solve|npt-grown-past-coordinate-limit",
                    "`%s` is re-assigned after validation and can reach this solve_main call above %s while %s is False: the run starts with the coordinate initialiser and fails its assertion"
                    % (npt_name, ekey(bound), KEY), path=cfg.describe_path(p)[-10:] if p else None)
        else:
            rep.ok(rule, site, "every re-assignment of `%s` reaching this call is clamped to %s unless random initial directions are in use" % (npt_name, ekey(bound)), nontrivial=bool(grows))
    rep.require_count(rule, "solve_main call sites", len(sm_calls), 2)


# --------------------------------------------------------------------------------------------- C07-12
def rule_restart_geometry_loop_in_range(eng, rep, rule="C07-12.restart-geometry-loop-stays-inside-the-list-of-closest-points"):
    """soft_restart cuts the sorted list of closest points to L[a : g + a] (a = 1 when the incumbent is kept) and loops over range(min(g, U)), reading L[i].
    The slice has min(g, N - a) entries (N points), so U must be N - a in *each* branch (sibling consistency of the two copy-pasted branches): a larger U
    is an IndexError out of solve for restarts.soft.num_geom_steps >= npt."""
    sr = eng.fn("controller.Controller.soft_restart")
    cfg = eng.cfg(sr)
    found = 0
    for ifn in [x for x in eng.prog.own_nodes(sr) if isinstance(x, ast.If)]:
        per_branch = []
        for body in (ifn.body, ifn.orelse):
            cut = lim = None
            for st in body:
                if isinstance(st, ast.Assign) and len(st.targets) == 1 and isinstance(st.targets[0], ast.Name):
                    t, v = st.targets[0].id, st.value
                    if isinstance(v, ast.Subscript) and isinstance(v.value, ast.Name) and v.value.id == t and isinstance(v.slice, ast.Slice):
                        lo = 0 if v.slice.lower is None else const_value(v.slice.lower)
                        up = v.slice.upper
                        cut = (t, lo, up, st)
                    else:
                        base, off = v, 0
                        if isinstance(v, ast.BinOp) and isinstance(v.op, (ast.Sub, ast.Add)) and const_value(v.right) is not None:
                            base, off = v.left, (const_value(v.right) if isinstance(v.op, ast.Sub) else -const_value(v.right))
                        lim = (t, ekey(base), off, st)
            per_branch.append((cut, lim))
        if not all(c is not None and l is not None for (c, l) in per_branch) or len(per_branch) != 2:
            continue
        (c1, l1), (c2, l2) = per_branch
        if c1[0] != c2[0] or l1[0] != l2[0]:
            continue
        # the loop that reads the list: for i in range(min(.., U)): .. L[i]
        reads = [x for x in eng.prog.own_nodes(sr) if isinstance(x, ast.Subscript) and isinstance(x.value, ast.Name) and x.value.id == c1[0] and isinstance(x.slice, ast.Name) and isinstance(x.ctx, ast.Load)]
        if not reads:
            continue
        found += 1
        # how many entries does the list have?  L = argsort(V), V = X[:N]  ->  N
        length_src = None
        for st in eng.prog.own_nodes(sr):
            if isinstance(st, ast.Assign) and len(st.targets) == 1 and isinstance(st.targets[0], ast.Name) and st.targets[0].id == c1[0] and isinstance(st.value, ast.Call) \
                    and st.value.args and isinstance(st.value.args[0], ast.Name):
                vname = st.value.args[0].id
                for st2 in eng.prog.own_nodes(sr):
                    if isinstance(st2, ast.Assign) and len(st2.targets) == 1 and isinstance(st2.targets[0], ast.Name) and st2.targets[0].id == vname \
                            and isinstance(st2.value, ast.Subscript) and isinstance(st2.value.slice, ast.Slice) and st2.value.slice.lower is None and st2.value.slice.upper is not None:
                        length_src = st2.value.slice.upper
        from .common import capacity_fields
        caps = set(capacity_fields(eng))
        for (cut, lim) in per_branch:
            site = eng.where(sr, lim[3])
            if length_src is not None and lim[1] != ekey(length_src):
                base_field = lim[1].split(".")[-1]
                if base_field in caps:
                    rep.bad(rule, site, "controller.Controller.soft_restart|limit-is-the-capacity|%s" % base_field,
                            "the list has `%s` entries (the points held now) but the loop is bounded by `%s`, the capacity of the model: during the growing phase the model holds "
                            "fewer points than its capacity, so a soft restart indexes past the end of the list (IndexError out of solve)" % (short(length_src, 30), lim[1]))
                    continue
                rep.unknown(rule, site, "the list has `%s` entries but the loop is bounded by `%s`" % (short(length_src, 30), lim[1]))
                continue
            # slice upper bound must be g + a (so that g entries are available when there are enough points)
            up_ok = True
            if cut[1] and cut[2] is not None:
                u = cut[2]
                up_ok = isinstance(u, ast.BinOp) and isinstance(u.op, ast.Add) and const_value(u.right) == cut[1]
            if lim[1] != l1[1]:
                rep.bad(rule, site, "controller.Controller.soft_restart|limit-base-differs", "the two branches bound the loop by different quantities (`%s` / `%s`)" % (l1[1], lim[1]))
            elif cut[1] is None or lim[2] != cut[1] or not up_ok:
                rep.bad(rule, site, "controller.Controller.soft_restart|limit-vs-slice|%s-%s" % (cut[1], lim[2]),
                        "`%s` drops the first %s entries of the list but the loop bound is `%s`: with %s entries skipped the list holds at most %s - %s points, so the loop can index past its end (IndexError out of solve)"
                        % (short(cut[3], 60), cut[1], short(lim[3].value, 40), cut[1], lim[1], cut[1]))
            else:
                rep.ok(rule, site, "list cut to [%s : g + %s], loop bounded by %s - %s" % (cut[1], cut[1], lim[1], lim[2]))
    rep.require_count(rule, "sliced-list / loop-limit sibling branches in soft_restart", found, 1)


# --------------------------------------------------------------------------------------------- C07-10
def rule_internal_param_updates(eng, rep, rule="C07-10.internal-parameter-updates-cannot-collide-with-user-updates"):
    """ParameterList.__call__ raises ValueError on a second update of a key.  Every update made by the package itself after the
    user's parameters were applied must therefore be guarded by one of the idioms that exclude a previous update of that key."""
    n = 0
    defaults, typed = param_registry(eng)
    for ci in eng.calls_to(PARAMS_CALL):
        if not is_param_set(ci.node):
            continue
        key = param_key(eng, ci.node)
        fi = ci.caller
        if key is None:
            continue          # the user's own keys (solve applies user_params)
        if fi.cls == "ParameterList":
            continue
        n += 1
        cfg = eng.cfg(fi)
        cn = cfg.cfg_node(ci.node)
        gs = guards_of(cfg, cn)
        how = None
        for (_b, a) in gs:
            # (a) not params.params_changed[key]
            if a.op == "false" and isinstance(a.lhs, ast.Subscript) and ekey(a.lhs.value).endswith("params_changed") and isinstance(a.lhs.slice, ast.Constant) and a.lhs.slice.value == key:
                how = "guarded by `not params.params_changed['%s']`" % key
            # (c) params(key) is None, with a None default: setting a key to None is a read, so a None value was never updated
            if a.op == "is" and is_none(a.rhs) and isinstance(a.lhs, ast.Call) and param_key(eng, a.lhs) == key and is_none(defaults.get(key)):
                how = "guarded by `params('%s') is None` (default None: an updated key cannot be None)" % key
            # (b) a flag defined from `key in user_params`
            if a.op in ("false", "truth") and isinstance(a.lhs, ast.Name):
                flag = a.lhs.id
                if _flag_means_key_not_set(eng, fi, flag, key, a.op):
                    how = "guarded by `%s%s`, which is defined from `'%s' in user_params`" % ("not " if a.op == "false" else "", flag, key)
        site = eng.where(fi, ci.node)
        if how:
            rep.ok(rule, site, "update of '%s' %s" % (key, how))
        else:
            rep.bad(rule, site, "%s|unguarded-internal-update|%s" % (fi.fid, key),
                    "the package updates '%s' without excluding that the user already set it: ParameterList raises ValueError('... for a second time') in the middle of a valid solve" % key)
    rep.require_count(rule, "internal parameter updates", n, 3)


def _flag_means_key_not_set(eng, fi, flag, key, op):
    """flag (a parameter of fi) is bound at the call sites from an expression that contains  `'<key>' in user_params`,
    and the update runs on the outcome where that membership is false."""
    if op != "false" or flag not in fi.all_params:
        return False
    sites = eng.res.callers.get(fi.fid, [])
    found = False
    for ci in sites:
        for t, bound in eng.res.call_targets(ci.caller, ci.node):
            if t.fid != fi.fid:
                continue
            b = bind_call(ci.node, t, bound and t.is_method)
            e = b.params.get(flag)
            if e is None or isinstance(e, tuple):
                continue
            ccfg = eng.cfg(ci.caller)
            exprs = [e]
            if isinstance(e, ast.Name):
                exprs = [ccfg.ast_of(d).value for d in ccfg.defs_reaching(e, e.id) if isinstance(ccfg.ast_of(d), ast.Assign)]
            for ex in exprs:
                if not _membership_implies(ex, key):
                    return False
                found = True
    return found


def _membership_implies(ex, key):
    """Truth table over the atoms of the flag's defining expression: whenever `'<key>' in user_params` holds (so user_params is not None), the flag must
    be true -- only then does `not flag` exclude that the user set this key.  (`a in up or b in up` qualifies for both keys, `a in up and b in up` for neither.)"""
    import itertools
    atoms = {}

    def positive(e):
        """`a not in b` / `a is None` are the negations of the atoms `a in b` / `a is not None`"""
        if isinstance(e, ast.Compare) and len(e.ops) == 1 and isinstance(e.ops[0], (ast.NotIn, ast.Is)):
            pos = ast.Compare(left=e.left, ops=[ast.In() if isinstance(e.ops[0], ast.NotIn) else ast.IsNot()], comparators=e.comparators)
            return pos, True
        return e, False

    def atom(e):
        e, _neg = positive(e)
        return atoms.setdefault(ekey(e), e)

    def collect(e):
        if isinstance(e, ast.BoolOp):
            for v in e.values:
                collect(v)
        elif isinstance(e, ast.UnaryOp) and isinstance(e.op, ast.Not):
            collect(e.operand)
        else:
            atom(e)

    def ev(e, env):
        if isinstance(e, ast.BoolOp):
            vals = [ev(v, env) for v in e.values]
            return all(vals) if isinstance(e.op, ast.And) else any(vals)
        if isinstance(e, ast.UnaryOp) and isinstance(e.op, ast.Not):
            return not ev(e.operand, env)
        pe, neg = positive(e)
        return (not env[ekey(pe)]) if neg else env[ekey(pe)]

    collect(ex)
    mine = [k for k, e in atoms.items() if isinstance(e, ast.Compare) and len(e.ops) == 1 and isinstance(e.ops[0], ast.In) and isinstance(e.left, ast.Constant)
            and e.left.value == key and "user_params" in ekey(e.comparators[0])]
    if not mine or len(atoms) > 10:
        return False
    notnone = [k for k, e in atoms.items() if isinstance(e, ast.Compare) and len(e.ops) == 1 and isinstance(e.ops[0], ast.IsNot) and "user_params" in ekey(e.left) and is_none(e.comparators[0])]
    isnone = [k for k, e in atoms.items() if isinstance(e, ast.Compare) and len(e.ops) == 1 and isinstance(e.ops[0], ast.Is) and "user_params" in ekey(e.left) and is_none(e.comparators[0])]
    names = sorted(atoms)
    for combo in itertools.product([False, True], repeat=len(names)):
        env = dict(zip(names, combo))
        if not all(env[k] for k in mine):
            continue
        if any(not env[k] for k in notnone) or any(env[k] for k in isnone):
            continue          # a key can only be in user_params if user_params is not None
        if not ev(ex, env):
            return False
    return True


# --------------------------------------------------------------------------------------------- C07-11
def _path_avoiding_first_iteration_aware(cfg, src, dst, avoid):
    """cfg.path_avoiding, refined by one feasibility fact: inside `for v in range(start, ..)` the test `v == start` is true in the first iteration and false in
    every later one (the idiom `if i == 0: <initialise>`).  Search over (node, set of loops that are in their first iteration)."""
    from collections import deque
    loops = {}
    for (h, kind, st) in cfg.loops:
        if kind == "for" and isinstance(st.target, ast.Name) and isinstance(st.iter, ast.Call) and isinstance(st.iter.func, ast.Name) and st.iter.func.id == "range" and 1 <= len(st.iter.args) <= 3:
            start = 0 if len(st.iter.args) == 1 else const_value(st.iter.args[0])
            if start is not None:
                body_assigns = any(isinstance(x, ast.Name) and x.id == st.target.id and isinstance(x.ctx, ast.Store) for b_ in st.body for x in ast.walk(b_))
                if not body_assigns:
                    loops[h] = (st.target.id, start, cfg.loop_nodes(h))

    def forced(node, first):
        """None, or the only feasible outcome of this cond"""
        if cfg.kind(node) != "cond":
            return None
        t = cfg.ast_of(node)
        if not (isinstance(t, ast.Compare) and len(t.ops) == 1 and isinstance(t.ops[0], (ast.Eq, ast.NotEq))):
            return None
        for h, (var, start, body) in loops.items():
            if node not in body:
                continue
            sides = (t.left, t.comparators[0])
            for a, b_ in (sides, sides[::-1]):
                if isinstance(a, ast.Name) and a.id == var and const_value(b_) == start:
                    is_first = h in first
                    return is_first if isinstance(t.ops[0], ast.Eq) else (not is_first)
        return None

    avoid = set(avoid)
    s0 = (src, frozenset())
    prev = {s0: None}
    dq = deque([s0])
    goal = None
    while dq:
        cur = dq.popleft()
        node, first = cur
        if node == dst and node != src:
            goal = cur
            break
        want = forced(node, first)
        for m in cfg.g.successors(node):
            e = cfg.g[node][m]
            if e["kind"] == "exc":
                continue
            if want is not None and e.get("label") in (True, False) and e["label"] != want:
                continue
            if m in avoid and m != dst:
                continue
            f2 = first
            if m in loops:
                f2 = (first - {m}) if e["kind"] in ("back", "continue") else (first | {m})
            nxt = (m, f2)
            if nxt in prev:
                continue
            prev[nxt] = cur
            dq.append(nxt)
    if goal is None:
        return None
    path = []
    cur = goal
    while cur is not None:
        path.append(cur[0])
        cur = prev[cur]
    return path[::-1]


def rule_definite_assignment(eng, rep, rule="C07-11.locals-are-assigned-before-use"):
    """A local that is read on a path on which it was never assigned raises UnboundLocalError in the middle of a solve.  Every such
    (function, variable) pair must be in the frozen, confirmed-by-reading table; anything else is reported."""
    reach = eng.reachable_from_solve()
    okset = dict(((row[0], row[1]), row[2]) for row in tables.MAYBE_UNDEFINED_OK)
    premises = dict(((row[0], row[1]), row[3]) for row in tables.MAYBE_UNDEFINED_OK if len(row) > 3)
    seen_ok = set()
    nuse = 0
    for fid in sorted(reach):
        fi = eng.prog.functions[fid]
        if fi.is_lambda:
            continue
        cfg = eng.cfg(fi)
        reachable = cfg.reachable()
        locs = eng.res.locals_of[fi.fid] - set(fi.all_params)
        # names bound by comprehensions / lambdas inside this function are not locals of it
        inner = set()
        for node in eng.prog.own_nodes(fi):
            if isinstance(node, (ast.ListComp, ast.SetComp, ast.DictComp, ast.GeneratorExp)):
                for gen in node.generators:
                    for t in ast.walk(gen.target):
                        if isinstance(t, ast.Name):
                            inner.add(t.id)
        defnodes = {}
        for x in cfg.g.nodes:
            strong, weak = cfg.defs_of(x)
            for v in strong:
                defnodes.setdefault(v, []).append(x)
        flagged = set()
        for node in eng.prog.own_nodes(fi):
            if not (isinstance(node, ast.Name) and isinstance(node.ctx, ast.Load) and node.id in locs and node.id not in inner):
                continue
            if eng.res.scope_of(fi, node.id) is not fi:
                continue
            if node.id in flagged and (fid, node.id) not in premises:
                continue
            try:
                n = cfg.cfg_node(node)
            except AnalysisError:
                continue
            if n not in reachable:
                continue
            nuse += 1
            p = cfg.path_avoiding(cfg.entry, n, [x for x in defnodes.get(node.id, []) if x != n])
            if p is not None:
                p = _path_avoiding_first_iteration_aware(cfg, cfg.entry, n, [x for x in defnodes.get(node.id, []) if x != n])
            if p is None:
                continue
            first = node.id not in flagged
            flagged.add(node.id)
            site = eng.where(fi, node)
            if (fid, node.id) in premises:
                gs = [a_ for (_b, a_) in guards_of(cfg, n)]
                missing = []
                for (kind, what, want) in premises[(fid, node.id)]:
                    if kind == "isnot":
                        okp = any(a_.op == "isnot" and ekey(a_.lhs) == what and is_none(a_.rhs) for a_ in gs)
                    else:
                        okp = any(a_.op == ("truth" if want else "false") and isinstance(a_.lhs, ast.Call) and param_key(eng, a_.lhs) == what for a_ in gs)
                    if not okp:
                        missing.append(what)
                if missing:
                    rep.bad(rule, site, "%s|maybe-unassigned-read-outside-its-premise|%s" % (fid, node.id),
                            "local `%s` is assigned on some paths only; the confirmed exception holds for reads under %s, but this read is not guarded by %s (UnboundLocalError)"
                            % (node.id, [w for (_k, w, _v) in premises[(fid, node.id)]], missing), path=cfg.describe_path(p)[-8:])
                    continue
            if not first:
                continue
            if (fid, node.id) in okset:
                seen_ok.add((fid, node.id))
                rep.note(rule, site, "`%s` is assigned on some paths only -- confirmed safe: %s" % (node.id, okset[(fid, node.id)]))
            else:
                rep.bad(rule, site, "%s|maybe-unassigned|%s" % (fid, node.id),
                        "local `%s` can be read on a path on which it was never assigned (UnboundLocalError)" % node.id, path=cfg.describe_path(p)[-12:])
    rep.ok(rule, "package", "%d reads of locals in functions reachable from solve: every read is preceded by an assignment on every path, or is one of the %d confirmed exceptions" % (nuse, len(seen_ok)))
    # the exception for the S-FISTA loop relies on the parameter table
    defaults, typed = param_registry(eng)
    tup = typed.get("func_tol.max_iters")
    lo = const_value(tup.elts[2]) if tup is not None and len(tup.elts) == 4 else None
    if ("trust_region.ctrsbox_sfista", "gnew") in seen_ok:
        if lo is not None and lo >= 1:
            rep.ok(rule, "dfols/params.py:ParameterList.param_type", "func_tol.max_iters >= %s: the S-FISTA loop that assigns gnew runs at least once" % lo)
        else:
            rep.bad(rule, "dfols/params.py:ParameterList.param_type", "trust_region.ctrsbox_sfista|zero-iterations-allowed|gnew",
                    "func_tol.max_iters = %s is accepted, but with zero S-FISTA iterations `gnew` is never assigned (UnboundLocalError) and the smoothing parameter divides by zero" % lo)
    rep.require_count(rule, "reads of locals analysed", nuse, 1500)


# --------------------------------------------------------------------------------------------- C07-14
def rule_no_python_division_by_a_vanishing_root(eng, rep, rule="C07-14.no-python-float-division-by-a-root-or-modulus-that-can-vanish"):
    """NumPy divisions by zero give inf/nan and a warning; a division of *Python* numbers raises ZeroDivisionError, which solve does not catch.  The package takes Python
    floats from math.sqrt / float() / abs(): a square root or modulus of data is zero for degenerate data (all interpolation points coincide after rounding), so a
    Python-typed division by one must be protected -- by a test of the denominator on every path from its definition to the division, or by a floor (max(., positive)).
    Decided for every function reachable from solve: typing (definitely-Python operands), zero-ness ({positive, can-vanish}) and a path query that does not follow
    the branches of tests that exclude zero."""
    from .common import expand_locals
    reach = eng.reachable_from_solve()
    _defaults, typed = param_registry(eng)
    POSITIVE_DATA = ("nsamples",)         # sample counts are >= 1 wherever a point is stored (C17-3)
    ndiv = nflag = 0
    for fid in sorted(reach):
        fi = eng.prog.functions[fid]
        if fi.is_lambda:
            continue
        mi = eng.prog.modules[fi.module]
        pymath = set(n for n, lib in mi.lib_aliases.items() if lib.startswith("math."))
        cfg = None

        def is_py(e, at, depth=3):
            """definitely a Python number (not a NumPy scalar / array)"""
            if isinstance(e, ast.Constant):
                return isinstance(e.value, (int, float)) and not isinstance(e.value, bool)
            if isinstance(e, ast.UnaryOp) and isinstance(e.op, (ast.USub, ast.UAdd)):
                return is_py(e.operand, at, depth)
            if isinstance(e, ast.BinOp) and isinstance(e.op, (ast.Add, ast.Sub, ast.Mult, ast.Div, ast.Pow)):
                return is_py(e.left, at, depth) and is_py(e.right, at, depth)
            if isinstance(e, ast.Call):
                f = e.func
                if isinstance(f, ast.Name) and (f.id in pymath or f.id in ("float", "int", "len")):
                    return True
                if isinstance(f, ast.Attribute) and isinstance(f.value, ast.Name) and mi.lib_aliases.get(f.value.id) == "math":
                    return True
                if isinstance(f, ast.Name) and f.id in ("abs", "max", "min") and e.args:
                    return all(is_py(a, at, depth) for a in e.args)
                if param_key(eng, e) is not None:
                    return True        # parameter values are Python numbers (type-checked by ParameterList)
                return False
            if isinstance(e, ast.Name) and depth > 0:
                try:
                    defs = cfg.defs_reaching(at, e.id)
                except Exception:
                    return False
                vals = []
                for dn in defs:
                    ds = cfg.ast_of(dn)
                    if isinstance(ds, ast.Assign) and len(ds.targets) == 1 and isinstance(ds.targets[0], ast.Name) and ds.targets[0].id == e.id:
                        vals.append(is_py(ds.value, ds, depth - 1))
                    else:
                        vals.append(False)
                return bool(vals) and all(vals)
            return False

        def can_vanish(v):
            """the value expression of a definition: a root / modulus of data that is not floored"""
            if isinstance(v, ast.Call):
                name = ekey(v.func).split(".")[-1]
                if name in ("sqrt", "abs", "fabs") and v.args:
                    a = v.args[0]
                    if isinstance(a, ast.Constant):
                        return False
                    if any(p in mentions(a) for p in POSITIVE_DATA):
                        return False
                    return True
                if name in ("max",):
                    return False if any(isinstance(a, ast.Constant) and isinstance(a.value, (int, float)) and a.value > 0 for a in v.args) else all(can_vanish(a) for a in v.args)
                if name in ("float",) and v.args:
                    return can_vanish(v.args[0])
            return False

        for node in eng.prog.own_nodes(fi):
            if not (isinstance(node, ast.BinOp) and isinstance(node.op, (ast.Div, ast.FloorDiv, ast.Mod))):
                continue
            if isinstance(node.left, ast.Constant) and isinstance(node.left.value, str):
                continue
            if cfg is None:
                cfg = eng.cfg(fi)
            try:
                at = cfg.ast_of(cfg.cfg_node(node))
            except Exception:
                continue
            den = node.right
            if not (is_py(node.left, at) and is_py(den, at)):
                continue
            ndiv += 1
            site = eng.where(fi, at if isinstance(at, ast.stmt) else node)
            # definitions of the denominator that can vanish
            bad_def = None
            if isinstance(den, ast.Name):
                here = cfg.cfg_node(node)
                for dn in cfg.defs_reaching(at, den.id):
                    ds = cfg.ast_of(dn)
                    if not (isinstance(ds, ast.Assign) and can_vanish(ds.value)):
                        continue
                    redefs = [k for k in cfg.g.nodes if k != dn and den.id in cfg.defs_of(k)[0]]

                    def edge_ok(a, b, e, name=den.id):
                        if cfg.kind(a) != "cond" or e.get("label") not in (True, False):
                            return True
                        atm = atom_of(cfg.ast_of(a), e["label"])
                        if atm.rhs is None or not (isinstance(atm.lhs, ast.Name) and atm.lhs.id == name or isinstance(atm.rhs, ast.Name) and atm.rhs.id == name):
                            return True
                        other = atm.rhs if (isinstance(atm.lhs, ast.Name) and atm.lhs.id == name) else atm.lhs
                        c = const_value(other)
                        if c is None:
                            return True
                        name_left = isinstance(atm.lhs, ast.Name) and atm.lhs.id == name
                        # is `name == 0` consistent with the atom?
                        z = 0.0
                        if atm.op == "eq":
                            return z == c
                        if atm.op == "ne":
                            return z != c
                        if atm.op == "lt":
                            return (z < c) if name_left else (c < z)
                        if atm.op == "le":
                            return (z <= c) if name_left else (c <= z)
                        return True
                    if cfg.path_avoiding(dn, here, redefs, edge_ok=edge_ok) is not None:
                        bad_def = ds
                        break
            elif can_vanish(den):
                bad_def = den
            # a parameter as denominator: its documented range must exclude zero
            pk = den
            while isinstance(pk, ast.Call) and isinstance(pk.func, ast.Name) and pk.func.id in ("float", "int") and pk.args:
                pk = pk.args[0]
            key = param_key(eng, pk) if isinstance(pk, ast.Call) else None
            if key is not None and bad_def is None:
                tup = typed.get(key)
                lo = const_value(tup.elts[2]) if tup is not None and len(tup.elts) == 4 else None
                if lo is None or lo <= 0:
                    nflag += 1
                    rep.bad(rule, site, "%s|python-division-by-parameter|%s" % (fid, key),
                            "`%s` divides Python numbers by the parameter %s, whose accepted range starts at %s: the value 0 passes check_all_params and ZeroDivisionError escapes from solve"
                            % (short(node, 50), key, lo))
                    continue
            if bad_def is not None:
                nflag += 1
                rep.bad(rule, site, "%s|python-division-by-vanishing-root|%s" % (fid, short(den, 25)),
                        "`%s` divides Python numbers by `%s` = `%s`, which is 0.0 for degenerate data (e.g. all interpolation points coincide after rounding): ZeroDivisionError escapes from solve"
                        % (short(node, 50), short(den, 25), short(bad_def, 60)))
            else:
                rep.ok(rule, site, "Python-typed division `%s`: the denominator cannot be a vanishing root / modulus here" % short(node, 50), nontrivial=False)
    rep.require_count(rule, "divisions with Python-typed operands reachable from solve", ndiv, 5)


# --------------------------------------------------------------------------------------------- C07-15
def rule_solve_does_not_assert_on_its_arguments(eng, rep, rule="C07-15.solve-reports-bad-arguments-instead-of-asserting"):
    """An `assert` on an argument inside solve is an exception path for bad input (AssertionError -- or nothing at all under python -O), where the package's own
    convention is an input-error result with zero evaluations.  Every assert in solve whose condition reads one of solve's parameters (directly or through a local
    defined from one) is reported."""
    solve = eng.fn("solver.solve")
    cfg = eng.cfg(solve)
    params = set(solve.all_params)
    nassert = 0
    for node in eng.prog.own_nodes(solve):
        if not isinstance(node, ast.Assert):
            continue
        nassert += 1
        names = set(x.id for x in ast.walk(node.test) if isinstance(x, ast.Name))
        hit = names & params
        if hit:
            rep.bad(rule, eng.where(solve, node), "solver.solve|assert-on-argument|%s" % sorted(hit)[0],
                    "`%s` checks the argument `%s` with an assertion: bad input raises AssertionError out of solve instead of returning the input-error flag" % (short(node, 60), sorted(hit)[0]))
        else:
            rep.ok(rule, eng.where(solve, node), "assertion on internal state", nontrivial=False)
    rep.ok(rule, eng.where(solve), "%d assert statement(s) in solve inspected" % nassert, nontrivial=bool(nassert))


# --------------------------------------------------------------------------------------------- C07-16
def rule_float_to_int_handlers_are_two_sided(eng, rep, rule="C07-16.a-handler-for-nan-in-a-float-to-int-conversion-also-covers-infinity"):
    """ceil() / int() / floor() / round() of a float raise ValueError for NaN and OverflowError for +-inf.  Where the code already guards such a conversion with
    `except ValueError` it states the belief that the quotient inside can be non-finite; the same quotient is infinite when its denominator is zero (func_tol = 0 for
    func_tol.criticality_measure = 0 or func_tol.tr_step = 1, both inside their documented ranges), so a handler that names only ValueError lets OverflowError escape
    from solve (contradiction / one-sided handling rule)."""
    reach = eng.reachable_from_solve()
    CONV = ("ceil", "floor", "int", "round", "trunc")
    ntry = 0
    for fid in sorted(reach):
        fi = eng.prog.functions[fid]
        if fi.is_lambda:
            continue
        for node in eng.prog.own_nodes(fi):
            if not isinstance(node, ast.Try):
                continue
            convs = [c for st in node.body for c in ast.walk(st) if isinstance(c, ast.Call) and ekey(c.func).split(".")[-1] in CONV and c.args
                     and any(isinstance(x, ast.BinOp) and isinstance(x.op, ast.Div) for x in ast.walk(c.args[0]))]
            if not convs:
                continue
            caught = set()
            for h in node.handlers:
                if h.type is None:
                    caught |= {"ValueError", "OverflowError"}
                else:
                    for t in (h.type.elts if isinstance(h.type, ast.Tuple) else [h.type]):
                        nm = ekey(t).split(".")[-1]
                        caught.add(nm)
                        if nm in ("Exception", "BaseException"):
                            caught |= {"ValueError", "OverflowError"}
                        if nm == "ArithmeticError":
                            caught.add("OverflowError")
            if "ValueError" not in caught and "OverflowError" not in caught:
                continue
            ntry += 1
            site = eng.where(fi, convs[0])
            if "ValueError" in caught and "OverflowError" not in caught:
                rep.bad(rule, site, "%s|handler-misses-infinity|%s" % (fid, short(convs[0].func, 10)),
                        "`%s` is guarded against a NaN quotient (except ValueError) but not against an infinite one: a zero denominator gives inf and OverflowError escapes from solve"
                        % short(convs[0], 60))
            elif "OverflowError" in caught and "ValueError" not in caught:
                rep.bad(rule, site, "%s|handler-misses-nan|%s" % (fid, short(convs[0].func, 10)),
                        "`%s` is guarded against an infinite quotient (except OverflowError) but not against NaN (ValueError)" % short(convs[0], 60))
            else:
                rep.ok(rule, site, "`%s`: both NaN (ValueError) and infinity (OverflowError) are handled" % short(convs[0], 50))
    rep.require_count(rule, "guarded float-to-int conversions of a quotient", ntry, 1)


# --------------------------------------------------------------------------------------------- C07-17
def rule_main_loop_cycles_make_progress(eng, rep, rule="C07-17.every-cycle-of-the-main-loop-passes-a-progress-site"):
    """solve returns only if the main loop of solve_main ends.  Its ranking argument is lexicographic: evaluations are bounded by maxfun, rho strictly decreases whenever it is
    reduced (C18-9) and is bounded below by rhoend, restarts are bounded by the budget.  The structural premise decided here: no path from the head of the loop back to the head
    avoids all *progress sites* -- a call that reaches the objective (an evaluation), a call of reduce_rho, or a restart.  A new `continue` in front of them, or a branch
    that only logs and loops, would be such a path.  (That a progress site does make progress -- strictness, the budget test -- is C18-9 / C02-1.)"""
    from .anchors import anchors
    A = anchors(eng)
    sm = A.solve_main
    cfg = eng.cfg(sm)
    whiles = [(h, st) for (h, kind, st) in cfg.loops if kind == "while"]
    if len(whiles) != 1 or A.sink is None:
        rep.unknown(rule, eng.where(sm), "expected one main loop in solve_main (found %d) and one evaluation sink" % len(whiles))
        return
    h, wst = whiles[0]
    body = cfg.loop_nodes(h)
    sink = A.sink.fid
    evaluating = set(fid for fid in eng.prog.functions if sink in eng.res.reachable_from(fid) or fid == sink)
    reducers = {"controller.Controller.reduce_rho"}
    prog = set()
    for n in body:
        a = cfg.ast_of(n)
        if a is None or cfg.kind(n) not in ("stmt", "cond"):
            continue
        for sub in ast.walk(a):
            if isinstance(sub, ast.Call):
                ci = eng.res.calls.get(id(sub))
                if ci is None:
                    continue
                fids = set(t.fid for t in ci.targets)
                if fids & reducers or (fids and fids <= evaluating) or ci.kind == "USER":
                    prog.add(n)
    backs = [a for a in body for m, e in cfg.succ(a, with_exc=False) if m == h]
    if not rep.require_count(rule, "back edges of the main loop", len(backs), 5):
        return
    if not rep.require_count(rule, "progress sites in the main loop", len(prog), 5):
        return
    nbad = 0
    for b in sorted(backs):
        p = cfg.path_avoiding_flag_aware(h, b, prog) if b not in prog else None
        site = eng.where(sm, cfg.ast_of(b)) if cfg.ast_of(b) is not None else eng.where(sm)
        if p is None:
            rep.ok(rule, site, "every path from the loop head to this back edge passes an evaluation, reduce_rho or a restart")
        else:
            nbad += 1
            rep.bad(rule, site, "solver.solve_main|cycle-without-progress|L%s" % getattr(cfg.ast_of(b), "lineno", "?"),
                    "the main loop can go round through this back edge without evaluating the objective, reducing rho or restarting: nothing bounds the number of such rounds",
                    path=cfg.describe_path(p))


# --------------------------------------------------------------------------------------------- C07-18
def rule_while_loops_are_bounded(eng, rep, rule="C07-18.every-while-loop-has-a-counter-that-ends-it"):
    """Every `while` reachable from solve, other than the main loop (C07-17) and the hard-restart loop (budget conjunct, below), must be ended by a counter on its own:
    a conjunct `v < E` / `v <= E` of the loop test whose false edge leaves the loop, with `v` increased by a positive literal on every path through the body
    (must-pass-through), written nowhere else in the loop, and with no name of E written in the loop."""
    from .anchors import anchors
    A = anchors(eng)
    reach = eng.reachable_from_solve()
    nloops = 0
    for fid in sorted(reach):
        fi = eng.prog.functions[fid]
        if fi.is_lambda:
            continue
        cfg = None
        for node in eng.prog.own_nodes(fi):
            if not isinstance(node, ast.While):
                continue
            cfg = cfg or eng.cfg(fi)
            heads = [h for (h, kind, st) in cfg.loops if st is node]
            if not heads:
                continue
            h = heads[0]
            nloops += 1
            site = eng.where(fi, node)
            if fi.fid == A.solve_main.fid and isinstance(node.test, ast.Constant):
                rep.ok(rule, site, "the main loop: decided by C07-17", nontrivial=False)
                continue
            inside = cfg.loop_nodes(h)
            written = {}
            for n in inside:
                if n == h:
                    continue
                strong, weak = cfg.defs_of(n)
                for v in strong | weak:
                    written.setdefault(v, []).append(n)
            verdict = None
            for cn in cfg.nodes_of_kind("cond"):
                if cfg.stmt_of(cn) is not node:
                    continue
                if not [m for m, e in cfg.succ(cn) if e["label"] is False and m not in inside]:
                    continue          # not a conjunct that can end the loop on its own
                at = atom_of(cfg.ast_of(cn), True)
                if at.op not in ("lt", "le") or not isinstance(at.lhs, ast.Name):
                    continue
                v = at.lhs.id
                bound_names = set(x.id for x in ast.walk(at.rhs) if isinstance(x, ast.Name))
                if bound_names & set(written):
                    continue
                incs = []
                other = []
                for n in written.get(v, []):
                    st = cfg.ast_of(n)
                    if isinstance(st, ast.AugAssign) and isinstance(st.op, ast.Add) and isinstance(st.target, ast.Name) and (const_value(st.value) or 0) > 0:
                        incs.append(n)
                    else:
                        other.append(n)
                if fi.fid == A.solve.fid and v == "nf" and any(isinstance(cfg.ast_of(n), ast.Assign) and any(t.fid == A.solve_main.fid for t in (eng.res.calls.get(id(cfg.ast_of(n).value)).targets if isinstance(cfg.ast_of(n).value, ast.Call) and eng.res.calls.get(id(cfg.ast_of(n).value)) else [])) for n in other):
                    verdict = ("ok", "the hard-restart loop is bounded by the budget conjunct `%s`: every run evaluates at least once (C02-2) and returns the running count (C02-3)" % repr(at))
                    break
                if other or not incs:
                    continue
                backs = [a for a in inside for m, e in cfg.succ(a, with_exc=False) if m == h]
                if all(b in incs or cfg.path_avoiding(h, b, incs) is None for b in backs):
                    verdict = ("ok", "`%r` ends the loop: `%s` is increased on every path through the body and the bound is not written in the loop" % (at, v))
                    break
            if verdict is None:
                rep.bad(rule, site, "%s|while-without-counter|%s" % (fid, short(node.test, 30)),
                        "`while %s`: no conjunct of the test is a counter that is increased on every path through the body against a bound fixed during the loop" % short(node.test, 60))
            else:
                rep.ok(rule, site, verdict[1])
    rep.require_count(rule, "while loops reachable from solve", nloops, 6)


# --------------------------------------------------------------------------------------------- C07-19
def rule_exit_results_are_tested_before_the_loop_goes_round(eng, rep, rule="C07-19.an-exit-returned-by-a-progress-call-is-tested-before-the-next-iteration"):
    """A call that may evaluate reports 'could not' (budget exhausted, linear algebra failed) through the exit object it returns.  If the main loop went round without
    looking at it, the next iteration would ask again and get the same answer: no progress, no return.  For every statement of the main loop that binds `exit_info`
    from a call: every path from it to the head of the loop (or to the next such binding) passes a test of `exit_info` against None."""
    from .anchors import anchors
    A = anchors(eng)
    sm = A.solve_main
    cfg = eng.cfg(sm)
    whiles = [(h, st) for (h, kind, st) in cfg.loops if kind == "while"]
    if len(whiles) != 1:
        rep.unknown(rule, eng.where(sm), "expected one main loop in solve_main")
        return
    h, _w = whiles[0]
    body = cfg.loop_nodes(h)
    var = "exit_info"
    binds, tests = [], set()
    for n in body:
        a = cfg.ast_of(n)
        if cfg.kind(n) == "stmt" and isinstance(a, ast.Assign) and isinstance(a.value, ast.Call) and var in [x for t in a.targets for x in assigned_names(t)]:
            binds.append(n)
        if cfg.kind(n) == "cond":
            at = atom_of(a, True)
            if at.op in ("is", "isnot") and isinstance(at.lhs, ast.Name) and at.lhs.id == var and is_none(at.rhs):
                tests.add(n)
    if not rep.require_count(rule, "bindings of exit_info from a call in the main loop", len(binds), 8):
        return
    for b in sorted(binds):
        others = [x for x in binds if x != b]
        site = eng.where(sm, cfg.ast_of(b))
        # a path to the loop head, or to another binding, that avoids every test
        p = cfg.path_avoiding(b, h, tests | set(others))
        p2 = None
        for o in others:
            q = cfg.path_avoiding(b, o, tests | set(x for x in others if x != o))
            if q is not None and h not in q:
                p2 = q
                break
        if p is None and p2 is None:
            rep.ok(rule, site, "`%s`: the exit is tested on every path before the loop goes round or exit_info is bound again" % short(cfg.ast_of(b), 50))
        else:
            rep.bad(rule, site, "solver.solve_main|exit-not-tested|%s" % short(cfg.ast_of(b).value.func, 30),
                    "`%s`: the returned exit can be %s without having been tested: an exhausted budget or a failed step is ignored and the loop asks again"
                    % (short(cfg.ast_of(b), 50), "overwritten" if p is None else "carried into the next iteration"), path=cfg.describe_path(p or p2))


def _exit_returning(eng):
    """fid -> set of positions (None = the value itself, i = position i of a returned tuple) at which the function can hand back an ExitInformation object:
    a return of a local that some statement of the function binds to ExitInformation(..) or to such a position of another exit-returning call (fix-point)."""
    out = {}
    fns = [f for f in eng.prog.functions.values() if not f.is_lambda and f.module in ("controller", "solver")]

    def binds_exit(fi, name):
        for node in eng.prog.own_nodes(fi):
            if not isinstance(node, ast.Assign):
                continue
            for t in node.targets:
                if isinstance(t, ast.Name) and t.id == name:
                    v = node.value
                    if isinstance(v, ast.Call):
                        ci = eng.res.calls.get(id(v))
                        if ci is not None and any(tt.cls == "ExitInformation" for tt in ci.targets if ci.kind == "CTOR"):
                            return True
                        if ci is not None and any(None in out.get(tt.fid, ()) for tt in ci.targets):
                            return True
                elif isinstance(t, (ast.Tuple, ast.List)) and isinstance(node.value, ast.Call):
                    ci = eng.res.calls.get(id(node.value))
                    for i, el in enumerate(t.elts):
                        if isinstance(el, ast.Name) and el.id == name and ci is not None and any(i in out.get(tt.fid, ()) for tt in ci.targets):
                            return True
        return False

    changed = True
    while changed:
        changed = False
        for fi in fns:
            cur = set(out.get(fi.fid, ()))
            for node in eng.prog.own_nodes(fi):
                if not isinstance(node, ast.Return) or node.value is None:
                    continue
                v = node.value
                if isinstance(v, ast.Name) and binds_exit(fi, v.id):
                    cur.add(None)
                elif isinstance(v, ast.Call):
                    ci = eng.res.calls.get(id(v))
                    if ci is not None and (any(tt.cls == "ExitInformation" for tt in ci.targets if ci.kind == "CTOR") or any(None in out.get(tt.fid, ()) for tt in ci.targets)):
                        cur.add(None)
                elif isinstance(v, ast.Tuple):
                    for i, el in enumerate(v.elts):
                        if isinstance(el, ast.Name) and binds_exit(fi, el.id):
                            cur.add(i)
            if cur != set(out.get(fi.fid, ())):
                out[fi.fid] = cur
                changed = True
    return out


def rule_exits_are_handed_on_by_controller_methods(eng, rep, rule="C07-19b.an-exit-reported-by-a-callee-is-handed-on-to-the-caller"):
    """The Controller methods between the main loop and the objective (geometry_step, soft_restart, the initialisers, move_furthest_points, ..) learn from their callees
    that the budget is exhausted / the objective is small enough / a system was singular through the exit object those return.  A method that binds such an exit and
    then carries on (test inverted, `return None` at the end) makes the main loop believe the step succeeded: the run continues past its exit condition with points
    that were never evaluated.  For every binding of an exit from a call: with the edges on which the exit is None removed, no path from the binding reaches the end of the
    method, another binding of the same variable, or the binding itself again without passing a `return` that hands the exit back."""
    rets_exit = _exit_returning(eng)
    n = 0
    for fi in sorted(eng.prog.functions.values(), key=lambda f: f.fid):
        if fi.is_lambda or fi.cls != "Controller" or not rets_exit.get(fi.fid):
            continue
        cfg = eng.cfg(fi)
        binds = []
        for k, d in cfg.g.nodes(data=True):
            st = d["ast"]
            if d["kind"] != "stmt" or not isinstance(st, ast.Assign) or not isinstance(st.value, ast.Call) or len(st.targets) != 1:
                continue
            ci = eng.res.calls.get(id(st.value))
            if ci is None:
                continue
            t = st.targets[0]
            if isinstance(t, ast.Name) and any(None in rets_exit.get(tt.fid, ()) for tt in ci.targets):
                binds.append((k, t.id))
            elif isinstance(t, (ast.Tuple, ast.List)):
                for i, el in enumerate(t.elts):
                    if isinstance(el, ast.Name) and any(i in rets_exit.get(tt.fid, ()) for tt in ci.targets):
                        binds.append((k, el.id))
        for (b, var) in binds:
            n += 1
            site = eng.where(fi, cfg.ast_of(b))
            def hands_on(k, d, var=var):
                if d["kind"] != "stmt" or not isinstance(d["ast"], ast.Return) or d["ast"].value is None:
                    return False
                v = d["ast"].value
                if var in mentions(v):
                    return True
                # the exit handed on in another form: a fresh ExitInformation(..) returned on this branch (directly or through a local)
                cands = [v]
                if isinstance(v, ast.Name):
                    cands = [cfg.ast_of(x).value for x in cfg.defs_reaching(d["ast"], v.id) if isinstance(cfg.ast_of(x), ast.Assign)]
                return bool(cands) and all(isinstance(c, ast.Call) and eng.res.calls.get(id(c)) is not None and eng.res.calls[id(c)].kind == "CTOR"
                                           and any(tt.cls == "ExitInformation" for tt in eng.res.calls[id(c)].targets) for c in cands)
            handing = set(k for k, d in cfg.g.nodes(data=True) if hands_on(k, d))
            rebinds = set(k for (k, v2) in binds if v2 == var and k != b)

            def edge_ok(a, m, e, var=var):
                if cfg.kind(a) == "cond" and e.get("label") in (True, False):
                    at = atom_of(cfg.ast_of(a), e["label"])
                    if at.op == "is" and isinstance(at.lhs, ast.Name) and at.lhs.id == var and is_none(at.rhs):
                        return False          # on this edge there is no exit to hand on
                    if at.op == "false" and isinstance(at.lhs, ast.Name) and at.lhs.id == var:
                        return False          # `if not exit:` -- an ExitInformation object is truthy, None is not
                return True
            bad = None
            for tgt in [cfg.exit] + sorted(rebinds) + [b]:
                p = cfg.path_avoiding(b, tgt, handing | (rebinds - {tgt}), edge_ok=edge_ok)
                if p is not None and len(p) > 1:
                    bad = (tgt, p)
                    break
            if bad is None:
                rep.ok(rule, site, "`%s`: whenever the exit is not None it is returned to the caller before the method ends or binds `%s` again" % (short(cfg.ast_of(b), 50), var))
            else:
                what = "the end of the method" if bad[0] == cfg.exit else ("the next binding of `%s`" % var)
                rep.bad(rule, site, "%s|exit-not-handed-on|%s" % (fi.fid, short(cfg.ast_of(b).value.func, 30)),
                        "`%s`: with a non-None exit, %s can be reached without returning it: the caller is told the step succeeded although the callee stopped (budget exhausted, "
                        "objective small enough, singular system)" % (short(cfg.ast_of(b), 50), what), path=cfg.describe_path(bad[1])[-8:])
    rep.require_count(rule, "bindings of an exit from a call in Controller methods", n, 6)


def rule_no_exit_is_carried_round_the_main_loop(eng, rep, rule="C07-19c.the-main-loop-never-goes-round-with-an-exit-in-hand"):
    """Once a test has found `exit_info` to be an exit object, the only ways on are `break` (the run ends) or a restart that binds `exit_info` again.  A path from the
    not-None edge of such a test back to the head of the main loop without a new binding (a `continue` for a `break`) throws the exit away: the budget / restart limit
    that produced it is ignored and the run counter has already been stepped."""
    from .anchors import anchors
    A = anchors(eng)
    sm = A.solve_main
    cfg = eng.cfg(sm)
    whiles = [(h, st) for (h, kind, st) in cfg.loops if kind == "while"]
    if len(whiles) != 1:
        rep.unknown(rule, eng.where(sm), "expected one main loop in solve_main")
        return
    h, _w = whiles[0]
    body = cfg.loop_nodes(h)
    var = "exit_info"
    rebinds = set(n for n in body if cfg.kind(n) == "stmt" and isinstance(cfg.ast_of(n), ast.Assign) and var in [x for t in cfg.ast_of(n).targets for x in assigned_names(t)])
    n = 0
    for c in sorted(body):
        if cfg.kind(c) != "cond":
            continue
        for m, e in cfg.succ(c):
            if e.get("label") not in (True, False):
                continue
            at = atom_of(cfg.ast_of(c), e["label"])
            if not (at.op == "isnot" and isinstance(at.lhs, ast.Name) and at.lhs.id == var and is_none(at.rhs)):
                continue
            n += 1
            site = eng.where(sm, cfg.ast_of(c))
            p = [m] if m == h else (cfg.path_avoiding(m, h, rebinds) if m not in rebinds else None)
            if p is None:
                rep.ok(rule, site, "with an exit in hand every path leaves the loop or binds exit_info again before the loop goes round")
            else:
                rep.bad(rule, site, "solver.solve_main|exit-carried-round-the-loop",
                        "after `%s` found an exit, the head of the main loop can be reached again without a new binding of exit_info: the exit is dropped" % short(cfg.ast_of(c), 40),
                        path=cfg.describe_path(p)[-6:])
    rep.require_count(rule, "tests that find an exit in the main loop", n, 8)


# --------------------------------------------------------------------------------------------- C07-20
def rule_orthogonalised_vectors_are_tested_before_normalising(eng, rep, rule="C07-20.a-vector-orthogonalised-against-a-basis-is-tested-before-it-is-normalised"):
    """v := v - (v.q) q for every column q of an orthonormal basis leaves exactly 0 when the basis already spans the space (n = 1 with one direction; a regression set
    npt > n+1 that is still growing once it holds n directions).  scipy.linalg.norm returns a Python float, so `step / norm(v)` then raises ZeroDivisionError out of
    solve.  Every division by the norm of a vector that may come from such a Gram-Schmidt step must lie behind a test of that norm on every path from the step."""
    reach = eng.reachable_from_solve()
    nsite = 0

    def base_name(e):
        while isinstance(e, ast.Subscript):
            e = e.value
        return e.id if isinstance(e, ast.Name) else None

    def is_norm_call(e):
        return isinstance(e, ast.Call) and ekey(e.func).split(".")[-1] == "norm" and e.args

    for fid in sorted(reach):
        fi = eng.prog.functions[fid]
        if fi.is_lambda:
            continue
        gs_defs = {}        # name -> [cfg nodes of Gram-Schmidt steps]
        cfg = None
        for node in eng.prog.own_nodes(fi):
            if isinstance(node, ast.AugAssign) and isinstance(node.op, ast.Sub):
                # `v -= (v.q) q` is the same step as `v = v - (v.q) q`
                t = node.target
                v = ast.BinOp(left=t, op=ast.Sub(), right=node.value)
            elif isinstance(node, ast.Assign) and len(node.targets) == 1 and isinstance(node.value, ast.BinOp) and isinstance(node.value.op, ast.Sub):
                t = node.targets[0]
                v = node.value
            else:
                t = v = None
            if v is not None:
                if ekey(v.left) == ekey(t) and isinstance(v.right, ast.BinOp) and isinstance(v.right.op, ast.Mult):
                    parts = [v.right.left, v.right.right]
                    dots = [p for p in parts if isinstance(p, ast.Call) and ekey(p.func).split(".")[-1] == "dot" and len(p.args) == 2]
                    if dots:
                        other = [p for p in parts if p is not dots[0]][0]
                        if ekey(t) in [ekey(a) for a in dots[0].args] and ekey(other) in [ekey(a) for a in dots[0].args]:
                            cfg = cfg or eng.cfg(fi)
                            gs_defs.setdefault(base_name(t), []).append(cfg.cfg_node(node))
        if not gs_defs:
            continue
        # names that may hold an orthogonalised vector: the targets, and copies of them
        tainted = set(gs_defs)
        for _ in range(3):
            for node in eng.prog.own_nodes(fi):
                if isinstance(node, ast.Assign) and len(node.targets) == 1 and isinstance(node.targets[0], ast.Name):
                    src = node.value
                    if isinstance(src, ast.Call) and isinstance(src.func, ast.Attribute) and src.func.attr == "copy":
                        src = src.func.value
                    if base_name(src) in tainted and isinstance(src, (ast.Name, ast.Subscript)):
                        tainted.add(node.targets[0].id)
        tests = set()
        for n in cfg.nodes_of_kind("cond"):
            for sub in ast.walk(cfg.ast_of(n)):
                if is_norm_call(sub) and base_name(sub.args[0]) in tainted:
                    tests.add(n)
                elif isinstance(sub, ast.Name):
                    # a local defined as norm(tainted)
                    try:
                        for dn in cfg.defs_reaching(cfg.ast_of(n), sub.id):
                            ds = cfg.ast_of(dn)
                            if isinstance(ds, ast.Assign) and is_norm_call(ds.value) and base_name(ds.value.args[0]) in tainted:
                                tests.add(n)
                    except Exception:
                        pass
        for node in eng.prog.own_nodes(fi):
            if not (isinstance(node, ast.BinOp) and isinstance(node.op, ast.Div)):
                continue
            den = node.right
            if isinstance(den, ast.Name):
                try:
                    defs = cfg.defs_reaching(cfg.ast_of(cfg.cfg_node(node)), den.id)
                except Exception:
                    defs = []
                vals = [cfg.ast_of(d).value for d in defs if isinstance(cfg.ast_of(d), ast.Assign)]
                den2 = vals[0] if len(vals) == 1 else None
            else:
                den2 = den
            if not (is_norm_call(den2) and base_name(den2.args[0]) in tainted):
                continue
            nsite += 1
            here = cfg.cfg_node(node)
            site = eng.where(fi, cfg.ast_of(here) if isinstance(cfg.ast_of(here), ast.stmt) else node)
            bad = None
            for nm, dnodes in gs_defs.items():
                for dn in dnodes:
                    p = cfg.path_avoiding(dn, here, tests)
                    if p is not None:
                        bad = (nm, dn, p)
                        break
                if bad:
                    break
            if bad:
                rep.bad(rule, site, "%s|norm-of-orthogonalised-vector-untested|%s" % (fid, bad[0]),
                        "`%s` divides by the norm of `%s`, which `%s` may have reduced to exactly zero (the basis spans the space: n = 1, or a growing regression set that already "
                        "holds n directions): ZeroDivisionError out of solve" % (short(node, 50), bad[0], short(cfg.ast_of(bad[1]), 50)), path=cfg.describe_path(bad[2]))
            else:
                rep.ok(rule, site, "`%s`: every path from the orthogonalisation passes a test of the norm" % short(node, 50))
    rep.require_count(rule, "normalisations of orthogonalised vectors", nsite, 2)


_FMT_CONV = None


def _tuple_kind(eng, fi, cfg, at, e, depth=3):
    """'tuple' | 'plain' | '?' : can the value of expression e (evaluated in statement `at` of fi) be a tuple?  Local reasoning: literals, constructor calls,
    reaching definitions of locals, the return expressions of resolved internal callees (by position for destructured results)."""
    if isinstance(e, ast.Tuple):
        return "tuple"
    if isinstance(e, (ast.Constant, ast.JoinedStr, ast.List, ast.ListComp, ast.Dict, ast.Set, ast.Compare, ast.BoolOp, ast.UnaryOp, ast.DictComp, ast.SetComp, ast.GeneratorExp)):
        return "plain"
    if isinstance(e, ast.BinOp):
        kinds = {_tuple_kind(eng, fi, cfg, at, e.left, depth), _tuple_kind(eng, fi, cfg, at, e.right, depth)}
        if isinstance(e.op, ast.Add) and "tuple" in kinds:
            return "tuple"
        return "plain" if kinds == {"plain"} else "?"
    if isinstance(e, ast.IfExp):
        kinds = {_tuple_kind(eng, fi, cfg, at, e.body, depth), _tuple_kind(eng, fi, cfg, at, e.orelse, depth)}
        return "tuple" if "tuple" in kinds else ("plain" if kinds == {"plain"} else "?")
    if isinstance(e, ast.Call):
        if isinstance(e.func, ast.Name) and e.func.id == "tuple":
            return "tuple"
        if isinstance(e.func, ast.Name) and e.func.id in ("str", "repr", "int", "float", "len", "list", "dict", "bool", "sorted", "sum", "abs", "min", "max", "round"):
            return "plain"
        if depth <= 0:
            return "?"
        kinds = set()
        for r in _internal_returns(eng, e):
            kinds.add(_tuple_kind_in_callee(eng, r, depth - 1))
        if not kinds:
            return "?"
        return "tuple" if "tuple" in kinds else ("plain" if kinds == {"plain"} else "?")
    if isinstance(e, ast.Name) and cfg is not None and depth > 0:
        try:
            defs = cfg.defs_reaching(at, e.id)
        except Exception:
            return "?"
        kinds = set()
        for d in defs:
            st = cfg.ast_of(d)
            kinds.add(_def_kind(eng, fi, cfg, st, e.id, depth - 1))
        if not kinds:
            return "?"
        return "tuple" if "tuple" in kinds else ("plain" if kinds == {"plain"} else "?")
    return "?"


def _internal_returns(eng, call):
    """(callee FunctionInfo, return value expression) pairs of a resolved internal call; [] if unresolved / not internal."""
    ci = eng.res.calls.get(id(call))
    out = []
    if ci is None:
        return out
    for t in ci.targets:
        fn = getattr(t, "node", None)
        if not isinstance(fn, ast.FunctionDef):
            continue
        for n in eng.prog.own_nodes(t):
            if isinstance(n, ast.Return) and n.value is not None:
                out.append((t, n))
    return out


def _tuple_kind_in_callee(eng, tr, depth, position=None):
    t, ret = tr
    try:
        ccfg = eng.cfg(t)
    except Exception:
        ccfg = None
    v = ret.value
    if position is not None:
        if isinstance(v, ast.Tuple):
            if position >= len(v.elts):
                return "?"
            v = v.elts[position]
        else:
            return "?"
    return _tuple_kind(eng, t, ccfg, ret, v, depth)


def _def_kind(eng, fi, cfg, st, name, depth):
    if isinstance(st, ast.Assign) and len(st.targets) == 1:
        tg = st.targets[0]
        if isinstance(tg, ast.Name) and tg.id == name:
            return _tuple_kind(eng, fi, cfg, st, st.value, depth)
        if isinstance(tg, (ast.Tuple, ast.List)):
            pos = [i for i, el in enumerate(tg.elts) if isinstance(el, ast.Name) and el.id == name]
            if len(pos) == 1:
                if isinstance(st.value, ast.Tuple) and len(st.value.elts) == len(tg.elts):
                    return _tuple_kind(eng, fi, cfg, st, st.value.elts[pos[0]], depth)
                if isinstance(st.value, ast.Call) and depth >= 0:
                    kinds = set(_tuple_kind_in_callee(eng, r, depth, position=pos[0]) for r in _internal_returns(eng, st.value))
                    if kinds:
                        return "tuple" if "tuple" in kinds else ("plain" if kinds == {"plain"} else "?")
    return "?"


def rule_format_conformance(eng, rep, rule="C07-21.format-strings-bind-their-arguments"):
    """Every `"literal" % X` of the package (messages of ExitInformation, log lines, __str__): the number of conversions equals the number of arguments handed
    over, and a single conversion is never handed a value that can be a tuple (a tuple is taken as the argument LIST: TypeError for any length but one) --
    decided through reaching definitions and the return expressions of internal callees, so a producer that starts returning a tuple and a consumer that
    drops its str() are seen together."""
    import re
    conv = re.compile(r"%(?:\([^)]*\))?[-+ #0]*(?:\*|\d*)(?:\.(?:\*|\d+))?([a-zA-Z%])")
    n = 0
    for fi in list(eng.prog.functions.values()):
        if fi.module.startswith("tests") or ".tests" in fi.module:
            continue
        nodes = [x for x in eng.prog.own_nodes(fi) if isinstance(x, ast.BinOp) and isinstance(x.op, ast.Mod) and isinstance(x.left, ast.Constant) and isinstance(x.left.value, str)]
        if not nodes:
            continue
        try:
            cfg = eng.cfg(fi)
        except Exception:
            cfg = None
        for node in nodes:
            fmt = node.left.value
            if "%(" in fmt:
                continue        # mapping form: not used for positional arguments
            specs = [m for m in conv.finditer(fmt) if m.group(1) != "%"]
            convs = [m.group(1) for m in specs]
            stars = sum(m.group(0).count("*") for m in specs)
            n += 1
            key = "%s.%s|%s" % (fi.module, fi.qualname, fmt.strip()[:40])
            if isinstance(node.right, ast.Tuple):
                if any(isinstance(el, ast.Starred) for el in node.right.elts):
                    rep.unknown(rule, eng.where(fi, node), "starred element in the argument tuple of %r" % fmt[:40])
                elif len(node.right.elts) != len(convs) + stars:
                    rep.bad(rule, eng.where(fi, node), "format-arity|" + key, "format string %r has %d conversions but is handed %d arguments (TypeError when the line runs)"
                            % (fmt[:50], len(convs) + stars, len(node.right.elts)))
                else:
                    rep.ok(rule, eng.where(fi, node), "%d conversions, %d arguments" % (len(convs), len(node.right.elts)))
                continue
            at = eng.prog.stmt_of(node)
            k = _tuple_kind(eng, fi, cfg, at, node.right) if cfg is not None and not fi.is_lambda else _tuple_kind(eng, fi, None, at, node.right)
            lens = set()
            if k == "tuple" and isinstance(node.right, ast.Name) and cfg is not None:
                # `args = (a, b); "%g %g" % args` is fine: every reaching definition is a tuple literal of the right length
                try:
                    for dn in cfg.defs_reaching(at, node.right.id):
                        ds = cfg.ast_of(dn)
                        lens.add(len(ds.value.elts) if isinstance(ds, ast.Assign) and isinstance(ds.value, ast.Tuple) and not any(isinstance(x, ast.Starred) for x in ds.value.elts) else None)
                except Exception:
                    lens = {None}
            if k == "tuple" and lens and None not in lens and lens == {len(convs) + stars}:
                rep.ok(rule, eng.where(fi, node), "%d conversions, argument tuple of %d built in a local" % (len(convs), len(convs)))
            elif k == "tuple":
                rep.bad(rule, eng.where(fi, node), "tuple-as-argument-list|" + key,
                        "the right operand of %r %% %s can be a tuple: it is taken as the argument list of the format (TypeError unless it has exactly %d element(s))"
                        % (fmt[:50], short(node.right, 40), len(convs) + stars))
            elif len(convs) + stars != 1:
                if k == "plain":
                    rep.bad(rule, eng.where(fi, node), "format-arity|" + key, "format string %r has %d conversions but is handed one non-tuple value" % (fmt[:50], len(convs) + stars))
                else:
                    rep.unknown(rule, eng.where(fi, node), "format %r with %d conversions applied to %s whose shape is not decided" % (fmt[:40], len(convs) + stars, short(node.right, 40)))
            else:
                rep.ok(rule, eng.where(fi, node), "one conversion, operand %s (%s)" % (short(node.right, 40), "never a tuple" if k == "plain" else "no tuple-valued definition reaches it"))
    rep.require_count(rule, "format expressions of the package", n, 20)


def _eval_small(e, env):
    """Evaluate a comparison / boolean expression over names bound in env (ints and None) -- decision-table evaluation of a guard, nothing of the package is run."""
    if isinstance(e, ast.Constant):
        return e.value
    if isinstance(e, ast.Name):
        if e.id not in env:
            raise AnalysisError("name %s outside the table" % e.id)
        return env[e.id]
    if isinstance(e, ast.BoolOp):
        r = None
        for v in e.values:          # short-circuit, as Python evaluates it
            r = _eval_small(v, env)
            if (isinstance(e.op, ast.And) and not r) or (isinstance(e.op, ast.Or) and r):
                return r
        return r
    if isinstance(e, ast.UnaryOp) and isinstance(e.op, ast.Not):
        return not _eval_small(e.operand, env)
    if isinstance(e, ast.Compare):
        left = _eval_small(e.left, env)
        res = True
        for op, c in zip(e.ops, e.comparators):
            right = _eval_small(c, env)
            if isinstance(op, ast.Is):
                r = left is right
            elif isinstance(op, ast.IsNot):
                r = left is not right
            elif left is None or right is None:
                raise TypeError("ordering comparison with None")
            elif isinstance(op, ast.Lt):
                r = left < right
            elif isinstance(op, ast.LtE):
                r = left <= right
            elif isinstance(op, ast.Gt):
                r = left > right
            elif isinstance(op, ast.GtE):
                r = left >= right
            elif isinstance(op, ast.Eq):
                r = left == right
            elif isinstance(op, ast.NotEq):
                r = left != right
            else:
                raise AnalysisError("operator outside the table")
            res = res and r
            left = right
        return res
    raise AnalysisError("expression form outside the table: %s" % ekey(e)[:40])


def rule_range_validators_test_both_ends(eng, rep, rule="C07-5c.range-validators-accept-exactly-lower-le-value-le-upper"):
    """check_integer / check_float (every module-level validator of params with `lower` and `upper` parameters): for a value of the right type the answer is
    (lower is None or value >= lower) and (upper is None or value <= upper).  The returned expression is evaluated over the table value in {0,1,2} x lower in {None,1} x
    upper in {None,1} (18 rows) and compared with that specification: `or` for `and`, a strict comparison, a swapped end all differ in some row.  A weakened validator
    lets an out-of-range user parameter into the run (C07: bad input is reported)."""
    n = 0
    for fi in sorted(eng.prog.functions.values(), key=lambda f: f.fid):
        if fi.cls is not None or fi.is_lambda or not {"lower", "upper", "allow_nonetype"} <= set(fi.all_params):
            continue          # (the validators are recognised by their signature, wherever they live)
        val = fi.posparams[0]
        cfg = eng.cfg(fi)
        # the return reached when the value is not None and of the right type: the last return of the function (else branch of the type chain)
        rets = [x for x in eng.prog.own_nodes(fi) if isinstance(x, ast.Return) and x.value is not None and {"lower", "upper"} & mentions(x.value)]
        if len(rets) == 1 and isinstance(rets[0].value, ast.Call) and eng.res.calls.get(id(rets[0].value)) is not None \
                and any({"lower", "upper", "allow_nonetype"} <= set(t.all_params) for t in eng.res.calls[id(rets[0].value)].targets):
            continue          # a wrapper that hands lower / upper on to another validator, which is judged itself
        n += 1
        site = eng.where(fi)
        if len(rets) != 1:
            rep.unknown(rule, site, "expected one return that compares the value with lower / upper, found %d" % len(rets))
            continue
        e = rets[0].value
        bad = None
        try:
            for v in (0, 1, 2):
                for lo in (None, 1):
                    for up in (None, 1):
                        want = (lo is None or v >= lo) and (up is None or v <= up)
                        try:
                            got = bool(_eval_small(e, {val: v, "lower": lo, "upper": up}))
                        except TypeError:
                            got = "a TypeError (comparison with None)"
                        if got != want and bad is None:
                            bad = (v, lo, up, got, want)
        except AnalysisError as ex:
            rep.unknown(rule, site, "range expression `%s` not evaluable over the table: %s" % (short(e), ex))
            continue
        if bad is None:
            rep.ok(rule, site, "`%s` equals (lower is None or v >= lower) and (upper is None or v <= upper) on all 12 rows" % short(e, 60))
        else:
            rep.bad(rule, eng.where(fi, rets[0]), "%s|range-test-wrong" % fi.fid,
                    "`%s` answers %s for value=%s, lower=%s, upper=%s (must be %s): an out-of-range parameter is accepted / a valid one refused" % (short(e, 60), bad[3], bad[0], bad[1], bad[2], bad[4]))
    rep.require_count(rule, "range validators", n, 1)


def rule_check_all_params_reports_every_failure(eng, rep, rule="C07-5d.every-parameter-that-fails-its-check-is-reported"):
    """ParameterList.check_all_params: inside the loop over the stored parameters the false edge of `check_param(key, ..)` appends the loop's key to a list, and the
    method returns (that list is empty, that list).  Dropping the append (or returning a constant flag) accepts every bad value silently."""
    fi = eng.fn("params.ParameterList.check_all_params")
    cfg = eng.cfg(fi)
    site = eng.where(fi)
    loops = [x for x in eng.prog.own_nodes(fi) if isinstance(x, ast.For) and isinstance(x.target, ast.Name)]
    found = None
    for lp in loops:
        key = lp.target.id
        for node in [y for st in lp.body for y in ast.walk(st)]:
            if isinstance(node, ast.Call) and isinstance(node.func, ast.Attribute) and node.func.attr == "append" and len(node.args) == 1 and ekey(node.args[0]) == key \
                    and isinstance(node.func.value, ast.Name):
                gs = [a for (_b, a) in guards_of(cfg, cfg.cfg_node(node))]
                if any(a.op == "false" and isinstance(a.lhs, ast.Call) and ekey(a.lhs.func).endswith("check_param") and a.lhs.args and ekey(a.lhs.args[0]) == key for a in gs):
                    found = node.func.value.id
    if found is None:
        # comprehension form: L = [key for key.. in .. if not self.check_param(key, ..)]
        for node in eng.prog.own_nodes(fi):
            if isinstance(node, ast.Assign) and len(node.targets) == 1 and isinstance(node.targets[0], ast.Name) and isinstance(node.value, ast.ListComp) \
                    and len(node.value.generators) == 1 and isinstance(node.value.elt, ast.Name):
                g = node.value.generators[0]
                key = node.value.elt.id
                if key in assigned_names(g.target) and any(isinstance(c, ast.UnaryOp) and isinstance(c.op, ast.Not) and isinstance(c.operand, ast.Call)
                                                           and ekey(c.operand.func).endswith("check_param") and c.operand.args and ekey(c.operand.args[0]) == key for c in g.ifs) \
                        and len(g.ifs) == 1:
                    found = node.targets[0].id
    if found is None:
        rep.bad(rule, site, "params.ParameterList.check_all_params|failing-key-not-recorded",
                "no statement appends the key of a parameter whose check_param(..) is false to the list of bad keys: every bad value is accepted")
        return
    rets = [x for x in eng.prog.own_nodes(fi) if isinstance(x, ast.Return) and x.value is not None]
    okc = bool(rets)
    for r in rets:
        v = r.value
        if not (isinstance(v, ast.Tuple) and len(v.elts) == 2):
            okc = False
            continue
        flag, lst = v.elts
        from .common import expand_locals
        flag = expand_locals(cfg, r, flag, depth=1) if isinstance(flag, ast.Name) else flag          # `all_ok = len(bad_keys) == 0; return all_ok, bad_keys`
        flag_ok = (isinstance(flag, ast.Compare) and len(flag.ops) == 1 and isinstance(flag.ops[0], ast.Eq) and ekey(flag.left) == "len(%s)" % found and const_value(flag.comparators[0]) == 0) \
            or (isinstance(flag, ast.UnaryOp) and isinstance(flag.op, ast.Not) and ekey(flag.operand) == found)
        lst_ok = found in mentions(lst)
        if not (flag_ok and lst_ok):
            okc = False
    if okc:
        rep.ok(rule, site, "every key whose check fails is appended to `%s`; the method returns (`%s` is empty, `%s`)" % (found, found, found))
    else:
        rep.bad(rule, site, "params.ParameterList.check_all_params|result-not-derived-from-the-failures", "the returned (all_ok, bad_keys) pair is not (len(%s) == 0, %s)" % (found, found))


def rule_instance_attributes_are_initialised(eng, rep, rule="C07-22.every-instance-attribute-that-is-read-is-set-by-the-constructor"):
    """An attribute read through `self` in any method of a package class is assigned by that class's __init__ on every path to its normal end (the package has no
    other place that creates attributes: zero exceptions on the pinned tree).  A counter or slot whose initialisation is dropped or made conditional surfaces as an
    AttributeError out of solve on the first path that reads it before a later method happens to set it (e.g. `last_successful_run` in soft_restart)."""
    n = 0
    for cname, cls in sorted(eng.prog.classes.items()):
        init = None
        for m in cls.methods.values():
            if m.qualname.endswith(".__init__"):
                init = m
        if init is None:
            continue
        sn = init.posparams[0]
        cfg = eng.cfg(init)
        stores = {}
        for k, d in cfg.g.nodes(data=True):
            st = d["ast"]
            if d["kind"] != "stmt" or st is None:
                continue
            tg = st.targets if isinstance(st, ast.Assign) else ([st.target] if isinstance(st, (ast.AugAssign, ast.AnnAssign)) else [])
            for t in tg:
                for el in (t.elts if isinstance(t, (ast.Tuple, ast.List)) else [t]):
                    if isinstance(el, ast.Attribute) and isinstance(el.value, ast.Name) and el.value.id == sn:
                        stores.setdefault(el.attr, set()).add(k)
        # a helper method called from the constructor (`self._reset_counters()`) assigns what its effect summary says it can write
        from .common import field_write_summaries
        summ = field_write_summaries(eng)
        for ci in eng.calls_in(init):
            if isinstance(ci.node.func, ast.Attribute) and isinstance(ci.node.func.value, ast.Name) and ci.node.func.value.id == sn:
                for t in ci.targets:
                    if t.cls == cname:
                        for a in summ.get(t.fid, ()):
                            try:
                                stores.setdefault(a, set()).add(cfg.cfg_node(ci.node))
                            except Exception:
                                pass
        method_names = set(m.qualname.split(".")[-1] for m in cls.methods.values())
        class_level = set()
        for st in cls.node.body if hasattr(cls, "node") else []:
            if isinstance(st, ast.Assign):
                for t in st.targets:
                    if isinstance(t, ast.Name):
                        class_level.add(t.id)
        read = {}
        for m in cls.methods.values():
            s2 = m.posparams[0] if m.posparams else None
            for node in eng.prog.own_nodes(m):
                if isinstance(node, ast.Attribute) and isinstance(node.ctx, ast.Load) and isinstance(node.value, ast.Name) and node.value.id == s2:
                    read.setdefault(node.attr, (m, node))
        for a, (m, node) in sorted(read.items()):
            if a in method_names or a in class_level or (a.startswith("__") and a.endswith("__")):
                continue
            n += 1
            site = "dfols/%s.py:%s.%s" % (init.module, cname, a)
            if a not in stores:
                rep.bad(rule, site, "%s|attribute-never-initialised|%s" % (cname, a),
                        "`self.%s` is read in %s but %s.__init__ never assigns it: AttributeError on the first path that reads it before another method sets it" % (a, m.qualname, cname))
                continue
            p = cfg.path_avoiding(cfg.entry, cfg.exit, stores[a])
            if p is not None:
                rep.bad(rule, site, "%s|attribute-initialised-on-some-paths-only|%s" % (cname, a),
                        "`self.%s` (read in %s) is assigned by %s.__init__ on some paths only" % (a, m.qualname, cname), path=cfg.describe_path(p)[-6:])
            else:
                rep.ok(rule, site, "assigned on every path through %s.__init__" % cname, nontrivial=False)
    rep.require_count(rule, "instance attributes read through self", n, 60)


def run(eng, rep):
    rep.explain("C07: call conformance of every resolved internal call (T10); shape of the graceful input-error path in solve (T2); "
                "guard present for each documented invalid-argument class (frozen table, matched on normalised conditions); "
                "exit-code registry and parameter registry agreement code<->code<->docs (T9); unknown key => ValueError (T2); "
                "inventory of explicit raises reachable from solve (T1); exit_info non-None at every run exit (T3).")
    rep.explain("Also decided: definite assignment of every local read in functions reachable from solve, aware of the first-iteration idiom `if i == start:` (C07-11, frozen exceptions with their premises re-checked); the package's own parameter updates are guarded so that they cannot be second updates (truth-table entailment for flags, C07-10); type validators test the value they were given (C07-5b); the restart geometry loop stays inside its list (sibling consistency, C07-12); the asserted precondition of the coordinate initialiser is established by solve for the npt of every run (C07-13); single-parameter thresholds and option-vs-argument contradictions validated in solve (C07-3 rows).")
    rep.explain("Also decided (round 4): no Python-typed division by a root / modulus of data or by a parameter whose range includes zero (C07-14); no assert on an argument in solve (C07-15); "
                "handlers around float-to-int conversions of quotients cover NaN and infinity (C07-16); every cycle of the main loop passes an evaluation, reduce_rho or a restart (C07-17).")
    rep.not_decided += ["absence of implicit exceptions raised inside NumPy/SciPy calls for every documented input",
                        "termination of the main loop beyond its structural premises (C07-17 every cycle passes a progress site, C18-9 rho strictly decreases, C02-1 budget, C18-5): "
                        "that a callee which can evaluate always does is not decided"]
    rep.guarded(rule_call_conformance, eng, rep)
    rep.guarded(rule_names_resolve, eng, rep)
    ctx = rule_graceful(eng, rep)
    rep.guarded(rule_invalid_arg_guards, eng, rep, ctx)
    rep.guarded(rule_exit_registry, eng, rep)
    rep.guarded(rule_param_registry, eng, rep)
    rep.guarded(rule_unknown_key, eng, rep)
    rep.guarded(rule_raises, eng, rep)
    rep.guarded(rule_exit_info_nonnull, eng, rep)
    rep.guarded(rule_validators_test_the_value_itself, eng, rep)
    rep.guarded(rule_range_validators_test_both_ends, eng, rep)
    rep.guarded(rule_check_all_params_reports_every_failure, eng, rep)
    rep.guarded(rule_restart_geometry_loop_in_range, eng, rep)
    rep.guarded(rule_coordinate_precondition_established, eng, rep)
    rep.guarded(rule_shapes_validated_before_arithmetic, eng, rep)
    rep.guarded(rule_gap_row_in_the_coordinates_of_rhobeg, eng, rep)
    rep.guarded(rule_internal_param_updates, eng, rep)
    rep.guarded(rule_definite_assignment, eng, rep)
    rep.guarded(rule_no_python_division_by_a_vanishing_root, eng, rep)
    rep.guarded(rule_solve_does_not_assert_on_its_arguments, eng, rep)
    rep.guarded(rule_float_to_int_handlers_are_two_sided, eng, rep)
    rep.guarded(rule_main_loop_cycles_make_progress, eng, rep)
    rep.guarded(rule_while_loops_are_bounded, eng, rep)
    rep.guarded(rule_exit_results_are_tested_before_the_loop_goes_round, eng, rep)
    rep.guarded(rule_exits_are_handed_on_by_controller_methods, eng, rep)
    rep.guarded(rule_no_exit_is_carried_round_the_main_loop, eng, rep)
    rep.guarded(rule_orthogonalised_vectors_are_tested_before_normalising, eng, rep)
    rep.guarded(rule_format_conformance, eng, rep)
    rep.guarded(rule_instance_attributes_are_initialised, eng, rep)
    from . import c20
    c20.rule_str_never_formats_none(eng, rep, rule="C07-8.printing")
