"""Evaluation sites and record consumers (shared by C03-3, C04-1, C08).

An *evaluation site* is a call of Controller.evaluate_objective; its result (rvec_list, obj_list, num_samples_run, exit_info)
is either unpacked directly or parked in a list and unpacked later.  A *consumer* is a call that stores an evaluated
record in the model: Model.change_point / add_new_point / save_point.
"""
import ast

from ..loader import AnalysisError, ekey
from ..resolve import bind_call
from .common import assigned_names, mentions

CONSUMERS = ("model.Model.change_point", "model.Model.add_new_point", "model.Model.save_point")
EVAL = "controller.Controller.evaluate_objective"


class EvalSite(object):
    def __init__(self, fi, cfg, call):
        self.fi, self.cfg, self.call = fi, cfg, call
        self.node = cfg.cfg_node(call)
        self.mode = None          # 'direct' | 'list'
        self.unpacks = []         # [(cfg node, [names by position])]
        self.listvar = None
        self.extra_exprs = []     # values captured with a parked result: L.append(evaluate(..) + (self.nx,))
        self.extra_names = {}     # unpack node -> names that receive them
        self.x_expr = call.args[0] if call.args else None


def result_positions(eng):
    """Names of the positions of evaluate_objective's return tuple, derived from its return statement."""
    fi = eng.fn(EVAL)
    pos = None
    for node in eng.prog.own_nodes(fi):
        if isinstance(node, ast.Return) and isinstance(node.value, ast.Tuple):
            names = [e.id if isinstance(e, ast.Name) else None for e in node.value.elts]
            if pos is not None and pos != names:
                raise AnalysisError("evaluate_objective returns differently shaped tuples")
            pos = names
    if pos is None or len(pos) < 4:
        raise AnalysisError("cannot read the return tuple of evaluate_objective")
    return pos


def eval_sites(eng):
    out = []
    for ci in eng.calls_to(EVAL):
        fi = ci.caller
        cfg = eng.cfg(fi)
        es = EvalSite(fi, cfg, ci.node)
        parent = eng.prog.parent.get(id(ci.node))
        if isinstance(parent, ast.Assign) and parent.value is ci.node and isinstance(parent.targets[0], (ast.Tuple, ast.List)):
            es.mode = "direct"
            es.unpacks.append((cfg.cfg_node(parent), assigned_names(parent.targets[0])))
        else:
            # parked for later: L.append(evaluate(..))  or, with values captured in the same statement,  L.append(evaluate(..) + (self.nx, ...))
            app, extra = parent, []
            if isinstance(parent, ast.BinOp) and isinstance(parent.op, ast.Add) and parent.left is ci.node and isinstance(parent.right, ast.Tuple):
                extra = list(parent.right.elts)
                app = eng.prog.parent.get(id(parent))
            if isinstance(app, ast.Call) and isinstance(app.func, ast.Attribute) and app.func.attr == "append" and isinstance(app.func.value, ast.Name):
                es.mode = "list"
                es.listvar = app.func.value.id
                es.extra_exprs = extra
                npos = len(result_positions(eng))
                for n, d in cfg.g.nodes(data=True):
                    st = d["ast"]
                    if d["kind"] == "stmt" and isinstance(st, ast.Assign) and isinstance(st.targets[0], (ast.Tuple, ast.List)) \
                            and isinstance(st.value, ast.Subscript) and isinstance(st.value.value, ast.Name) and st.value.value.id == es.listvar:
                        names = assigned_names(st.targets[0])
                        if extra and len(names) == npos + len(extra):
                            es.extra_names[n] = names[npos:]        # the captured values, by position
                            names = names[:npos]
                        es.unpacks.append((n, names))
            else:
                es.mode = "other"
        out.append(es)
    return out


class Consumer(object):
    def __init__(self, fi, cfg, call, target, binding):
        self.fi, self.cfg, self.call, self.target, self.b = fi, cfg, call, target, binding
        self.node = cfg.cfg_node(call)

    def arg(self, pname):
        e = self.b.params.get(pname)
        if e is None or isinstance(e, tuple):
            return None
        # an explaining local for a row of a buffer (`first_sample = rvec_list[0, :]`) is looked through: one reaching definition, a plain subscript
        if isinstance(e, ast.Name):
            try:
                defs = self.cfg.defs_reaching(self.call, e.id)
            except Exception:
                defs = []
            if len(defs) == 1:
                ds = self.cfg.ast_of(defs[0])
                if isinstance(ds, ast.Assign) and len(ds.targets) == 1 and isinstance(ds.targets[0], ast.Name) and isinstance(ds.value, ast.Subscript) \
                        and isinstance(ds.value.value, ast.Name) and isinstance(ds.value.slice, ast.Tuple) and ds.value.slice.elts \
                        and isinstance(ds.value.slice.elts[0], ast.Constant):
                    return ds.value             # (a constant row of a two-dimensional buffer only: `knew = order[i]` stays the name it is)
        return e


class WrappedConsumer(Consumer):
    """A call of an internal helper W whose body hands (expressions over) its own parameters to a record consumer -- seen from the call site.
    arg(p) is the helper's argument expression with W's parameters replaced by the call-site arguments (the call-site nodes themselves, so that
    reaching definitions in the caller keep working); inner_arg(p) is the expression inside W (for value-flow look-ups)."""
    def __init__(self, fi, cfg, call, target, inner, wrapper, mapping):
        self.fi, self.cfg, self.call, self.target = fi, cfg, call, target
        self.b = inner.b
        self.node = cfg.cfg_node(call)
        self.inner, self.wrapper, self.mapping = inner, wrapper, mapping

    def arg(self, pname):
        from .common import rebuild
        e = self.inner.arg(pname)
        if e is None:
            return None
        m = self.mapping
        return rebuild(e, lambda n: m.get(n.id) if isinstance(n, ast.Name) and isinstance(n.ctx, ast.Load) else None)

    def inner_arg(self, pname):
        return self.inner.arg(pname)


def _free_names(e):
    return set(s.id for s in ast.walk(e) if isinstance(s, ast.Name) and isinstance(s.ctx, ast.Load))


def forwards_own_parameters(c, allow=("np", "numpy")):
    """Every record argument of this consumer call is an expression over the enclosing function's own parameters (self.nx for the point number)."""
    ps = set(c.fi.all_params)
    for p in ("x", "rvec", "nsamples", "eval_num"):
        a = c.arg(p)
        if a is None:
            continue
        if p == "eval_num" and ekey(a).endswith(".nx"):
            continue
        if not (_free_names(a) - set(allow)) <= ps or not (_free_names(a) & ps):
            return False
    return True


def wrapper_must_consume(eng, W, inner):
    """Inside the helper, every path from the entry to a normal exit passes a consumer call (one of `inner`: a consumer or a list of them) -- except through
    `nsamples-parameter <= 0` (nothing was evaluated) or isnan(residual parameter) (the value cannot be the best point)."""
    from ..norm import atom_of, const_value
    from ..dataflow import Flow
    cfg = eng.cfg(W)
    inners = list(inner) if isinstance(inner, (list, tuple)) else [inner]
    nodes = set(c.node for c in inners)
    nsp = None
    rvn = set()
    for c in inners:
        a = c.arg("nsamples")
        if nsp is None and isinstance(a, ast.Name) and a.id in W.all_params:
            nsp = a.id
        if c.arg("rvec") is not None:
            rvn |= _free_names(c.arg("rvec")) & set(W.all_params)
    if nsp is None:
        # the count may only appear as a slice bound / loop limit: `rvec_list[:num_samples_run]`, `range(1, num_samples_run)`
        for c in inners:
            for p in ("rvec",):
                a = c.arg(p)
                for sub in ast.walk(a) if a is not None else []:
                    if isinstance(sub, ast.Slice) and isinstance(sub.upper, ast.Name) and sub.upper.id in W.all_params:
                        nsp = sub.upper.id

    def node_fn(n, s):
        return ["-"] if n in nodes else [s]

    def edge_fn(a, b, e, s):
        if s == "P" and cfg.kind(a) == "cond" and e["label"] in (True, False):
            at = atom_of(cfg.ast_of(a), e["label"])
            if nsp and at.op == "le" and ekey(at.lhs) == nsp and const_value(at.rhs) == 0:
                return "-"
            if nsp and at.op == "lt" and ekey(at.lhs) == nsp and const_value(at.rhs) == 1:
                return "-"
            if at.op == "truth" and "isnan" in ekey(at.lhs) and (rvn & _free_names(at.lhs)):
                return "-"
        return s

    fl = Flow(cfg, "P", node_fn, edge_fn)
    return "P" not in set(fl.states(cfg.exit))


def wrapper_inner_consumers(eng, W):
    """The record consumers inside helper W if W is a pure forwarding helper: all of them store (expressions over) W's own parameters and together they lie on
    every path through W (up to the 'nothing evaluated' / NaN exemptions).  [] otherwise."""
    cs = [c for c in consumers_in(eng, W, wrappers=False)]
    if not cs or not all(forwards_own_parameters(c) for c in cs):
        return []
    if not any(c.arg("x") is not None or c.arg("rvec") is not None for c in cs):
        return []
    if not wrapper_must_consume(eng, W, cs):
        return []
    return cs


def wrapper_consumers(eng, fi):
    cfg = eng.cfg(fi)
    out = []
    for ci in eng.calls_in(fi):
        tg = eng.res.call_targets(fi, ci.node)
        if len(tg) != 1:
            continue
        W, bound = tg[0]
        if W.fid in CONSUMERS or W.fid == EVAL or W.is_lambda or W.fid == fi.fid:
            continue
        inner = wrapper_inner_consumers(eng, W)
        if not inner:
            continue
        b = bind_call(ci.node, W, bound and W.is_method)
        if b.errors or b.star is not None or b.kwstar is not None:
            continue
        mapping = {}
        pos = list(W.posparams)
        if bound and W.is_method and pos and isinstance(ci.node.func, ast.Attribute):
            mapping[pos[0]] = ci.node.func.value
        okm = True
        for pn in W.all_params:
            if pn in mapping:
                continue
            e = b.params.get(pn)
            if e is None or isinstance(e, tuple):
                e = W.defaults.get(pn)
            if e is None:
                okm = False
                break
            mapping[pn] = e
        if okm:
            for ic in inner:
                out.append(WrappedConsumer(fi, cfg, ci.node, ic.target, ic, W, mapping))
    return out


def consumers_in(eng, fi, wrappers=True):
    cfg = eng.cfg(fi)
    out = []
    for ci in eng.calls_in(fi):
        for (t, bound) in eng.res.call_targets(fi, ci.node):
            if t.fid in CONSUMERS:
                out.append(Consumer(fi, cfg, ci.node, t, bind_call(ci.node, t, bound and t.is_method)))
    if wrappers:
        out += wrapper_consumers(eng, fi)
    return out


def all_consumers(eng):
    out = []
    for fid in CONSUMERS:
        for ci in eng.calls_to(fid):
            t = eng.fn(fid)
            bound = any(b for (tt, b) in eng.res.call_targets(ci.caller, ci.node) if tt.fid == fid)
            out.append(Consumer(ci.caller, eng.cfg(ci.caller), ci.node, t, bind_call(ci.node, t, bound and t.is_method)))
    for fi in list(eng.prog.functions.values()):
        if not fi.is_lambda:
            out += wrapper_consumers(eng, fi)
    return out


# ------------------------------------------------------------------------------------------------ shared rules
def inplace_written_fields(eng, cls="Model"):
    """Fields of `cls` that have in-place element writers (self.F[...] = v / self.F[...] op= v)."""
    out = {}
    ci = eng.prog.cls(cls)
    for m in ci.methods.values():
        selfn = m.posparams[0] if m.posparams else None
        for node in eng.prog.own_nodes(m):
            tg = node.targets if isinstance(node, ast.Assign) else ([node.target] if isinstance(node, ast.AugAssign) else [])
            for t in tg:
                if isinstance(t, ast.Subscript):
                    root = t
                    while isinstance(root, ast.Subscript):
                        root = root.value
                    if isinstance(root, ast.Attribute) and isinstance(root.value, ast.Name) and root.value.id == selfn:
                        out.setdefault(root.attr, set()).add(m.qualname)
    return out


def rule_snapshots_are_copies(eng, rep, rule, sinks, what):
    """T11: no value reaching `sinks` may be a view/alias of a Model array that has in-place writers (every flow must pass a copy)."""
    vfg = eng.vfg
    writers = inplace_written_fields(eng)
    srcs = set(("f", "Model", f) for f in writers)

    def follow(src, kind, info, dst):
        if kind not in ("copy", "sel", "proj", "tup", "default", "index"):
            return False
        if isinstance(info, str) and info.startswith("via"):
            # .copy() / np.array() / np.copy() / astype(): a fresh object;  np.asarray & co. hand back their argument when it already is an array of the right dtype
            return info in ("via numpy.asarray", "via numpy.asfarray", "via numpy.ascontiguousarray", "via numpy.atleast_1d", "via numpy.asanyarray")
        return True

    w = vfg.back(sinks, follow, stop=lambda n: n in srcs)
    hit = [n for n in srcs if n in w.nodes]
    for n in sorted(hit):
        path = w.path(n)
        # the construct to blame: the last expression on the path before the live array
        where = path[-2] if len(path) >= 2 else vfg.describe(n)
        rep.bad(rule, where.split("   <-")[0], "alias|%s->%s" % ("%s.%s" % (n[1], n[2]), what),
                "%s can be a view of %s.%s, which is updated in place by %s: later updates silently change the snapshot"
                % (what, n[1], n[2], sorted(writers[n[2]])), path=path[-10:])
    if not hit:
        rep.ok(rule, what, "no copy-free path from an in-place-updated Model array (%s) to %s" % (", ".join(sorted(writers)), what))
    # matcher alive: with copies allowed the live arrays must be reachable from the sinks
    w2 = vfg.back(sinks, lambda a, k, i, d: k in ("copy", "sel", "proj", "tup", "default", "index"))
    if not any(n in w2.nodes for n in srcs):
        rep.unknown(rule, what, "the snapshot does not originate from any live Model array at all -- anchor lost")


def rule_eval_results_are_fresh(eng, rep, rule):
    """T11: the buffers evaluate_objective returns are allocated by that very call.  Callers park results (the parallel initialisers keep a list of them) and read
    them after further evaluations; a persistent workspace handed out again would make every parked result alias the last evaluation."""
    fi = eng.fn(EVAL)
    cfg = eng.cfg(fi)
    pos = result_positions(eng)
    n = 0
    for node, d in cfg.g.nodes(data=True):
        st = d["ast"]
        if d["kind"] != "stmt" or not isinstance(st, ast.Return) or not isinstance(st.value, ast.Tuple):
            continue
        for i in (0, 1):
            e = st.value.elts[i]
            if not isinstance(e, ast.Name):
                rep.unknown(rule, eng.where(fi, st), "returned buffer `%s` is not a local" % ekey(e))
                continue
            n += 1
            bad = None
            for dn in cfg.defs_reaching(e, e.id):
                ds = cfg.ast_of(dn)
                fresh = isinstance(ds, ast.Assign) and isinstance(ds.value, ast.Call) and ekey(ds.value.func).split(".")[-1] in ("zeros", "empty", "ones", "full", "zeros_like", "empty_like", "copy", "array")
                weak = isinstance(ds, ast.Assign) and isinstance(ds.targets[0], (ast.Subscript, ast.Tuple))       # element stores into the buffer
                if not (fresh or weak):
                    bad = ds
            if bad is None:
                rep.ok(rule, eng.where(fi, st), "`%s` is allocated by this call on every path" % e.id)
            else:
                rep.bad(rule, eng.where(fi, bad) if bad is not None else eng.where(fi, st), "%s|returned-buffer-not-fresh|%s" % (fi.fid, e.id),
                        "evaluate_objective can return `%s` as defined by `%s`, which is not a fresh allocation: results parked by a caller alias the next evaluation's buffer" % (e.id, short_(bad)))
    rep.require_count(rule, "returned evaluation buffers", n, 2)


def short_(node, n=60):
    s_ = ekey(node).replace("\n", " ") if node is not None else "?"
    return s_ if len(s_) <= n else s_[:n - 3] + "..."


def rule_mean_over_samples_run(eng, rep, rule):
    """Every use of an evaluation buffer (zero-padded to the requested number of samples) in a mean / as an argument of another routine
    must be sliced to the number of samples actually run."""
    pos = result_positions(eng)
    pairs = []     # (fi, buffer name, counter name, defining cfg node or None)
    for es in eval_sites(eng):
        for (un, names) in es.unpacks:
            if len(names) == len(pos):
                pairs.append((es.fi, names[0], names[2]))
    # the producers themselves: functions that fill the buffer from the sink call
    from .anchors import anchors
    A = anchors(eng)
    for ci in A.sink_calls:
        fi = ci.caller
        st = eng.prog.stmt_of(ci.node)
        if isinstance(st, ast.Assign) and isinstance(st.targets[0], (ast.Tuple, ast.List)) and isinstance(st.targets[0].elts[0], ast.Subscript):
            buf = st.targets[0].elts[0].value
            if isinstance(buf, ast.Name):
                cfg = eng.cfg(fi)
                cn = cfg.cfg_node(ci.node)
                cnt = None
                for m, e in cfg.succ(cn, with_exc=False):
                    s2 = cfg.ast_of(m)
                    if isinstance(s2, ast.AugAssign) and isinstance(s2.target, ast.Name):
                        cnt = s2.target.id
                if cnt:
                    pairs.append((fi, buf.id, cnt))
    seen = set()
    n = 0
    for (fi, buf, cnt) in pairs:
        if (fi.fid, buf, cnt) in seen:
            continue
        seen.add((fi.fid, buf, cnt))
        for node in eng.prog.own_nodes(fi):
            if not isinstance(node, ast.Call):
                continue
            ci = eng.res.calls.get(id(node))
            is_mean = ci is not None and ci.kind == "LIB" and ci.libname in ("numpy.mean", "numpy.average", "numpy.sum", "numpy.median")
            is_internal = ci is not None and bool(ci.targets) and not any(t.fid.startswith("model.Model.add_new_sample") for t in ci.targets)
            if not (is_mean or is_internal):
                continue
            for a in list(node.args) + [kw.value for kw in node.keywords]:
                if isinstance(a, ast.Call):
                    continue      # nested calls are visited on their own
                if buf not in [s.id for s in ast.walk(a) if isinstance(s, ast.Name)]:
                    continue
                n += 1
                site = eng.where(fi, node)
                okc = False
                how = ""
                if isinstance(a, ast.Subscript) and isinstance(a.value, ast.Name) and a.value.id == buf:
                    sl = a.slice.elts[0] if isinstance(a.slice, ast.Tuple) else a.slice
                    if isinstance(sl, ast.Slice) and sl.lower is None and sl.upper is not None and ekey(sl.upper) == cnt:
                        okc, how = True, "%s[:%s, :]" % (buf, cnt)
                    elif not isinstance(sl, ast.Slice):
                        okc, how = True, "a single sample row %s" % ekey(a)      # row 0 / row i of range(1, counter): checked by the caller's loop bound
                if not okc and is_internal and isinstance(a, ast.Name) and a.id == buf and len(ci.targets) == 1:
                    # the whole buffer goes to a helper *together with* its counter: the helper's own uses are checked with the same rule
                    t = ci.targets[0]
                    bound = any(bd for (tt, bd) in eng.res.call_targets(fi, node) if tt.fid == t.fid)
                    bb = bind_call(node, t, bound and t.is_method)
                    pb = [pn for pn, e in bb.params.items() if e is a]
                    pc = [pn for pn, e in bb.params.items() if isinstance(e, ast.Name) and e.id == cnt]
                    if pb and pc and not bb.errors:
                        if (t.fid, pb[0], pc[0]) not in seen:
                            pairs.append((t, pb[0], pc[0]))
                        okc, how = True, "the buffer and its counter (%s, %s): uses inside %s are checked there" % (buf, cnt, t.qualname)
                if okc:
                    rep.ok(rule, site, "%s receives %s" % (ekey(node.func), how), nontrivial=is_mean)
                else:
                    rep.bad(rule, site, "%s|buffer-not-sliced-to-samples-run|%s" % (fi.fid, ekey(node.func)[:30]),
                            "`%s` uses the evaluation buffer `%s` without slicing it to the %s samples actually run: unfilled zero rows enter the result when the budget ends mid-point"
                            % (ekey(node)[:70], ekey(a)[:40], cnt))
    rep.require_count(rule, "uses of evaluation buffers in means / calls", n, 15)
