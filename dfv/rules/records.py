"""Evaluation sites and record consumers (shared by C03-3, C04-1, C08).

An *evaluation site* is a call of Controller.evaluate_objective; its result (rvec_list, obj_list, num_samples_run, exit_info)
is either unpacked directly or parked in a list and unpacked later.  A *consumer* is a call that stores an evaluated
record in the model: Model.change_point / add_new_point / save_point.
"""
import ast

from ..loader import AnalysisError, ekey
from ..resolve import bind_call
from .common import assigned_names, mentions

CONSUMERS = ("model.Model.change_point", "model.Model.add_new_point", "model.Model.save_point")
EVAL = "controller.Controller.evaluate_objective"


class EvalSite(object):
    def __init__(self, fi, cfg, call):
        self.fi, self.cfg, self.call = fi, cfg, call
        self.node = cfg.cfg_node(call)
        self.mode = None          # 'direct' | 'list'
        self.unpacks = []         # [(cfg node, [names by position])]
        self.listvar = None
        self.x_expr = call.args[0] if call.args else None


def result_positions(eng):
    """Names of the positions of evaluate_objective's return tuple, derived from its return statement."""
    fi = eng.fn(EVAL)
    pos = None
    for node in eng.prog.own_nodes(fi):
        if isinstance(node, ast.Return) and isinstance(node.value, ast.Tuple):
            names = [e.id if isinstance(e, ast.Name) else None for e in node.value.elts]
            if pos is not None and pos != names:
                raise AnalysisError("evaluate_objective returns differently shaped tuples")
            pos = names
    if pos is None or len(pos) < 4:
        raise AnalysisError("cannot read the return tuple of evaluate_objective")
    return pos


def eval_sites(eng):
    out = []
    for ci in eng.calls_to(EVAL):
        fi = ci.caller
        cfg = eng.cfg(fi)
        es = EvalSite(fi, cfg, ci.node)
        parent = eng.prog.parent.get(id(ci.node))
        if isinstance(parent, ast.Assign) and parent.value is ci.node and isinstance(parent.targets[0], (ast.Tuple, ast.List)):
            es.mode = "direct"
            es.unpacks.append((cfg.cfg_node(parent), assigned_names(parent.targets[0])))
        elif isinstance(parent, ast.Call) and isinstance(parent.func, ast.Attribute) and parent.func.attr == "append" \
                and isinstance(parent.func.value, ast.Name):
            es.mode = "list"
            es.listvar = parent.func.value.id
            for n, d in cfg.g.nodes(data=True):
                st = d["ast"]
                if d["kind"] == "stmt" and isinstance(st, ast.Assign) and isinstance(st.targets[0], (ast.Tuple, ast.List)) \
                        and isinstance(st.value, ast.Subscript) and isinstance(st.value.value, ast.Name) and st.value.value.id == es.listvar:
                    es.unpacks.append((n, assigned_names(st.targets[0])))
        else:
            es.mode = "other"
        out.append(es)
    return out


class Consumer(object):
    def __init__(self, fi, cfg, call, target, binding):
        self.fi, self.cfg, self.call, self.target, self.b = fi, cfg, call, target, binding
        self.node = cfg.cfg_node(call)

    def arg(self, pname):
        e = self.b.params.get(pname)
        if e is None or isinstance(e, tuple):
            return None
        return e


def consumers_in(eng, fi):
    cfg = eng.cfg(fi)
    out = []
    for ci in eng.calls_in(fi):
        for (t, bound) in eng.res.call_targets(fi, ci.node):
            if t.fid in CONSUMERS:
                out.append(Consumer(fi, cfg, ci.node, t, bind_call(ci.node, t, bound and t.is_method)))
    return out


def all_consumers(eng):
    out = []
    for fid in CONSUMERS:
        for ci in eng.calls_to(fid):
            t = eng.fn(fid)
            bound = any(b for (tt, b) in eng.res.call_targets(ci.caller, ci.node) if tt.fid == fid)
            out.append(Consumer(ci.caller, eng.cfg(ci.caller), ci.node, t, bind_call(ci.node, t, bound and t.is_method)))
    return out
