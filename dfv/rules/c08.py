"""C08 -- bad objective values are survived gracefully (structural clauses).

Decided: every selection guard is NaN-total (decision tables over {None, NaN, lo, hi}); arg-min over stored
objective values is NaN-aware; no try block can swallow an exception raised by the user's objective (no
evaluation is reachable from inside any try body / handler); the budget/bound rules never consult objfun's value.
"""
import ast

import networkx as nx

from ..loader import AnalysisError, ekey
from .anchors import anchors
from .common import mentions, short, guards_of, param_keys_in
from .selection import rule_selection


def rule_argmin_nan_aware(eng, rep, rule="C08-1c.argmin-over-objectives-is-NaN-aware"):
    n = 0
    for fi in eng.prog.functions.values():
        for ci in eng.calls_in(fi):
            if ci.kind != "LIB" or ci.libname not in ("numpy.argmin", "numpy.argmax", "numpy.nanargmin", "numpy.nanargmax", "numpy.argsort"):
                continue
            if not ci.node.args:
                continue
            arg = ci.node.args[0]
            # does the argument hold stored objective values?  (field-based: reads Model.objval)
            vfg = eng.vfg
            w = vfg.back([vfg.key_of(arg)], lambda s, k, i, d: k in ("copy", "index", "proj", "sel"))
            if ("f", "Model", "objval") not in w.nodes:
                continue
            n += 1
            site = eng.where(fi, ci.node)
            if ci.libname.startswith("numpy.nanarg"):
                rep.ok(rule, site, "%s ignores NaN entries" % ci.libname)
            elif _nan_masked(arg):
                rep.ok(rule, site, "argument masks NaN entries before %s" % ci.libname)
            else:
                rep.bad(rule, site, "%s|%s-over-objval" % (fi.fid, ci.libname.split(".")[-1]),
                        "%s over stored objective values returns the first NaN: a NaN sample steals the incumbent" % ci.libname)
    rep.require_count(rule, "arg-min/arg-sort over stored objective values", n, 1)


def _nan_masked(arg):
    for sub in ast.walk(arg):
        if isinstance(sub, ast.Call) and isinstance(sub.func, ast.Attribute) and sub.func.attr in ("where", "nan_to_num"):
            if any(isinstance(s, ast.Attribute) and s.attr == "isnan" for s in ast.walk(sub)) or sub.func.attr == "nan_to_num":
                return True
    return False


def rule_exception_transparency(eng, rep, rule="C08-2.user-exceptions-propagate"):
    A = anchors(eng)
    if A.sink is None:
        rep.unknown(rule, "package", "no unique evaluation sink")
        return
    g = nx.compose(eng.res.callgraph, eng.res.lexical)
    can_eval = set(nx.ancestors(g, A.sink.fid)) | {A.sink.fid}
    ntry = 0
    for fi in eng.prog.functions.values():
        for node in eng.prog.own_nodes(fi):
            if not isinstance(node, ast.Try):
                continue
            ntry += 1
            site = eng.where(fi, node)
            bad = None
            for part, stmts in (("body", node.body), ("handler", [s for h in node.handlers for s in h.body]), ("finally", node.finalbody)):
                for st in stmts:
                    for sub in ast.walk(st):
                        if isinstance(sub, ast.Call):
                            ci = eng.res.calls.get(id(sub))
                            if ci is None:
                                continue
                            if ci.kind == "USER" and ci.role and "objfun" in ci.role:
                                bad = (part, sub)
                            for t in ci.targets:
                                if t.fid in can_eval:
                                    bad = (part, sub)
            if bad:
                handlers = ", ".join(ekey(h.type) if h.type is not None else "<bare>" for h in node.handlers)
                rep.bad(rule, site, "%s|try-encloses-evaluation|%s" % (fi.fid, short(bad[1].func, 40)),
                        "the %s of this try (except %s) can reach the user's objective through %s: an exception raised by objfun may be swallowed or re-labelled"
                        % (bad[0], handlers, short(bad[1], 50)))
            else:
                rep.ok(rule, site, "no evaluation reachable from inside this try statement")
    # module-level try (optional import) is outside every function: counted for the record
    rep.require_count(rule, "try statements inside functions", ntry, 5)


def rule_logging_code_is_exception_neutral(eng, rep, rule="C08-3.logging-only-code-cannot-raise-on-non-finite-data"):
    """'solve terminates without raising' must not depend on whether logging / diagnostics are switched on.  scipy.linalg routines validate their input
    (check_finite=True) and raise ValueError on inf/NaN, numpy's do not.  Rule: a scipy.linalg call that runs only under a logging option (dominating guard over
    a `logging.*` parameter, do_logging, print_progress or verbose) must pass check_finite=False or sit in a try that handles ValueError."""
    n = nlog = 0
    for ci in list(eng.res.calls.values()):
        if not (ci.kind == "LIB" and ci.libname and ci.libname.startswith("scipy.linalg.")):
            continue
        n += 1
        fi = ci.caller
        if fi.is_lambda:
            continue
        cfg = eng.cfg(fi)
        try:
            cn = cfg.cfg_node(ci.node)
        except AnalysisError:
            continue
        opt = None
        for (_b, a) in guards_of(cfg, cn):
            if a.op != "truth":
                continue
            keys = [k for k in param_keys_in(eng, a.lhs) if k.startswith("logging.")]
            if keys:
                opt = "params('%s')" % keys[0]
            elif isinstance(a.lhs, ast.Name) and a.lhs.id in ("do_logging", "print_progress", "verbose"):
                opt = a.lhs.id
            elif isinstance(a.lhs, ast.Attribute) and a.lhs.attr in ("do_logging", "print_progress", "verbose"):
                opt = ekey(a.lhs)
        if opt is None:
            continue
        nlog += 1
        site = eng.where(fi, ci.node)
        unchecked = any(kw.arg == "check_finite" and isinstance(kw.value, ast.Constant) and kw.value.value is False for kw in ci.node.keywords)
        tr = _enclosing_try_handling(eng, ci.node, ("ValueError", "Exception"))
        if unchecked or tr:
            rep.ok(rule, site, "`%s` runs only under %s and cannot raise on non-finite input (%s)" % (short(ci.node, 40), opt, "check_finite=False" if unchecked else "enclosing try handles ValueError"))
        else:
            rep.bad(rule, site, "%s|raising-call-in-logging-code|%s" % (fi.fid, short(ci.node, 30)),
                    "`%s` runs only when %s is on and raises ValueError('array must not contain infs or NaNs') for a non-finite argument: with that option a bad objective value "
                    "makes solve raise although the same run terminates normally without it" % (short(ci.node, 40), opt))
    rep.require_count(rule, "scipy.linalg call sites inspected", n, 10)
    rep.extra["scipy_linalg_calls_in_logging_only_code"] = nlog


def rule_step_solvers_get_a_finite_model(eng, rep, rule="C08-4.projected-step-solvers-are-called-only-with-a-model-tested-finite"):
    """ctrsbox_pgd / ctrsbox_sfista iterate on (g, H) without any NaN handling; a non-finite entry comes back as a NaN step and the next scipy.linalg.norm raises out
    of solve.  All call sites therefore sit behind `np.all(np.isfinite(g))` and `np.all(np.isfinite(H))` of the very arrays they pass (sibling rule: 5 of 5 sites on
    the pinned tree).  A test of other quantities (the stored model coefficients, say) does not cover overflow in J^T J."""
    from ..resolve import bind_call
    n = 0
    for fid in ("trust_region.ctrsbox_pgd", "trust_region.ctrsbox_sfista"):
        t = eng.fn(fid)
        gp, hp = t.posparams[1], t.posparams[2]
        for ci in eng.calls_to(fid):
            fi = ci.caller
            if fi.fid.startswith("trust_region."):
                continue
            cfg = eng.cfg(fi)
            b = bind_call(ci.node, t, False)
            from .common import expanded_guard_atoms
            gs = expanded_guard_atoms(eng, [a for (_b, a) in guards_of(cfg, cfg.cfg_node(ci.node))])       # (boolean helpers such as `_has_bad_values(g, H)` are looked through)
            n += 1
            site = eng.where(fi, ci.node)
            missing = []

            def tested_at(f2, callnode, name, depth=2):
                c2 = eng.cfg(f2)
                g2 = expanded_guard_atoms(eng, [a for (_b, a) in guards_of(c2, c2.cfg_node(callnode))])
                if any(a.op == "truth" and any(isinstance(c, ast.Call) and ekey(c.func).split(".")[-1] == "isfinite" and c.args and ekey(c.args[0]) == name for c in ast.walk(a.lhs)) for a in g2):
                    return True
                if name in f2.all_params and depth > 0:
                    # a helper that forwards its own parameter: the test must have been made at each of its call sites
                    sites = eng.res.callers.get(f2.fid, [])
                    if not sites:
                        return False
                    for cs in sites:
                        bound = any(bd for (tt, bd) in eng.res.call_targets(cs.caller, cs.node) if tt.fid == f2.fid)
                        bb = bind_call(cs.node, f2, bound and f2.is_method)
                        ee = bb.params.get(name)
                        if isinstance(ee, ast.Call) and ekey(ee.func).split(".")[-1] in ("zeros", "ones", "eye", "zeros_like"):
                            continue          # finite by construction
                        if not isinstance(ee, ast.Name) or not tested_at(cs.caller, cs.node, ee.id, depth - 1):
                            return False
                    return True
                return False

            for pn in (gp, hp):
                e = b.params.get(pn)
                if not isinstance(e, ast.Name):
                    continue          # e.g. np.zeros(H.shape): finite by construction
                if not tested_at(fi, ci.node, e.id):
                    missing.append(e.id)
            if missing:
                rep.bad(rule, site, "%s|step-solver-without-finiteness-test|%s" % (fi.fid, "+".join(missing)),
                        "%s is called with `%s` although no dominating test established np.all(np.isfinite(%s)): an overflow-sized residual makes it non-finite, the solver returns a NaN step and solve raises"
                        % (t.qualname, ", ".join(missing), missing[0]))
            else:
                rep.ok(rule, site, "%s is reached only after its gradient / Hessian arguments were tested finite" % t.qualname)
    rep.require_count(rule, "calls of ctrsbox_pgd / ctrsbox_sfista from the controller", n, 2)


def _enclosing_try_handling(eng, node, names):
    cur = node
    while cur is not None:
        par = eng.prog.parent.get(id(cur))
        if isinstance(par, ast.Try) and cur in par.body:
            for h in par.handlers:
                if h.type is None:
                    return True
                hs = [x.id for x in ast.walk(h.type) if isinstance(x, ast.Name)] + [x.attr for x in ast.walk(h.type) if isinstance(x, ast.Attribute)]
                if set(hs) & set(names):
                    return True
        if isinstance(par, (ast.FunctionDef, ast.Lambda)):
            return False
        cur = par
    return False


def rule_hessian_norm_reciprocals_are_guarded(eng, rep, rule="C08-5.the-step-solvers-do-not-divide-by-a-norm-of-the-model-hessian-that-can-vanish"):
    """A finite model is not enough for a finite step: the model Hessian 2 J'J is the zero matrix whenever the fitted Jacobian is (a constant objective, equal residuals at
    all interpolation points).  A step length 1/||H|| is then infinite, inf * 0 is NaN, the step is NaN and scipy.linalg.norm(d) in the main loop raises ValueError out of
    solve.  In the projected step solvers every division whose denominator is (a local defined as) a norm of the Hessian parameter must be floored, added to a positive
    quantity, or reached only through a test that excludes zero."""
    from .common import expand_locals
    from ..norm import atom_of, const_value
    n = 0
    for fid in ("trust_region.ctrsbox_pgd", "trust_region.ctrsbox_sfista"):
        fi = eng.fn(fid)
        cfg = eng.cfg(fi)
        hpar = fi.posparams[2]

        def is_hnorm(e):
            return isinstance(e, ast.Call) and ekey(e.func).split(".")[-1] == "norm" and e.args and isinstance(e.args[0], ast.Name) and e.args[0].id == hpar

        for node in eng.prog.own_nodes(fi):
            if not (isinstance(node, ast.BinOp) and isinstance(node.op, ast.Div)):
                continue
            den = node.right
            name = den.id if isinstance(den, ast.Name) else None
            try:
                at = cfg.ast_of(cfg.cfg_node(node))
            except Exception:
                continue
            defs = []
            if name is not None:
                for dn in cfg.defs_reaching(at, name):
                    ds = cfg.ast_of(dn)
                    if isinstance(ds, ast.Assign) and is_hnorm(ds.value):
                        defs.append(dn)
            elif is_hnorm(den):
                defs = [None]
            if not defs:
                continue
            n += 1
            site = eng.where(fi, at if isinstance(at, ast.stmt) else node)
            here = cfg.cfg_node(node)
            bad = False
            for dn in defs:
                if dn is None:
                    bad = True
                    break
                redefs = [k for k in cfg.g.nodes if k != dn and name in cfg.defs_of(k)[0]]

                def edge_ok(a, b, e):
                    if cfg.kind(a) != "cond" or e.get("label") not in (True, False):
                        return True
                    atm = atom_of(cfg.ast_of(a), e["label"])
                    if atm.rhs is None:
                        return True
                    if isinstance(atm.lhs, ast.Name) and atm.lhs.id == name and const_value(atm.rhs) is not None:
                        c, left = const_value(atm.rhs), True
                    elif isinstance(atm.rhs, ast.Name) and atm.rhs.id == name and const_value(atm.lhs) is not None:
                        c, left = const_value(atm.lhs), False
                    else:
                        return True
                    z = 0.0
                    if atm.op == "eq":
                        return z == c
                    if atm.op == "ne":
                        return z != c
                    if atm.op == "lt":
                        return (z < c) if left else (c < z)
                    if atm.op == "le":
                        return (z <= c) if left else (c <= z)
                    return True
                if cfg.path_avoiding(dn, here, redefs, edge_ok=edge_ok) is not None:
                    bad = True
            if bad:
                rep.bad(rule, site, "%s|division-by-hessian-norm|%s" % (fid, name or "norm"),
                        "`%s` divides by `%s` = ||%s||, which is 0 for a constant model (J = 0, so H = 2 J'J = 0): the step becomes NaN and scipy.linalg.norm(d) in the main loop "
                        "raises ValueError out of solve" % (short(node, 40), short(den, 20), hpar))
            else:
                rep.ok(rule, site, "`%s`: reached only where ||%s|| != 0" % (short(node, 40), hpar))
    rep.require_count(rule, "divisions by a norm of the model Hessian in the projected step solvers", n, 1)


def run(eng, rep):
    rep.explain("C08: decision tables of every selection guard over {None, NaN, lo<hi} (T6) -- a NaN candidate never replaces a finite holder, a finite "
                "candidate replaces a NaN holder, an empty slot is filled, the guard never raises; arg-min over stored objectives is NaN-aware; no try "
                "statement encloses a call from which objfun is reachable in the call graph (T12).")
    rep.explain('Also decided: the incumbent re-selection after a re-sample cannot be skipped while a finite value is stored (guards + must-pass-through, C08-1d); finiteness-checking scipy.linalg calls do not run in logging-only code (C08-3).')
    rep.not_decided += ["termination and finiteness of the returned x under every fault sequence (values)",
                        "the NaN test after the trial step and the overflow guard are mechanisms, not necessary conditions; not armed"]
    rep.assumptions.append("budget and bound guarantees (C01/C02 rules) never consult the value returned by objfun, hence hold under every fault sequence")
    rep.guarded(rule_selection, eng, rep, "C08-1.selection-is-NaN-total", {"NAN_CAND", "NAN_HOLDER", "NONE_HOLDER"}, "C08")
    rep.guarded(rule_argmin_nan_aware, eng, rep)
    from .c17 import rule_reselection_guard
    rep.guarded(rule_reselection_guard, eng, rep, rule="C08-1d.NaN-incumbent-is-replaced-on-re-sampling")
    rep.guarded(rule_exception_transparency, eng, rep)
    rep.guarded(rule_logging_code_is_exception_neutral, eng, rep)
    rep.guarded(rule_step_solvers_get_a_finite_model, eng, rep)
    rep.guarded(rule_hessian_norm_reciprocals_are_guarded, eng, rep)
