"""C10 -- exit flags and messages tell the truth (guard => message at every construction site, run counting).

Decided: each 'Objective is sufficiently small' / 'rho has reached rhoend' / MAXFUN / 'maximum number of
unsuccessful restarts' construction is control dependent on (or, for overwritten messages, path-entails by truth
table) the fact its message states; nruns_so_far is incremented exactly once per run end on every path of
solve_main and threaded through solve.
"""
import ast
import itertools

from ..loader import AnalysisError, ekey
from ..norm import atom_of, const_value, is_none, Atom
from ..resolve import bind_call
from ..dataflow import Flow
from .. import tables
from .anchors import anchors
from .common import mentions, guards_of, short, param_key, param_keys_in, assigned_names, arg_of
from .c02 import _relation, _is_incr_of


def exit_sites(eng):
    """[(fi, cfg, cfg node, call node, flag name, message text)] for every ExitInformation(...) construction."""
    out = []
    for ci in eng.calls_to("controller.ExitInformation.__init__"):
        fi = ci.caller
        cfg = eng.cfg(fi)
        b = bind_call(ci.node, eng.fn("controller.ExitInformation.__init__"), True)
        fl = b.params.get("flag")
        ms = b.params.get("msg_details")
        flag = fl.id if isinstance(fl, ast.Name) else None
        msg = _literal_text(ms)
        out.append((fi, cfg, cfg.cfg_node(ci.node), ci.node, flag, msg))
    return out


def _literal_text(ms):
    if ms is None or isinstance(ms, tuple):
        return ""
    if isinstance(ms, ast.Constant) and isinstance(ms.value, str):
        return ms.value
    if isinstance(ms, ast.BinOp):
        return _literal_text(ms.left)
    return ""


# ------------------------------------------------------------------------------------ propositional helper
def _expand_bool_local(cfg, atom_node_expr, at_node):
    """If expr is a Name with a single reaching definition `name = <bool expr>`, return that expression."""
    if isinstance(atom_node_expr, ast.Name):
        defs = cfg.defs_reaching(at_node, atom_node_expr.id)
        if len(defs) == 1:
            st = cfg.ast_of(defs[0])
            if isinstance(st, ast.Assign) and len(st.targets) == 1 and isinstance(st.value, (ast.BoolOp, ast.Compare, ast.UnaryOp)):
                return st.value
    return None


def _prop(expr, atoms, ver=None):
    """Boolean formula over canonical atoms: returns a function assignment->bool; registers atoms in `atoms`.
    `ver(atom)` labels the values the atom reads at the place where the expression is evaluated (see storage_version)."""
    if isinstance(expr, ast.BoolOp):
        subs = [_prop(v, atoms, ver) for v in expr.values]
        if isinstance(expr.op, ast.And):
            return lambda a: all(s(a) for s in subs)
        return lambda a: any(s(a) for s in subs)
    if isinstance(expr, ast.UnaryOp) and isinstance(expr.op, ast.Not):
        s = _prop(expr.operand, atoms, ver)
        return lambda a: not s(a)
    at = atom_of(expr, True)
    key, pos = _canon(at)
    if ver is not None:
        key = key + (ver(at),)
    atoms.add(key)
    return (lambda a: a[key]) if pos else (lambda a: not a[key])


def _canon(at):
    """Canonical atom key and polarity: lt(a,b) is the positive form; le(b,a) == not lt(a,b)."""
    if at.op == "lt":
        return ("lt", ekey(at.lhs), ekey(at.rhs)), True
    if at.op == "le":
        return ("lt", ekey(at.rhs), ekey(at.lhs)), False
    if at.op == "isnot":
        return ("is", ekey(at.lhs), ekey(at.rhs)), False
    if at.op == "ne":
        k = at.key()
        return ("eq", k[1], k[2]), False
    if at.op == "false":
        return ("truth", ekey(at.lhs), ""), False
    if at.op == "notin":
        return ("in", ekey(at.lhs), ekey(at.rhs)), False
    k = at.key()
    return k, True


def entails(facts, goal_key, goal_pos):
    """facts: list of (formula fn); all atoms in `atoms`.  Does every satisfying assignment give goal == goal_pos?"""
    formulas, atoms = facts
    atoms = sorted(set(atoms) | {goal_key})
    if len(atoms) > 10:
        raise AnalysisError("too many atoms for the truth table")
    sat = False
    for combo in itertools.product([False, True], repeat=len(atoms)):
        a = dict(zip(atoms, combo))
        if all(f(a) for f in formulas):
            sat = True
            if a[goal_key] != goal_pos:
                return False, a
    return sat, None


def _ver_at(eng, fi, cfg):
    from .common import storage_version
    memo = {}

    def ver_at(loc, at):
        k = (loc, ekey(at.lhs) if at.lhs is not None else "", ekey(at.rhs) if at.rhs is not None else "")
        if k not in memo:
            memo[k] = storage_version(eng, fi, cfg, loc, [at.lhs, at.rhs])
        return memo[k]
    return ver_at


def path_facts_at(eng, fi, cfg, site_node, sink_nodes, var):
    """For an exit message constructed at site_node and stored in `var`: for every sink (return/break) that this
    definition reaches, the path condition = guards of the site + negated guards of every other definition of `var`
    that lies between (i.e. would have overwritten it)."""
    out = []
    for s in sink_nodes:
        rd = cfg.reaching_defs()[s]
        if (var, site_node) not in rd:
            continue
        formulas, atoms = [], set()
        ver_at = _ver_at(eng, fi, cfg)
        for (b, at) in guards_of(cfg, site_node):
            f = _formula_of_guard(cfg, b, at, atoms, ver_at)
            formulas.append(f)
        # other defs of var that post-date the site and could overwrite it on the way to s
        for n in cfg.g.nodes:
            if n == site_node:
                continue
            strong, weak = cfg.defs_of(n)
            if var in strong and cfg.path_avoiding(site_node, n, []) is not None and cfg.path_avoiding(n, s, []) is not None:
                # to reach s with the site's value the path must avoid n: negate n's own guards that are not shared with s
                gs_n = dict((b, at) for (b, at) in guards_of(cfg, n))
                gs_s = dict((b, at) for (b, at) in guards_of(cfg, s))
                gs_site = dict((b, at) for (b, at) in guards_of(cfg, site_node))
                own = [(b, at) for (b, at) in gs_n.items() if b not in gs_s and b not in gs_site]
                if not own:
                    continue
                fs = [_formula_of_guard(cfg, b, at, atoms, ver_at) for (b, at) in own]
                formulas.append(lambda a, fs=fs: not all(f(a) for f in fs))
        out.append((s, (formulas, atoms)))
    return out


def _formula_of_guard(cfg, b, at, atoms, ver_at=None):
    """Formula of one control dependence (cond node b with outcome encoded in atom `at`), expanding boolean locals.
    `ver_at(location, atom)`: label of the values the atom reads at that CFG node -- a boolean local is evaluated where it is *defined*, not where it is tested,
    so an atom of its definition and a same-looking atom tested later are one proposition only if no write to their operands lies between (seed C10-x)."""
    if at.op in ("truth", "false"):
        ex = _expand_bool_local(cfg, at.lhs, cfg.ast_of(b))
        if ex is not None:
            dn = cfg.defs_reaching(cfg.ast_of(b), at.lhs.id)[0]
            f = _prop(ex, atoms, (lambda a2: ver_at(dn, a2)) if ver_at else None)
            return f if at.op == "truth" else (lambda a, f=f: not f(a))
    key, pos = _canon(at)
    if ver_at is not None:
        key = key + (ver_at(b, at),)
    atoms.add(key)
    return (lambda a, key=key: a[key]) if pos else (lambda a, key=key: not a[key])


# ------------------------------------------------------------------------------------ rules 1-4
def rule_messages(eng, rep):
    A = anchors(eng)
    sites = exit_sites(eng)
    rep.require_count("C10-0.exit-sites", "ExitInformation construction sites", len(sites), tables.MIN_COUNTS["exit_constructions"])
    n_small = n_rho = n_max = n_unsucc = 0
    for (fi, cfg, node, call, flag, msg) in sites:
        site = eng.where(fi, call)
        gs = guards_of(cfg, node)
        low = msg.lower()
        if "sufficiently small" in low:
            n_small += 1
            rule = "C10-1.objective-sufficiently-small"
            okc = False
            why = "no guard of the form sumsq(mean residual)[+h] <= tolerance controls this message"
            for (b, at) in gs:
                if at.op != "le":
                    continue
                if not _is_tolerance(eng, at.rhs):
                    continue
                # is h known to be None on this path?
                h_none = any(a2.op == "is" and is_none(a2.rhs) and ekey(a2.lhs) in ("h", "self.h") for (_b2, a2) in gs)
                verdict = _objective_forms_ok(eng, cfg, b, at.lhs, h_none)
                if verdict is None:
                    continue          # not an objective value at all
                if verdict is not True:
                    why = verdict
                    continue
                # the tested residual is the mean over the samples run (or a plain residual)
                okc = True
            if okc:
                rep.ok(rule, site, "message is control dependent on `sumsq(mean residual)%s <= tolerance`" % "")
            else:
                rep.bad(rule, site, "%s|small-objective-claim" % fi.fid, "'%s': %s" % (msg, why))
        elif "rho has reached rhoend" in low:
            n_rho += 1
            rule = "C10-2.rho-reached-rhoend"
            okc = any(at.op == "le" and ekey(at.lhs).endswith("rho") and "rhoend" in ekey(at.rhs) for (_b, at) in gs)
            if okc:
                rep.ok(rule, site, "message is control dependent on not (rho > rhoend)")
            else:
                rep.bad(rule, site, "%s|rho-claim|%s" % (fi.fid, _prev_call(cfg, node)), "'%s' is not guarded by the false edge of `rho > rhoend`" % msg)
        elif flag == "EXIT_MAXFUN_WARNING":
            n_max += 1
            rule = "C10-3.maxfun-warning-implies-nf-ge-maxfun"
            _maxfun_site(eng, rep, rule, fi, cfg, node, call, site, gs)
        elif "unsuccessful restarts" in low:
            n_unsucc += 1
            rule = "C10-4.max-unsuccessful-restarts"
            okc = False
            from .common import expand_locals
            for (b, at) in gs:
                # max <= nruns - last   (i.e. nruns - last >= max); the difference may be held in an explaining local
                rhs_x = expand_locals(cfg, cfg.ast_of(b), at.rhs) if at.rhs is not None else None
                if at.op == "le" and "restarts.max_unsuccessful_restarts" in param_keys_in(eng, at.lhs) and rhs_x is not None and "last_successful_run" in ekey(rhs_x):
                    okc = True
            if okc:
                rep.ok(rule, site, "message is control dependent on nruns - last_successful_run >= max_unsuccessful_restarts")
            else:
                rep.bad(rule, site, "%s|unsuccessful-restarts-claim" % fi.fid, "'%s' is not guarded by nruns - last_successful_run >= restarts.max_unsuccessful_restarts" % msg)
    rep.require_count("C10-1.objective-sufficiently-small", "sites", n_small, 3)
    rep.require_count("C10-2.rho-reached-rhoend", "sites", n_rho, 2)
    rep.require_count("C10-3.maxfun-warning-implies-nf-ge-maxfun", "sites", n_max, 3)
    rep.require_count("C10-4.max-unsuccessful-restarts", "sites", n_unsucc, 2)
    # tolerance definition
    rule = "C10-1b.tolerance-definition"
    mo = eng.fn("model.Model.min_objective_value")
    rets = [n for n in eng.prog.own_nodes(mo) if isinstance(n, ast.Return)]
    okc = False
    if len(rets) == 1 and isinstance(rets[0].value, ast.Call) and isinstance(rets[0].value.func, ast.Name) and rets[0].value.func.id == "max" and len(rets[0].value.args) == 2:
        a, b = rets[0].value.args
        txt = sorted([ekey(a), ekey(b)])
        ment = mentions(a) | mentions(b)
        if {"abs_tol", "rel_tol", "objbeg"} <= ment and any(isinstance(x, ast.BinOp) and isinstance(x.op, ast.Mult) and {"rel_tol", "objbeg"} <= mentions(x) for x in (a, b)) \
                and any(mentions(x) & {"abs_tol"} and not isinstance(x, ast.BinOp) for x in (a, b)):
            okc = True
    if okc:
        vfg = eng.vfg
        w = vfg.back([("f", "Model", "abs_tol")], lambda s, k, i, d: k in ("copy", "default"),
                     stop=lambda n: n[0] == "e" and isinstance(vfg.info[n][1], ast.Call) and param_key(eng, vfg.info[n][1]) is not None)
        keys = set()
        for l in w.nodes:
            lfi, ln = vfg.node_expr(l)
            if isinstance(ln, ast.Call):
                k = param_key(eng, ln)
                if k:
                    keys.add(k)
        w2 = vfg.back([("f", "Model", "objbeg")], lambda s, k, i, d: k in ("copy", "proj", "index"))
        if "model.abs_tol" in keys and ("f", "Model", "objval") in w2.nodes:
            rep.ok(rule, eng.where(mo), "min_objective_value = max(abs_tol, rel_tol*objbeg), abs_tol <- params('model.abs_tol'), objbeg <- objval[0]")
        else:
            rep.bad(rule, eng.where(mo), "model.Model.min_objective_value|tolerance-origin", "abs_tol / objbeg do not originate from params('model.abs_tol') / objval[0] (got %s)" % sorted(keys))
    else:
        rep.bad(rule, eng.where(mo), "model.Model.min_objective_value|tolerance-shape", "min_objective_value is not max(abs_tol, rel_tol * objbeg)")


def _h_none_edge(cfg, a, e):
    """the edge asserts that the regulariser is None"""
    if cfg.kind(a) != "cond" or e.get("label") not in (True, False):
        return False
    at = atom_of(cfg.ast_of(a), e["label"])
    return at.op == "is" and is_none(at.rhs) and ekey(at.lhs) in ("h", "self.h")


def _objective_forms_ok(eng, cfg, cond, expr, h_none_here, depth=4):
    """The value tested against the tolerance must be sumsq(residual) + h(point) whenever h may be set.  The value may be written in place
    (`sumsq(..) + self.h(..) <= tol`) or accumulated in a local (`v = sumsq(..)`; `if self.h is not None: v = v + self.h(..)` / `v += ..`): every
    definition reaching the test is expanded, and a definition without the h term must be unable to reach the test on a path where h is set.
    Returns True, a reason (str), or None if the value is no objective at all."""
    def calls(e):
        return [c for c in ast.walk(e) if isinstance(c, ast.Call) and id(c) in eng.res.calls]

    def has_sumsq(e):
        return any(any(t.fid == "util.sumsq" for t in eng.res.calls[id(c)].targets) for c in calls(e))

    def has_h(e):
        from .c03 import _is_hcall
        return any(_is_hcall(eng, c) for c in calls(e))      # h itself, or a wrapper whose every return is an h call

    def forms(e, at_ast, d):
        """set of (has_sumsq, has_h, defining cfg node or None)"""
        if isinstance(e, ast.Name) and d > 0:
            out = set()
            try:
                defs = cfg.defs_reaching(at_ast, e.id)
            except Exception:
                defs = []
            for dn in defs:
                st = cfg.ast_of(dn)
                if isinstance(st, ast.Assign) and len(st.targets) == 1 and isinstance(st.targets[0], ast.Name):
                    for (s_, h_, _n) in forms_of_expr(st.value, st, d - 1):
                        out.add((s_, h_, dn))
                elif isinstance(st, ast.AugAssign) and isinstance(st.op, ast.Add) and isinstance(st.target, ast.Name):
                    prev = _prev_forms(e.id, dn, d - 1)
                    for (s_, h_, _n) in prev:
                        out.add((s_ or has_sumsq(st.value), h_ or has_h(st.value), dn))
                else:
                    out.add((False, False, dn))
            return out
        return forms_of_expr(e, at_ast, d)

    def _prev_forms(var, dn, d):
        out = set()
        for (v, p) in cfg.reaching_defs()[dn]:
            if v != var:
                continue
            st = cfg.ast_of(p)
            if isinstance(st, ast.Assign) and len(st.targets) == 1 and isinstance(st.targets[0], ast.Name):
                out |= forms_of_expr(st.value, st, d)
            else:
                out.add((False, False, p))
        return out or {(False, False, None)}

    def forms_of_expr(e, at_ast, d):
        s_, h_ = has_sumsq(e), has_h(e)
        names = [n for n in ast.walk(e) if isinstance(n, ast.Name) and isinstance(n.ctx, ast.Load)]
        out = {(s_, h_, None)}
        if d > 0:
            for nm in names:
                # a term that is itself an accumulator local
                if isinstance(e, ast.BinOp) and isinstance(e.op, ast.Add) and nm in (e.left, e.right):
                    sub = forms(nm, at_ast, d)
                    out = set((s_ or s2, h_ or h2, None) for (s2, h2, _n) in sub)
        return out

    fs = forms(expr, cfg.ast_of(cond), depth)
    if not any(s_ for (s_, _h, _n) in fs):
        return None
    for (s_, h_, dn) in fs:
        if not s_:
            return "a value that is not sumsq(residual)[+h] can reach this test"
        if h_ or h_none_here:
            continue
        if dn is None:
            return "the tested value omits the regulariser h although h may be set on this path"
        # the h-less definition must not reach the test on a path where h may be set
        var = expr.id if isinstance(expr, ast.Name) else None
        redefs = [n for n in cfg.g.nodes if n != dn and var is not None and var in cfg.defs_of(n)[0]]
        p = cfg.path_avoiding(dn, cond, redefs, edge_ok=lambda a, m, e: not _h_none_edge(cfg, a, e))
        if p is not None:
            return "the tested value omits the regulariser h although h may be set on this path"
    return True


def rule_success_needs_finite_objective(eng, rep, rule="C10-6.success-is-never-attached-to-a-non-finite-objective"):
    """Choke-point rule: every result that carries a solution is built by one OptimResults(...) call in solve.  On every path to it the combination
    (flag == EXIT_SUCCESS, objective not finite) must have been excluded: typestate over (flag variable, objective variable) -- 'excluded' is established by the
    not-equal outcome of `flag == EXIT_SUCCESS`, the true outcome of `np.isfinite(objective)`, or the assignment of an ExitInformation with another flag, and is
    lost by any other assignment to either variable."""
    from ..dataflow import Flow
    from .c02 import final_ctor
    A = anchors(eng)
    ci, b = final_ctor(eng, A)
    solve = A.solve
    cfg = eng.cfg(solve)
    cnode = cfg.cfg_node(ci.node)
    fexpr, oexpr = b.params.get("exit_flag"), b.params.get("objmin")
    if not isinstance(fexpr, ast.Name) or not isinstance(oexpr, ast.Name):
        rep.unknown(rule, eng.where(solve, ci.node), "flag / objective arguments of the final OptimResults(...) are not plain names")
        return
    F, O = fexpr.id, oexpr.id
    # the flag is read off an ExitInformation object: F = X.flag
    X = None
    for dn in cfg.defs_reaching(fexpr, F):
        st = cfg.ast_of(dn)
        if isinstance(st, ast.Assign) and isinstance(st.value, ast.Attribute) and st.value.attr == "flag" and isinstance(st.value.value, ast.Name):
            X = st.value.value.id
    flagvars = {F} | ({X} if X else set())

    def is_flag(e):
        return (isinstance(e, ast.Name) and e.id == F) or (isinstance(e, ast.Attribute) and e.attr == "flag" and isinstance(e.value, ast.Name) and e.value.id == X)

    def node_fn(n, s):
        st = cfg.ast_of(n)
        if cfg.kind(n) != "stmt" or not isinstance(st, (ast.Assign, ast.AugAssign)):
            return [s]
        tg = []
        for t in (st.targets if isinstance(st, ast.Assign) else [st.target]):
            tg += assigned_names(t)
        if O in tg:
            return ["U"]
        if set(tg) & flagvars:
            v = st.value
            if isinstance(st, ast.Assign) and is_flag(v):
                return [s]                      # F = X.flag : a copy
            if isinstance(v, ast.Call) and ekey(v.func).split(".")[-1] == "ExitInformation" and v.args and isinstance(v.args[0], ast.Name) \
                    and v.args[0].id.startswith("EXIT_") and v.args[0].id != "EXIT_SUCCESS":
                return ["OK"]
            return ["U"]
        return [s]

    def edge_fn(a, b_, e, s):
        if cfg.kind(a) == "cond" and e.get("label") in (True, False):
            at = atom_of(cfg.ast_of(a), e["label"])
            if at.op == "ne" and ((is_flag(at.lhs) and ekey(at.rhs) == "EXIT_SUCCESS") or (is_flag(at.rhs) and ekey(at.lhs) == "EXIT_SUCCESS")):
                return "OK"
            if at.op == "truth" and isinstance(at.lhs, ast.Call) and ekey(at.lhs.func).split(".")[-1] == "isfinite" and len(at.lhs.args) == 1 and ekey(at.lhs.args[0]) == O:
                return "OK"
        return s

    fl = Flow(cfg, "U", node_fn, edge_fn)
    states = set(fl.states(cnode))
    site = eng.where(solve, ci.node)
    if states == {"OK"}:
        rep.ok(rule, site, "on every path to the result constructor either `%s` is not EXIT_SUCCESS or np.isfinite(%s) has held" % (F, O))
    else:
        p = fl.path_to(cnode, "U")
        rep.bad(rule, site, "solver.solve|success-with-unchecked-objective",
                "a result can be built with flag EXIT_SUCCESS although `%s` was never tested for finiteness: 'Success: ...' is reported with obj = inf / nan "
                "(inf residual at x0 passes `obj <= max(abs_tol, rel_tol*inf)`; an all-NaN objective ends in 'Reached maximum number of unsuccessful restarts')" % O,
                path=cfg.describe_path(p)[-12:] if p else None)


def _prev_call(cfg, node):
    from .c04 import _context_key
    return _context_key(None, cfg, node)


def _is_tolerance(eng, rhs):
    if isinstance(rhs, ast.Call):
        if param_key(eng, rhs) == "model.abs_tol":
            return True
        ci = eng.res.calls.get(id(rhs))
        if ci and any(t.fid == "model.Model.min_objective_value" for t in ci.targets):
            return True
    return False


def _maxfun_site(eng, rep, rule, fi, cfg, node, call, site, gs):
    A = anchors(eng)
    # which expressions are NF and MAXFUN in this function?  any comparison whose operand closure reaches the counters
    direct = False
    for (b, at) in gs:
        rel = _nf_relation(eng, fi, at)
        if rel == "nf>=max":
            direct = True
    if direct:
        rep.ok(rule, site, "message is control dependent on NF >= MAXFUN")
        return
    # overwritten / compound guard: path-entailment by truth table at every sink this definition reaches
    st = cfg.ast_of(node)
    var = None
    if isinstance(st, ast.Assign) and isinstance(st.targets[0], ast.Name):
        var = st.targets[0].id
    if var is None and isinstance(st, ast.Return):
        # the message is returned directly: nothing can overwrite it, its path condition is the guard list of the return itself
        ver_at = _ver_at(eng, fi, cfg)
        formulas, atoms = [], set()
        for (b, at) in guards_of(cfg, node):
            formulas.append(_formula_of_guard(cfg, b, at, atoms, ver_at))
        goal = None
        for n2 in cfg.nodes_of_kind("cond") + [x for x in cfg.g.nodes if cfg.kind(x) == "stmt"]:
            ex = cfg.ast_of(n2)
            for sub in ast.walk(ex) if ex is not None else []:
                if isinstance(sub, ast.Compare) and len(sub.ops) == 1:
                    at = atom_of(sub, True)
                    rel = _nf_relation(eng, fi, at)
                    if rel in ("nf<max", "nf>=max"):
                        key, pos = _canon(at)
                        goal = (key, pos if rel == "nf<max" else not pos, at)
        if goal is None:
            rep.bad(rule, site, "%s|maxfun-claim" % fi.fid, "no comparison of the evaluation counter with the budget in this function")
            return
        try:
            gkey = goal[0] + (ver_at(node, goal[2]),)
            okc, cex = entails((formulas, atoms), gkey, not goal[1])
        except AnalysisError as ex:
            rep.unknown(rule, site, str(ex))
            return
        if okc:
            rep.ok(rule, site, "truth table over %d atoms: the directly returned message is reached only with NF >= MAXFUN" % len(atoms | {gkey}))
        else:
            rep.bad(rule, site, "%s|maxfun-claim" % fi.fid, "the MAXFUN message can be returned on a path where NF < MAXFUN is possible (counter-model: %s)" % (
                {k[1] + "<" + k[2] if k[0] == "lt" else str(k): v for k, v in (cex or {}).items()}))
        return
    if var is None:
        rep.unknown(rule, site, "MAXFUN message is not stored in a local")
        return
    sinks = [n for n, d in cfg.g.nodes(data=True) if d["kind"] == "stmt" and (isinstance(d["ast"], ast.Return) or d.get("jump") == "break")
             and d["ast"] is not None and (not isinstance(d["ast"], ast.Return) or (d["ast"].value is not None and var in mentions(d["ast"].value)))]
    pfs = path_facts_at(eng, fi, cfg, node, sinks, var)
    if not pfs:
        rep.unknown(rule, site, "MAXFUN message never reaches a return")
        return
    # goal atom: nf < maxfun must be False
    goal = None
    for n in cfg.nodes_of_kind("cond") + [x for x in cfg.g.nodes if cfg.kind(x) == "stmt"]:
        ex = cfg.ast_of(n)
        for sub in ast.walk(ex) if ex is not None else []:
            if isinstance(sub, ast.Compare) and len(sub.ops) == 1:
                at = atom_of(sub, True)
                rel = _nf_relation(eng, fi, at)
                if rel in ("nf<max", "nf>=max"):
                    key, pos = _canon(at)
                    goal = (key, pos if rel == "nf<max" else not pos, at)
    if goal is None:
        rep.bad(rule, site, "%s|maxfun-claim" % fi.fid, "no comparison of the evaluation counter with the budget in this function")
        return
    ver_at = _ver_at(eng, fi, cfg)
    for (s, facts) in pfs:
        try:
            # the claim is about the counters as they are when the message is returned
            gkey = goal[0] + (ver_at(s, goal[2]),)
            okc, cex = entails(facts, gkey, not goal[1])
        except AnalysisError as ex:
            rep.unknown(rule, site, str(ex))
            return
        if okc:
            rep.ok(rule, site, "truth table over %d atoms: every path on which this message is returned has NF >= MAXFUN" % len(facts[1] | {gkey}))
        else:
            rep.bad(rule, site, "%s|maxfun-claim" % fi.fid, "the MAXFUN message can be returned on a path where NF < MAXFUN is possible (counter-model: %s)" % (
                {k[1] + "<" + k[2] if k[0] == "lt" else str(k): v for k, v in (cex or {}).items()}))


def _nf_relation(eng, fi, at):
    """Relation of an atom to the budget, with NF/MAXFUN identified through the value-flow closure of the counters."""
    if at.op not in ("lt", "le") or at.rhs is None:
        return None
    A = anchors(eng)
    nfw, nxw, _a, _b = A.counter_closures()
    vfg = eng.vfg

    def is_nf(e):
        try:
            k = vfg.key_of(e)
        except AnalysisError:
            return False
        if k in nfw.plain:
            return True
        # a read of the same storage as a counter node: field or local defs in the closure
        return any(s in nfw.plain for (s, kind, info) in vfg.preds.get(k, []) if kind == "copy")

    def is_max(e):
        return "maxfun" in ekey(e).lower()

    if at.op == "le" and is_max(at.lhs) and is_nf(at.rhs):
        return "nf>=max"
    if at.op == "lt" and is_nf(at.lhs) and is_max(at.rhs):
        return "nf<max"
    if at.op == "lt" and is_max(at.lhs) and is_nf(at.rhs):
        return "nf>max"
    if at.op == "le" and is_nf(at.lhs) and is_max(at.rhs):
        return "nf<=max"
    return None


# ------------------------------------------------------------------------------------ rule 5
def rule_nruns(eng, rep, rule="C10-5.nruns-counts-runs"):
    A = anchors(eng)
    sm, solve = A.solve_main, A.solve
    cfg = eng.cfg(sm)
    scfg = eng.cfg(solve)
    # position of nruns in solve_main's result: the name bound at the call sites that is also passed back in
    pos = None
    nruns_param = None
    for ci in A.solve_main_calls:
        st = eng.prog.stmt_of(ci.node)
        if not (isinstance(st, ast.Assign) and isinstance(st.targets[0], (ast.Tuple, ast.List))):
            rep.unknown(rule, eng.where(ci.caller, ci.node), "result of solve_main is not tuple-unpacked")
            return
        names = assigned_names(st.targets[0])
        b = bind_call(ci.node, sm, False)
        for p, e in b.params.items():
            if isinstance(e, ast.Name) and e.id in names and "nruns" in p:
                if pos is not None and pos != names.index(e.id):
                    rep.bad(rule, eng.where(ci.caller, ci.node), "solver.solve|nruns-position-differs", "nruns is unpacked from different positions at different call sites")
                pos = names.index(e.id)
                nruns_param = p
    if pos is None:
        rep.unknown(rule, eng.where(solve), "cannot identify the nruns position of solve_main's result")
        return
    # threading in solve
    for ci in A.solve_main_calls:
        st = eng.prog.stmt_of(ci.node)
        names = assigned_names(st.targets[0])
        e = arg_of(eng, ci.node, sm, nruns_param)
        site = eng.where(solve, ci.node)
        if not isinstance(e, ast.Name) or names[pos] != e.id:
            rep.bad(rule, site, "solver.solve|nruns-not-threaded", "run counter passed in (%s) is not the one bound from the result (%s)" % (ekey(e), names[pos]))
            continue
        defs = scfg.defs_reaching(e, e.id)
        okd = True
        for dn in defs:
            dst = scfg.ast_of(dn)
            if isinstance(dst, ast.Assign) and const_value(dst.value) == 0:
                continue
            if isinstance(dst, ast.Assign) and isinstance(dst.targets[0], (ast.Tuple, ast.List)) and isinstance(dst.value, ast.Call) \
                    and any(t.fid == sm.fid for t in eng.res.calls[id(dst.value)].targets) and assigned_names(dst.targets[0])[pos] == e.id:
                continue
            okd = False
        if okd:
            rep.ok(rule, site, "run counter threaded: starts at 0, re-bound from position %d of every solve_main result" % pos)
        else:
            rep.bad(rule, site, "solver.solve|nruns-rebound", "run counter `%s` is re-defined between runs by something other than solve_main's result" % e.id)
    # counting in solve_main
    var = nruns_param
    main_heads = [h for (h, kind, st) in cfg.loops if kind == "while"]
    if len(main_heads) != 1:
        rep.unknown(rule, eng.where(sm), "expected one while loop (the main loop) in solve_main, found %d" % len(main_heads))
        return
    head = main_heads[0]
    def reaches_restart(t, depth=2):
        if t.fid == "controller.Controller.soft_restart":
            return True
        if depth == 0 or t.cls in ("Controller", "Model"):
            return False          # (only free helper functions of the solver module are looked through, not the controller's own methods)
        return any(reaches_restart(t2, depth - 1) for c2 in eng.calls_in(t) for t2 in c2.targets)
    restart_nodes = set(cfg.cfg_node(ci.node) for ci in eng.calls_in(sm) if any(reaches_restart(t) for t in ci.targets))

    evar = "exit_info"

    def node_fn(n, s):
        cnt, rs, ei = s
        if n == head:
            return [(0, False, ei)]
        d = cfg.g.nodes[n]
        if d["kind"] == "stmt":
            st = d["ast"]
            inc = _is_incr_of(st, var)
            if inc == 1:
                cnt = min(cnt + 1, 3)
            elif inc is not None:
                cnt = 3
            if n in restart_nodes:
                rs = True
            if isinstance(st, ast.Assign):
                for t in st.targets:
                    if isinstance(t, ast.Name) and t.id == evar:
                        if is_none(st.value):
                            ei = "N"
                        elif isinstance(st.value, ast.Call) and eng.res.calls[id(st.value)].kind == "CTOR":
                            ei = "S"
                        else:
                            ei = "M"
                    elif isinstance(t, (ast.Tuple, ast.List)) and evar in assigned_names(t):
                        ei = "M"
        return [(cnt, rs, ei)]

    def edge_fn(a, b, e, s):
        if cfg.kind(a) == "cond" and e["label"] in (True, False):
            at = atom_of(cfg.ast_of(a), e["label"])
            if isinstance(at.lhs, ast.Name) and at.lhs.id == evar and is_none(at.rhs):
                if at.op == "isnot":
                    return None if s[2] == "N" else (s[0], s[1], "S")
                if at.op == "is":
                    return None if s[2] == "S" else (s[0], s[1], "N")
        return s

    fl = Flow(cfg, (0, False, "M"), node_fn, edge_fn)
    _LAST_FLOW["nruns"] = (sm, cfg, fl)
    nb = nc = nr = 0
    for n, d in sorted(cfg.g.nodes(data=True)):
        if d["kind"] != "stmt":
            continue
        st = d["ast"]
        site = eng.where(sm, st)
        states = fl.states(n)
        if d.get("jump") == "break" and _innermost_loop(cfg, n) == head:
            nb += 1
            bad = [s for s in states if s[0] > 1]
            if bad:
                rep.bad(rule, site, "solver.solve_main|break-with-%d-increments|%s" % (bad[0][0], _prev_call(cfg, n)),
                        "a run ends here with %d increments of %s on the path (must be exactly 1)" % (bad[0][0], var), path=cfg.describe_path(fl.path_to(n, bad[0]))[-14:])
            elif any(s[0] == 0 for s in states):
                # the increment may follow the loop (one statement after `while True:` instead of one before each break): judged at the return
                rep.note(rule, site, "run ends here with no increment of %s yet: the count is judged at the return after the loop" % var)
            else:
                rep.ok(rule, site, "run ends with exactly one increment of %s" % var)
        elif d.get("jump") == "continue" and _innermost_loop(cfg, n) == head:
            nc += 1
            bad = [s for s in states if (s[0] != 1 if s[1] else s[0] != 0)]
            if bad:
                b0 = bad[0]
                rep.bad(rule, site, "solver.solve_main|continue-%s-with-%d-increments|%s" % ("after-restart" if b0[1] else "plain", b0[0], _prev_call(cfg, n)),
                        "next iteration starts %s with %d increments of %s (must be %d)" % ("after a soft restart" if b0[1] else "without a restart", b0[0], var, 1 if b0[1] else 0),
                        path=cfg.describe_path(fl.path_to(n, b0))[-14:])
            else:
                rep.ok(rule, site, "iteration continues with %s" % ("one increment after the soft restart" if any(s[1] for s in states) else "no increment"))
        elif isinstance(st, ast.Return) and isinstance(st.value, ast.Tuple) and len(st.value.elts) > pos:
            nr += 1
            e = st.value.elts[pos]
            add = None
            if isinstance(e, ast.Name) and e.id == var:
                add = 0
            elif isinstance(e, ast.BinOp) and isinstance(e.op, ast.Add) and ekey(e.left) == var and const_value(e.right) == 1:
                add = 1
            if add is None:
                rep.bad(rule, site, "solver.solve_main|nruns-return-shape", "returned run count `%s` is neither %s nor %s + 1" % (ekey(e), var, var))
                continue
            after_loop = cfg.path_avoiding(head, n, []) is not None
            bad = [s for s in states if s[0] + add != 1]
            if bad:
                rep.bad(rule, site, "solver.solve_main|return-counts-%d|%s" % (bad[0][0] + add, "after-loop" if after_loop else _prev_call(cfg, n)),
                        "a single run is reported as %d runs: %d increment(s) on the path and the return adds %d" % (bad[0][0] + add, bad[0][0], add),
                        path=cfg.describe_path(fl.path_to(n, bad[0]))[-14:])
            else:
                rep.ok(rule, site, "this run is counted exactly once (increments on path + return expression)")
    rep.require_count(rule, "breaks of the main loop", nb, tables.MIN_COUNTS["solve_main_breaks"])
    rep.require_count(rule, "continues of the main loop", nc, tables.MIN_COUNTS["solve_main_continues"])
    rep.require_count(rule, "returns of solve_main", nr, 3)
    # soln.nruns
    from .c02 import final_ctor
    ci, b = final_ctor(eng, A)
    e = b.params.get("nruns")
    names_ok = isinstance(e, ast.Name)
    if names_ok:
        defs = scfg.defs_reaching(e, e.id)
        for dn in defs:
            dst = scfg.ast_of(dn)
            if not (isinstance(dst, ast.Assign) and isinstance(dst.targets[0], (ast.Tuple, ast.List)) and assigned_names(dst.targets[0])[pos] == e.id):
                names_ok = False
    if names_ok:
        rep.ok(rule, eng.where(solve, ci.node), "soln.nruns is the run counter returned by the last solve_main call")
    else:
        rep.bad(rule, eng.where(solve, ci.node), "solver.solve|soln-nruns-origin", "soln.nruns is not the run counter returned by solve_main")


_LAST_FLOW = {}


def thorough(eng, rep):
    """Thorough tier: one witness path per (exit site, state) pair of the run-counting data-flow, written to the evidence."""
    if "nruns" not in _LAST_FLOW:
        return
    sm, cfg, fl = _LAST_FLOW["nruns"]
    wit = []
    pairs = 0
    for n, d in sorted(cfg.g.nodes(data=True)):
        if d["kind"] == "stmt" and (d.get("jump") in ("break", "continue") or isinstance(d["ast"], ast.Return)):
            for s in sorted(fl.states(n), key=str):
                pairs += 1
                if len(wit) < 90:
                    p = fl.path_to(n, s)
                    wit.append({"exit": cfg.describe(n), "state": {"increments_since_iteration_entry": s[0], "soft_restart_on_path": s[1], "exit_info": s[2]},
                                "witness_path_length": len(p), "witness_tail": cfg.describe_path(p)[-6:]})
    rep.extra["exit_site_state_pairs"] = pairs
    rep.extra["witness_paths"] = wit
    rep.explain("Thorough tier: %d distinct (exit site, state) pairs of the fully correlated run-counting data-flow over solve_main, one witness path each." % pairs)


def _innermost_loop(cfg, n):
    """Head of the innermost loop containing node n (by CFG: smallest loop body containing n)."""
    best = None
    best_size = None
    for (h, kind, st) in cfg.loops:
        body = set(ast.walk(st)) if False else None
        # membership by AST containment of the statement
        stn = cfg.stmt_of(n)
        inside = False
        for sub in ast.walk(st):
            if sub is stn:
                inside = True
                break
        if inside and sub is not st:
            size = getattr(st, "end_lineno", 0) - getattr(st, "lineno", 0)
            if best is None or size < best_size:
                best, best_size = h, size
    return best


def rule_last_successful_run_is_a_run_number(eng, rep, rule="C10-4b.the-last-successful-run-is-a-run-number"):
    """'Reached maximum number of unsuccessful restarts' is decided from `nruns - last_successful_run`.  That difference counts runs only if `last_successful_run` holds
    a run number: every store is the literal 0 (no run yet) or the run counter handed to the method, without arithmetic -- an off-by-one here lets the message appear one
    run early / late."""
    n = 0
    for fi in eng.prog.functions.values():
        for node in eng.prog.own_nodes(fi):
            if isinstance(node, ast.Assign) and any(isinstance(t, ast.Attribute) and t.attr == "last_successful_run" for t in node.targets):
                n += 1
                v = node.value
                site = eng.where(fi, node)
                if const_value(v) == 0 or (isinstance(v, ast.Name) and v.id in fi.all_params and "run" in v.id.lower()):
                    rep.ok(rule, site, "last_successful_run = %s" % short(v, 30))
                else:
                    rep.bad(rule, site, "%s|last-successful-run-not-a-run-number|%s" % (fi.fid, short(v, 30)),
                            "`last_successful_run = %s`: not the run counter itself (or the initial 0): the count of unsuccessful runs is off" % short(v))
    rep.require_count(rule, "stores to last_successful_run", n, 2)


def run(eng, rep):
    rep.explain("C10: for every ExitInformation construction whose message states a fact (small objective, rho reached rhoend, MAXFUN, "
                "unsuccessful restarts) the fact is a control dependence of the construction, or -- where a message is conditionally overwritten "
                "(soft_restart) -- is entailed by the path condition, decided by truth table over the atoms of the function with complementary "
                "comparisons identified; counting data-flow proves exactly one nruns increment per run end on every break/continue/return of "
                "solve_main (T3) and the threading of the run counter through solve (T4).")
    rep.explain("Also decided: rho is never below rhoend (interval reasoning over reduce_rho and the parameter table, C10-2b), hence 'rho has reached rhoend' is built at equality; on every path to the one result constructor a success flag implies a tested-finite objective (typestate, C10-6); the tested value may be accumulated in a local (every reaching definition expanded, C10-1); tested means are over the samples run (C10-1c).")
    rep.not_decided += ["whether soln.obj is the small value when averaging noise re-orders points",
                        ]
    rep.guarded(rule_messages, eng, rep)
    rep.guarded(rule_last_successful_run_is_a_run_number, eng, rep)
    # 'rho has reached rhoend' is built under not (rho > rhoend) (C10-2); together with rho >= rhoend (interval reasoning over reduce_rho and the parameter
    # table, shared with C18-8) the lower bound *equals* rhoend at that point
    from .c18 import rule_rho_between_rhoend_and_rhobeg
    rep.guarded(rule_rho_between_rhoend_and_rhobeg, eng, rep, rule="C10-2b.rho-is-never-below-rhoend")
    rep.guarded(rule_success_needs_finite_objective, eng, rep)
    rep.guarded(rule_nruns, eng, rep)
    from .records import rule_mean_over_samples_run
    rep.guarded(rule_mean_over_samples_run, eng, rep, "C10-1c.tested-value-is-the-mean-over-the-samples-actually-run")
