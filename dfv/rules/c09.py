"""C09 -- general convex constraints hold at every evaluation up to Dykstra's tolerance (structural clauses).

Decided: with projections every evaluated point (x0 included) is a direct Dykstra output whose last projector is the
box built from copies of the user's bounds; the projection list is a fresh list, the box is appended after every user
projector and the list is never mutated afterwards; scaling is off whenever projections are given; the x0 projection
post-dates the graceful input-error return.
"""
import ast

from ..loader import AnalysisError, ekey
from .. import frames
from .anchors import anchors
from .common import short, mentions
from .c01 import rule_routing, REQUIRED, required_facts


def rule_projection_list(eng, rep, rule="C09-2.bound-box-projected-last-and-never-mutated"):
    solve = eng.fn("solver.solve")
    cfg = eng.cfg(solve)
    # all mutations of lists that may hold user projections, anywhere in the package
    nmut = 0
    appended_in_solve = []
    for fi in eng.prog.functions.values():
        for ci in eng.calls_in(fi):
            f = ci.node.func
            if ci.kind == "METHOD" and ci.libname in ("append", "insert", "extend", "pop", "remove", "sort", "reverse", "clear") and isinstance(f, ast.Attribute):
                atoms = eng.res.ev(fi, f.value)
                if not any(a == ("L", ("U", "proj")) for a in atoms):
                    continue
                nmut += 1
                site = eng.where(fi, ci.node)
                if fi.fid == solve.fid and ci.libname == "append":
                    appended_in_solve.append(ci)
                    continue
                # a mutation of a *copy* made in the same function is fine (ctrsbox_* append the trust-region ball to list(projections))
                if isinstance(f.value, ast.Name) and _is_fresh_copy(eng, fi, f.value):
                    rep.ok(rule, site, "mutates a fresh copy (`%s = list(...)`), not the solver's projection list" % f.value.id)
                else:
                    rep.bad(rule, site, "%s|projection-list-mutated|%s" % (fi.fid, ci.libname),
                            "`%s` mutates a list that may be the solver's projection list: the bound box is no longer guaranteed to be projected last" % short(ci.node, 50))
    if len(appended_in_solve) != 1:
        rep.bad(rule, eng.where(solve), "solver.solve|box-projector-append-count-%d" % len(appended_in_solve), "expected exactly one append (the bound box) to the projection list in solve, found %d" % len(appended_in_solve))
        return
    ci = appended_in_solve[0]
    lst = ci.node.func.value
    site = eng.where(solve, ci.node)
    if isinstance(lst, ast.Name) and _is_fresh_copy(eng, solve, lst):
        rep.ok(rule, site, "the box projector is appended to a fresh list(projections): the caller's list is untouched and every user projector precedes the box")
    else:
        rep.bad(rule, site, "solver.solve|box-appended-to-callers-list", "the box projector is appended to a list that is not a fresh copy of the caller's projections")
    # the appended callable clamps against copies of the user's bounds taken before xl/xu are overwritten: decided by frames
    for c in frames.CONFIGS + frames.ONE_SIDED:
        if not c.proj:
            continue
        it = frames.analyse(eng, c)
        pl = it.fields.get(("Model", "projections"))
        if pl is None or pl.k != "list" or not pl.items:
            rep.unknown(rule, "Model.projections [%r]" % c, "projection list not tracked by the frame analysis")
            continue
        last = pl.items[-1]
        if last.k == "obj" and eng.prog.classes.get(last.tag) is not None and "__call__" in eng.prog.classes[last.tag].methods:
            sub = eng.prog.classes[last.tag].methods["__call__"]        # a callable object instead of a closure
            probe = it.invoke({"fi": sub, "rets": []}, None, sub, [last, frames.vec("?", tag="probe")], {}, None)
        elif last.k != "closure" or last.tag not in it.closures:
            rep.bad(rule, "Model.projections [%r]" % c, "solver.solve|last-projector-not-the-box", "the last projector of the solver's list is not the box built in solve")
            continue
        else:
            sub, cenv = it.closures[last.tag]
            probe = it.invoke({"fi": sub, "rets": []}, None, sub, [frames.vec("?", tag="probe")], {}, cenv.now())
        if frames.is_vec(probe) and required_facts(c) <= set(probe.ex):
            rep.ok(rule, "Model.projections [%r]" % c, "last projector `%s` clamps against the user's bounds (%s); %d user projector(s) before it" % (short(sub.node, 40), ", ".join("%s:%s" % f for f in sorted(required_facts(c))), len(pl.items) - 1))
        else:
            rep.bad(rule, "Model.projections [%r]" % c, "solver.solve|box-projector-not-true-box", "last projector `%s` does not clamp against copies of the user's bounds (facts %s)" % (short(sub.node, 40), sorted(probe.ex) if frames.is_vec(probe) else probe.k))
        for p in pl.items[:-1]:
            if p.k != "user":
                rep.bad(rule, "Model.projections [%r]" % c, "solver.solve|non-user-projector-before-box", "a non-user projector precedes the box")
    rep.require_count(rule, "mutations of projection lists inspected", nmut, 2)      # the box append in solve + at least one trust-region-ball append (today 4: three step routines build their own list)


def _is_fresh_copy(eng, fi, name_node):
    cfg = eng.cfg(fi)
    defs = cfg.defs_reaching(name_node, name_node.id)
    ok = bool(defs)
    for dn in defs:
        st = cfg.ast_of(dn)
        fresh = isinstance(st, ast.Assign) and isinstance(st.value, ast.Call) and isinstance(st.value.func, ast.Name) and st.value.func.id == "list"
        fresh = fresh or (isinstance(st, ast.Assign) and isinstance(st.value, ast.List))
        # weak updates by earlier appends on the same fresh list are fine
        if not fresh and isinstance(st, ast.Expr) and isinstance(st.value, ast.Call) and isinstance(st.value.func, ast.Attribute) and st.value.func.attr == "append":
            fresh = True
        if not fresh:
            ok = False
    return ok


def rule_scaling_off_with_projections(eng, rep, rule="C09-5.scaling-off-whenever-projections-are-given"):
    it = frames.Interp(eng, frames.Config(True, True, False)).run()
    sc = it.fields.get(("Controller", "scaling_changes"))
    if sc is None:
        rep.unknown(rule, "Controller.scaling_changes", "field not reached by the analysis")
    elif sc.k == "none":
        rep.ok(rule, "solver.solve", "with projections given and scaling_within_bounds=True the interpreter finds scaling_changes is None on every path (the request is overridden)")
    else:
        rep.bad(rule, "solver.solve", "solver.solve|scaling-active-with-projections", "scaling can be active together with projections: user projections (user coordinates) would be applied to scaled points")


def rule_evaluations_are_dykstra_outputs(eng, rep, rule="C09-1.every-evaluated-point-is-a-direct-dykstra-output"):
    A = anchors(eng)
    n = 0
    for c in frames.CONFIGS + frames.ONE_SIDED:
        if not c.proj:
            continue
        it = frames.analyse(eng, c)
        seen = set()
        for (role, fi, node, x) in it.sink_obs:
            if role != "objfun":
                continue
            key = (x.why, tuple(sorted(x.ex)))
            if key in seen:
                continue
            seen.add(key)
            n += 1
            if required_facts(c) <= set(x.ex):
                rep.ok(rule, "x handed to objfun [%r]" % c, "value is the un-modified output of a Dykstra call whose last projector is the true box")
            else:
                rep.bad(rule, "x handed to objfun [%r]" % c, "not-a-dykstra-output|%s" % (x.why or "never projected")[:80],
                        "with projections an evaluated point is not a direct Dykstra output: %s" % (x.why or "never projected"))
    rep.require_count(rule, "distinct evaluation-point provenances with projections", n, 2)
    # the producer's projection branch (a producer may delegate to another producer: `return self.as_absolute_coordinates(...)`)
    producers = ("model.Model.as_absolute_coordinates", "model.Model.xpt")
    direct = {}
    for fid in producers:
        fi = eng.fn(fid)
        direct[fid] = []
        for r in eng.prog.own_nodes(fi):
            if isinstance(r, ast.Return) and isinstance(r.value, ast.Call):
                tf = set(t.fid for t in eng.res.calls[id(r.value)].targets)
                if "util.dykstra" in tf:
                    direct[fid].append(("dykstra", r))
                elif tf & (set(producers) - {fid}):
                    direct[fid].append(("delegates:%s" % sorted(tf & set(producers))[0], r))
    for fid in producers:
        fi = eng.fn(fid)
        found = False
        for (kind, r) in direct[fid]:
            if kind == "dykstra":
                found = True
                a0 = r.value.args[0] if r.value.args else None
                if a0 is not None and "projections" in mentions(a0):
                    rep.ok(rule, eng.where(fi, r), "projection branch returns dykstra(self.projections, ...) itself")
                else:
                    rep.bad(rule, eng.where(fi, r), "%s|dykstra-over-other-list" % fid, "dykstra is not run over the solver's projection list")
            elif any(k == "dykstra" for (k, _r) in direct[kind.split(":", 1)[1]]):
                found = True
                rep.ok(rule, eng.where(fi, r), "returns the result of %s, whose projection branch returns the dykstra(...) result itself" % kind.split(":", 1)[1])
        if not found:
            rep.bad(rule, eng.where(fi), "%s|no-dykstra-branch" % fid, "no branch returns a dykstra(...) result")


def rule_at_least_one_sweep(eng, rep, rule="C09-6.every-dykstra-call-performs-at-least-one-sweep"):
    """The frame analysis (and the statement) rely on the result of dykstra being a projector output.  With zero sweeps dykstra returns its input.
    Every call site must therefore run >= 1 sweep: the iteration limit is the default / a literal >= 1 / a parameter whose table lower bound is >= 1."""
    from ..norm import const_value
    from ..resolve import bind_call
    from .common import param_key
    from .c07 import param_registry
    dy = eng.fn("util.dykstra")
    lim = None
    for p_ in dy.all_params:
        if "iter" in p_:
            lim = p_
    if lim is None:
        raise AnalysisError("dykstra has no iteration-limit parameter")
    defaults, typed = param_registry(eng)
    dflt = const_value(dy.defaults.get(lim))
    n = 0

    def lower_bound(eng, fi, e, depth=0):
        """Static lower bound of an iteration-limit expression, or None."""
        c = const_value(e)
        if c is not None:
            return c
        if isinstance(e, ast.Call):
            k = param_key(eng, e)
            if k is not None:
                tup = typed.get(k)
                return const_value(tup.elts[2]) if tup is not None and len(tup.elts) == 4 else None
        if isinstance(e, ast.Name) and depth < 3:
            # a parameter of the enclosing routine: minimum over what its callers pass
            owner = fi
            while owner is not None and e.id not in owner.all_params:
                owner = owner.parent
            if owner is None:
                return None
            vals = []
            if e.id in owner.defaults and any(True for _ in [0]):
                pass
            for ci in eng.res.callers.get(owner.fid, []):
                for (t, bound) in eng.res.call_targets(ci.caller, ci.node):
                    if t.fid != owner.fid:
                        continue
                    b = bind_call(ci.node, t, bound and t.is_method)
                    a = b.params.get(e.id)
                    if a is None:
                        return None
                    vals.append(lower_bound(eng, ci.caller, a[1] if isinstance(a, tuple) else a, depth + 1))
            if vals and all(v is not None for v in vals):
                return min(vals)
        return None

    for ci in eng.calls_to(dy.fid):
        n += 1
        b = bind_call(ci.node, dy, False)
        a = b.params.get(lim)
        site = eng.where(ci.caller, ci.node)
        lb = dflt if isinstance(a, tuple) or a is None else lower_bound(eng, ci.caller, a)
        if lb is not None and lb >= 1:
            rep.ok(rule, site, "iteration limit `%s` >= %s" % ("default" if isinstance(a, tuple) or a is None else ekey(a)[:40], lb))
        else:
            rep.bad(rule, site, "%s|dykstra-may-run-zero-sweeps|%s" % (ci.caller.fid, "default" if isinstance(a, tuple) or a is None else ekey(a)[:30]),
                    "this dykstra call can run zero sweeps (iteration limit `%s` has lower bound %s): it then returns its input unprojected" % (ekey(a)[:40] if a is not None and not isinstance(a, tuple) else "default", lb))
    rep.require_count(rule, "dykstra call sites", n, 3)      # x0 projection, the clamp of evaluated points, one step routine (today 8)


def run(eng, rep):
    rep.explain("C09: frame/exactness interpretation under the two configurations with projections: every x handed to objfun (x0 included) is the unmodified "
                "output of a Dykstra call whose last projector clamps against copies of the user's bounds; T11 inventory of every mutation of a list that may hold "
                "user projections (only fresh copies are mutated; solve appends the box once, to a fresh list); scaling is None whenever projections are given "
                "(interpreter run with both requested).")
    rep.explain('Also decided: every Dykstra call performs at least one sweep (C09-6); dykstra never re-assigns its tolerance / sweep limit (C09-3b); one-sided bound patterns with projections.')
    rep.not_decided += ["the sqrt(p*tol) distance bound itself (numerical; its structural premises are C15-3/4)"]
    rep.note("C09", "dfols/model.py", "Model calls dykstra with its default max_iter/tol rather than the dykstra.* parameters (observation, not part of the statement)")
    rep.guarded(rule_evaluations_are_dykstra_outputs, eng, rep)
    rep.guarded(rule_projection_list, eng, rep)
    rep.guarded(rule_scaling_off_with_projections, eng, rep)
    rep.guarded(rule_at_least_one_sweep, eng, rep)
    from .c15 import rule_limits_are_the_callers, rule_projector_argument_is_not_reused, rule_complete_sweeps
    from ..loader import AnalysisError
    for (r, rid) in ((rule_complete_sweeps, "C09-3d.dykstra-stops-only-after-the-last-set"), (rule_limits_are_the_callers, "C09-3b.dykstra-tests-the-callers-tolerance"),
                     (rule_projector_argument_is_not_reused, "C09-3c.the-point-handed-to-a-projector-is-not-read-again")):
        try:
            r(eng, rep, rule=rid)
        except AnalysisError as ex:
            rep.unknown(rid, "dfols/util.py:dykstra", str(ex))
