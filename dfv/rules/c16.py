"""C16 -- interpolation models survive updates and base shifts (structural clauses: cache invalidation typestate,
ownership of Model state, affine invariance under shift_base).  Interpolation identities are numerical and not decided."""
import ast

import networkx as nx

from ..loader import AnalysisError, ekey
from ..norm import is_none
from ..dataflow import Flow
from .. import affine
from .common import mentions, short, guards_of

FLAG = "factorisation_current"


def _self_field_reads(eng, fi):
    selfn = fi.posparams[0] if fi.posparams else None
    out = set()
    for node in eng.prog.own_nodes(fi):
        if isinstance(node, ast.Attribute) and isinstance(node.value, ast.Name) and node.value.id == selfn and isinstance(node.ctx, ast.Load):
            if (fi.cls, node.attr) in eng.res.stored_fields:
                out.add(node.attr)
    return out


def read_set(eng):
    """Fields of Model that the interpolation matrix depends on (transitively through the call graph)."""
    root = eng.fn("model.Model.interpolation_matrix")
    reach = eng.res.reachable_from(root.fid)
    fields = set()
    for fid in reach:
        fi = eng.prog.functions[fid]
        if fi.cls == "Model":
            fields |= _self_field_reads(eng, fi)
    return fields, reach


def _written_field(t, selfn):
    root = t
    while isinstance(root, ast.Subscript):
        root = root.value
    if isinstance(root, ast.Attribute) and isinstance(root.value, ast.Name) and root.value.id == selfn:
        return root.attr
    return None


def rule_invalidation(eng, rep, rule="C16-1.every-mutation-invalidates-the-cached-factorisation"):
    fields, reach = read_set(eng)
    fields -= {FLAG}
    if not rep.require_count(rule, "fields the interpolation matrix depends on", len(fields), 5):
        return
    rep.extra["interpolation_matrix_read_set"] = sorted(fields)
    model = eng.prog.cls("Model")
    if ("Model", FLAG) not in eng.res.stored_fields:
        raise AnalysisError("anchor field Model.%s vanished" % FLAG)
    nwriters = 0
    for m in sorted(model.methods.values(), key=lambda f: f.qualname):
        selfn = m.posparams[0] if m.posparams else None
        cfg = eng.cfg(m)
        writes = {}
        clears, sets_true = set(), set()
        for n, d in cfg.g.nodes(data=True):
            st = d["ast"]
            if d["kind"] != "stmt":
                continue
            tg = st.targets if isinstance(st, ast.Assign) else ([st.target] if isinstance(st, ast.AugAssign) else [])
            for t in tg:
                for tt in (t.elts if isinstance(t, (ast.Tuple, ast.List)) else [t]):
                    f = _written_field(tt, selfn)
                    if f == FLAG:
                        if isinstance(st, ast.Assign) and isinstance(st.value, ast.Constant) and st.value.value is False:
                            clears.add(n)
                        else:
                            sets_true.add(n)
                    elif f in fields:
                        writes.setdefault(n, set()).add(f)
        if sets_true:
            _check_setter(eng, rep, rule, m, cfg, sets_true)
        if not writes:
            continue
        nwriters += 1

        def node_fn(n, s, writes=writes, clears=clears, sets_true=sets_true):
            # s: 'T' flag may be True, 'F' flag is False, 'D:<fields>' written while the flag may be True and not cleared since
            if n in writes:
                return [s if s == "F" else "D:" + ",".join(sorted(writes[n]))]
            if n in clears:
                return ["F"]
            if n in sets_true:
                return ["T"]
            return [s]

        fl = Flow(cfg, "F" if m.qualname.endswith(".__init__") else "T", node_fn)
        bad = [s for s in fl.states(cfg.exit) if s.startswith("D:")]
        site = eng.where(m)
        if bad:
            p = fl.path_to(cfg.exit, bad[0])
            rep.bad(rule, site, "%s|mutation-without-invalidation|%s" % (m.fid, bad[0][2:]),
                    "%s writes %s (which the interpolation matrix depends on) and can return with %s still True: the next Lagrange/interpolation solve uses a stale factorisation"
                    % (m.qualname, bad[0][2:], FLAG), path=cfg.describe_path(p)[-10:])
        else:
            rep.ok(rule, site, "writes %s and clears %s on every path to the exit" % (sorted(set(f for v in writes.values() for f in v)), FLAG))
    rep.require_count(rule, "Model methods that write the read-set", nwriters, 4)


def _check_setter(eng, rep, rule, m, cfg, sets_true):
    site = eng.where(m)
    if m.fid != "model.Model.factorise_geom_system":
        rep.bad(rule, site, "%s|sets-flag-true" % m.fid, "%s sets %s to a value other than False: only factorise_geom_system may validate the cache" % (m.qualname, FLAG))
        return
    selfn = m.posparams[0]
    for n in sets_true:
        # dominated by a fresh interpolation_matrix() call and by an assignment of Q, R on every path
        fresh = [x for x, d in cfg.g.nodes(data=True) if d["kind"] == "stmt" and isinstance(d["ast"], ast.Assign) and isinstance(d["ast"].value, ast.Call)
                 and any(t.fid == "model.Model.interpolation_matrix" for t in eng.res.calls[id(d["ast"].value)].targets)]
        qr = [x for x, d in cfg.g.nodes(data=True) if d["kind"] == "stmt" and isinstance(d["ast"], ast.Assign)
              and {"Q", "R"} <= set(_written_field(e, selfn) for t in d["ast"].targets for e in (t.elts if isinstance(t, (ast.Tuple, ast.List)) else [t]))]
        ok1 = bool(fresh) and cfg.path_avoiding(cfg.entry, n, fresh) is None
        ok2 = bool(qr) and cfg.path_avoiding(cfg.entry, n, qr) is None
        if ok1 and ok2:
            rep.ok(rule, eng.where(m, cfg.ast_of(n)), "%s = True only after Q, R were computed from a freshly built interpolation matrix" % FLAG)
        else:
            rep.bad(rule, eng.where(m, cfg.ast_of(n)), "%s|validates-without-refactorising" % m.fid, "the cache can be marked current without recomputing Q, R from a fresh matrix")


def rule_ownership(eng, rep, rule="C16-2.only-Model-writes-Model-state"):
    n = 0
    for fi in eng.prog.functions.values():
        if fi.cls == "Model":
            continue
        for node in eng.prog.own_nodes(fi):
            tg = node.targets if isinstance(node, ast.Assign) else ([node.target] if isinstance(node, ast.AugAssign) else [])
            for t in tg:
                for tt in (t.elts if isinstance(t, (ast.Tuple, ast.List)) else [t]):
                    root = tt
                    while isinstance(root, ast.Subscript):
                        root = root.value
                    if isinstance(root, ast.Attribute) and any(a == ("C", "Model") for a in eng.res.ev(fi, root.value)):
                        n += 1
                        rep.bad(rule, eng.where(fi, node), "%s|writes-Model.%s" % (fi.fid, root.attr), "Model.%s is written outside the class: the invalidation rule cannot see this writer" % root.attr)
            # in-place mutation through methods
            if isinstance(node, ast.Call) and isinstance(node.func, ast.Attribute) and node.func.attr in ("fill", "sort", "resize", "put", "itemset"):
                r = node.func.value
                while isinstance(r, ast.Subscript):
                    r = r.value
                if isinstance(r, ast.Attribute) and any(a == ("C", "Model") for a in eng.res.ev(fi, r.value)):
                    rep.bad(rule, eng.where(fi, node), "%s|mutates-Model.%s" % (fi.fid, r.attr), "Model.%s is mutated in place outside the class" % r.attr)
    if n == 0:
        rep.ok(rule, "package", "no attribute store on a Model receiver outside class Model")
    # positive control: the matcher sees Controller's own stores on Model-typed receivers' owner (self.model = Model(...))
    ctrl_stores = sum(1 for fi in eng.prog.functions.values() if fi.cls == "Controller" for node in eng.prog.own_nodes(fi)
                      if isinstance(node, ast.Assign) and any(isinstance(t, ast.Attribute) for t in node.targets))
    rep.require_count(rule, "attribute stores seen in Controller (matcher alive)", ctrl_stores, 10)


def rule_shift_affine(eng, rep, rule="C16-3.base-shift-is-an-affine-no-op"):
    sb = eng.fn("model.Model.shift_base")
    selfn = sb.posparams[0]
    se = affine.SymExec(linear_ops={"%s.model_jac" % selfn: "J"})
    try:
        paths = se.run_paths(sb.node.body)
    except AnalysisError as ex:
        rep.unknown(rule, eng.where(sb), str(ex))
        return
    site = eng.where(sb)
    # every path through the method's `if` statements is judged (the tests are not interpreted); an invariant that holds on some paths and fails on others
    # is undecided (the failing branch may be infeasible), one that fails on every path is a violation
    verdicts = {}
    for pse in paths:
        st = pse.state
        X0 = affine.sym("%s.xbase" % selfn)
        X1 = st.get("%s.xbase" % selfn, X0)
        C0 = affine.sym("%s.model_const" % selfn)
        C1 = st.get("%s.model_const" % selfn, C0)
        P0 = affine.sym("%s.points[*]" % selfn)
        P1 = st.get("%s.points[*]" % selfn, P0)
        s = affine.sym("s_abs")
        # model value at a fixed absolute point s:  c + J (s - xbase)
        before = affine.add(C0, affine.apply("J", affine.add(s, X0, -1)))
        after = affine.add(C1, affine.apply("J", affine.add(s, X1, -1)))
        verdicts.setdefault("model-value-changes", []).append((before == after, "model_const + J.(s - xbase) for a fixed absolute s", affine.fmt(before), affine.fmt(after)))
        # residual at an interpolation point (enters the assembled gradient/Hessian):  c + J.points[k]
        before = affine.add(C0, affine.apply("J", P0))
        after = affine.add(C1, affine.apply("J", P1))
        verdicts.setdefault("assembled-model-changes", []).append((before == after, "model_const + J.points[k] (the assembled gradient 2 J'r and Hessian 2 J'J)", affine.fmt(before), affine.fmt(after)))
        jw = "%s.model_jac" % selfn in st and st["%s.model_jac" % selfn] != affine.sym("%s.model_jac" % selfn)
        verdicts.setdefault("jacobian-written", []).append((not jw, "the Jacobian is not written", "J", "written"))
    for key, vs in verdicts.items():
        oks = [v for v in vs if v[0]]
        if len(oks) == len(vs):
            rep.ok(rule, site, "%s is unchanged on %s (%s)" % (vs[0][1], "the one path" if len(vs) == 1 else "all %d paths" % len(vs), vs[0][3] if key != "jacobian-written" else "no store"))
        elif not oks:
            b = vs[0]
            rep.bad(rule, site, "model.Model.shift_base|%s" % key, "%s changes under shift_base%s: before %s, after %s" % (b[1], "" if len(vs) == 1 else " on every path", b[2], b[3]))
        else:
            b = [v for v in vs if not v[0]][0]
            rep.unknown(rule, site, "%s is preserved on %d of %d paths through shift_base and changes on the others (before %s, after %s): the tests are not interpreted" % (b[1], len(oks), len(vs), b[2], b[3]))
    # shift_base must itself invalidate (covered by C16-1) and be given a relative vector: its call sites pass xopt()
    for ci in eng.calls_to(sb.fid):
        a = ci.node.args[0] if ci.node.args else None
        fi = ci.caller
        cfg = eng.cfg(fi)
        okc = False
        if isinstance(a, ast.Call) and ekey(a.func).endswith("xopt") and not a.args and not a.keywords:
            okc = True
        elif isinstance(a, ast.Name):
            defs = cfg.defs_reaching(a, a.id)
            okc = bool(defs) and all(isinstance(cfg.ast_of(d), ast.Assign) and isinstance(cfg.ast_of(d).value, ast.Call) and ekey(cfg.ast_of(d).value.func).endswith("xopt")
                                     and not cfg.ast_of(d).value.keywords for d in defs)
        if okc:
            rep.ok(rule, eng.where(fi, ci.node), "shift is the incumbent's relative position xopt()")
        else:
            rep.bad(rule, eng.where(fi, ci.node), "%s|shift-argument|%s" % (fi.fid, short(a, 30)), "shift_base is called with `%s`, not with the relative position xopt()" % short(a))
        # re-basing: relative locals that stay live across the shift must be re-based by the same vector
        _rebase(eng, rep, rule, fi, cfg, ci, a)


def _rebase(eng, rep, rule, fi, cfg, ci, a):
    cn = cfg.cfg_node(ci.node)
    if not isinstance(a, ast.Name):
        return
    # locals defined from xopt() + ... before the shift and used after it
    for n, d in cfg.g.nodes(data=True):
        st = d["ast"]
        if d["kind"] != "stmt" or not isinstance(st, ast.Assign) or len(st.targets) != 1 or not isinstance(st.targets[0], ast.Name):
            continue
        v = st.targets[0].id
        if v == a.id:
            continue
        if not (isinstance(st.value, ast.BinOp) and isinstance(st.value.op, ast.Add) and "xopt" in ekey(st.value.left) and "abs_coordinates" not in ekey(st.value.left)):
            continue
        # is this def live across the shift?
        IN = cfg.reaching_defs()[cn]
        if (v, n) not in IN:
            continue
        used_after = False
        for m2, d2 in cfg.g.nodes(data=True):
            if d2["ast"] is None or m2 == cn:
                continue
            # the use must be reachable from the shift along a path on which `v` is not assigned again (reachability and "the old definition reaches the use"
            # taken separately are satisfied by two different paths when the shift is conditional)
            redefs = [k for k in cfg.g.nodes if k != n and k != m2 and v in cfg.defs_of(k)[0]]
            if cfg.path_avoiding(cn, m2, redefs) is None:
                continue
            st2 = d2["ast"]
            if d2["kind"] == "stmt" and isinstance(st2, ast.Assign) and len(st2.targets) == 1 and isinstance(st2.targets[0], ast.Name) and st2.targets[0].id == v \
                    and isinstance(st2.value, ast.BinOp) and isinstance(st2.value.op, ast.Sub) and ekey(st2.value.left) == v and ekey(st2.value.right) == a.id:
                continue          # this *is* the re-basing (`v = v - shift`), written after the shift instead of before it
            for sub in ast.walk(d2["ast"]) if d2["kind"] in ("stmt", "cond") else []:
                if isinstance(sub, ast.Name) and sub.id == v and isinstance(sub.ctx, ast.Load) and (v, n) in cfg.reaching_defs()[m2]:
                    used_after = True
        if used_after:
            rep.bad(rule, eng.where(fi, ci.node), "%s|relative-local-not-rebased|%s" % (fi.fid, v),
                    "`%s` (relative to the old base point) is still used after shift_base without being re-based by `%s`" % (v, a.id))
        else:
            rep.ok(rule, eng.where(fi, ci.node), "relative local `%s` is re-based (or dead) across the shift" % v)


def rule_no_mutation_through_alias(eng, rep, rule="C16-5.stored-arrays-are-not-modified-through-a-local-alias"):
    """T11 inside the Model class: once a field has been assigned a *view* of a local array (the local itself, a slice, `.T`, reshape, ...), an in-place
    operation on that local (augmented assignment, element store, fill/sort, out=) that is reachable from the store silently rewrites the field -- e.g. the
    fitted Jacobian `self.model_jac = dg[1:, :].T` followed by `dg /= ...` in a diagnostics block."""
    VIEW_METHODS = ("reshape", "ravel", "view", "transpose", "squeeze", "swapaxes")

    def view_root(e):
        """name of the local that e is a view of, or None"""
        if isinstance(e, ast.Name):
            return e.id
        if isinstance(e, ast.Subscript):
            # fancy indexing with a list / array copies; basic slicing and integer indexing give views
            idx = e.slice.elts if isinstance(e.slice, ast.Tuple) else [e.slice]
            if any(isinstance(i, (ast.List, ast.ListComp, ast.Compare)) for i in idx):
                return None
            return view_root(e.value)
        if isinstance(e, ast.Attribute) and e.attr == "T":
            return view_root(e.value)
        if isinstance(e, ast.Call) and isinstance(e.func, ast.Attribute) and e.func.attr in VIEW_METHODS:
            return view_root(e.func.value)
        if isinstance(e, ast.Call) and ekey(e.func) in ("np.asarray", "numpy.asarray", "np.atleast_2d", "np.transpose") and e.args:
            return view_root(e.args[0])
        return None

    def root_name(t):
        while isinstance(t, (ast.Subscript, ast.Attribute)):
            if isinstance(t, ast.Attribute) and t.attr != "T":
                return None
            t = t.value
        return t.id if isinstance(t, ast.Name) else None

    model = eng.prog.cls("Model")
    nstores = 0
    for m in sorted(model.methods.values(), key=lambda f: f.qualname):
        selfn = m.posparams[0] if m.posparams else None
        cfg = eng.cfg(m)
        stores = []       # (cfg node, field, local)
        muts = {}         # local -> [(cfg node, stmt)]
        for n, d in cfg.g.nodes(data=True):
            st = d["ast"]
            if d["kind"] != "stmt":
                continue
            if isinstance(st, ast.Assign):
                for t in st.targets:
                    if isinstance(t, ast.Attribute) and isinstance(t.value, ast.Name) and t.value.id == selfn:
                        r = view_root(st.value)
                        if r is not None and r != selfn and r not in m.all_params:
                            stores.append((n, t.attr, r))
                    elif isinstance(t, ast.Subscript):
                        r = root_name(t)
                        if r:
                            muts.setdefault(r, []).append((n, st))
            elif isinstance(st, ast.AugAssign):
                r = root_name(st.target)
                if r:
                    muts.setdefault(r, []).append((n, st))
            elif isinstance(st, ast.Expr) and isinstance(st.value, ast.Call) and isinstance(st.value.func, ast.Attribute) and st.value.func.attr in ("fill", "sort", "resize", "put", "itemset") \
                    and isinstance(st.value.func.value, ast.Name):
                muts.setdefault(st.value.func.value.id, []).append((n, st))
            for sub in ast.walk(st) if isinstance(st, (ast.Assign, ast.Expr)) else []:
                if isinstance(sub, ast.Call):
                    for kw in sub.keywords:
                        if kw.arg == "out" and isinstance(kw.value, ast.Name):
                            muts.setdefault(kw.value.id, []).append((n, st))
        for (sn, field, local) in stores:
            nstores += 1
            redefs = [k for k in cfg.g.nodes if k != sn and local in cfg.defs_of(k)[0] and not isinstance(cfg.ast_of(k), ast.AugAssign)]
            hit = None
            for (mn, mst) in muts.get(local, []):
                if mn != sn and cfg.path_avoiding(sn, mn, redefs) is not None:
                    hit = (mn, mst)
                    break
            site = eng.where(m, cfg.ast_of(sn))
            if hit is None:
                rep.ok(rule, site, "self.%s is a view of the local `%s`, which is not modified in place afterwards" % (field, local), nontrivial=bool(muts.get(local)))
            else:
                rep.bad(rule, eng.where(m, hit[1]), "%s|in-place-after-store|%s<-%s" % (m.fid, field, local),
                        "`%s` modifies `%s` in place after `%s` made self.%s a view of it: the stored %s changes silently" % (short(hit[1], 50), local, short(cfg.ast_of(sn), 50), field, field))
    rep.require_count(rule, "fields assigned views of locals in Model methods", nstores, 1)


def _loaded_names(e, selfn=None):
    """local names loaded in e; `self.f` counts as the pseudo-name 'self.f', not as a use of `self`"""
    out, skip = set(), set()
    for n in ast.walk(e):
        if selfn and isinstance(n, ast.Attribute) and isinstance(n.value, ast.Name) and n.value.id == selfn and isinstance(n.ctx, ast.Load):
            out.add(selfn + "." + n.attr)
            skip.add(id(n.value))
    for n in ast.walk(e):
        if isinstance(n, ast.Name) and isinstance(n.ctx, ast.Load) and id(n) not in skip:
            out.add(n.id)
    return out


def _depends_on(cfg, expr, at_ast, hit, selfn=None, depth=5):
    """Three-valued: does the value of `expr` (evaluated in statement at_ast) derive, on every path, from a sub-expression accepted by `hit`?
    True / False / None (cannot tell)."""
    if hit(expr):
        return True
    if depth <= 0:
        return None
    verdicts = []
    for nm in sorted(_loaded_names(expr, selfn)):
        if selfn and nm.startswith(selfn + "."):
            field = nm.split(".", 1)[1]
            here = cfg.cfg_node(at_ast)
            vs = []
            for n2, d in cfg.g.nodes(data=True):
                st = d["ast"]
                if d["kind"] == "stmt" and isinstance(st, ast.Assign) and n2 != here and \
                        any(isinstance(t, ast.Attribute) and isinstance(t.value, ast.Name) and t.value.id == selfn and t.attr == field for t in st.targets):
                    if cfg.path_avoiding(n2, here, []) is not None:
                        vs.append((n2, _depends_on(cfg, st.value, st, hit, selfn, depth - 1)))
            if not vs:
                verdicts.append(False)
            elif all(v is True for (_, v) in vs) and any(cfg.dominates(n2, here) for (n2, _) in vs):
                verdicts.append(True)
            elif all(v is False for (_, v) in vs):
                verdicts.append(False)
            else:
                verdicts.append(None)
            continue
        try:
            defs = cfg.defs_reaching(at_ast, nm)
        except Exception:
            return None
        strong, weak_hit = [], False
        for d in defs:
            st = cfg.ast_of(d)
            if cfg.kind(d) == "entry" or st is None:
                strong.append(False)          # a parameter: not the solution
                continue
            if isinstance(st, ast.Assign):
                is_strong = any(isinstance(t, ast.Name) and t.id == nm for t in st.targets) or \
                    any(isinstance(t, (ast.Tuple, ast.List)) and nm in _stored_names(t) for t in st.targets)
                v = _depends_on(cfg, st.value, st, hit, selfn, depth - 1)
                if is_strong:
                    strong.append(v)
                elif v is True:
                    weak_hit = True
            elif isinstance(st, ast.AugAssign):
                v = _depends_on(cfg, st.value, st, hit, selfn, depth - 1)
                if v is True:
                    weak_hit = True
                else:
                    strong.append(None)
            elif cfg.kind(d) == "for":
                strong.append(None)
            else:
                strong.append(False if isinstance(st, (ast.Import, ast.ImportFrom, ast.FunctionDef, ast.ClassDef)) else None)
        if weak_hit or (strong and all(v is True for v in strong)):
            verdicts.append(True)
        elif not defs:
            verdicts.append(False)            # a global / module name
        elif any(v is None for v in strong):
            verdicts.append(None)
        else:
            verdicts.append(False)
    if any(v is True for v in verdicts):
        return True
    if any(v is None for v in verdicts):
        return None
    return False


def _stored_names(t):
    return set(n.id for n in ast.walk(t) if isinstance(n, ast.Name))


def rule_solution_components(eng, rep, rule="C16-6.model-and-Lagrange-coefficients-are-rows-of-the-solved-system"):
    """The interpolation system is W [c; g] = rhs with the column of ones first (Model.interpolation_matrix).  Whatever is fitted -- the model (c, J) or a Lagrange
    polynomial (c_k, g_k) -- both parts must be rows of *one* solution of that system: row 0 the constant, rows 1: the gradient.  A part that does not derive from the
    solution at all (a constant 'known' to be 0/1, a stored value) reproduces the data only when the system is square and consistent; for npt > n+1 (regression) it does not."""
    solve_fid = eng.fn("model.Model.solve_geom_system").fid
    im = eng.fn("model.Model.interpolation_matrix")
    # writer side: which column holds the ones, where do the position columns start?
    ret = [n for n in eng.prog.own_nodes(im) if isinstance(n, ast.Return) and n.value is not None]
    wname = None
    for r in ret:
        v = r.value
        first = v.elts[0] if isinstance(v, ast.Tuple) and v.elts else v
        if isinstance(first, ast.Name):
            wname = first.id
    ones_col, pos_from = None, None
    for n in eng.prog.own_nodes(im):
        if isinstance(n, ast.Assign) and len(n.targets) == 1 and isinstance(n.targets[0], ast.Subscript) and isinstance(n.targets[0].value, ast.Name) and n.targets[0].value.id == wname:
            sl = n.targets[0].slice
            if isinstance(sl, ast.Tuple) and len(sl.elts) == 2 and isinstance(sl.elts[0], ast.Slice) and sl.elts[0].lower is None and sl.elts[0].upper is None:
                col = sl.elts[1]
                if isinstance(col, ast.Constant) and isinstance(col.value, int) and isinstance(n.value, ast.Constant) and n.value.value in (1, 1.0):
                    ones_col = col.value
                elif isinstance(col, ast.Slice) and isinstance(col.lower, ast.Constant) and col.upper is None and col.step is None:
                    pos_from = col.lower.value
    if ones_col is None or pos_from is None:
        rep.unknown(rule, eng.where(im), "layout of the interpolation matrix not recognised (column of ones / first position column)")
        return
    rep.ok(rule, eng.where(im), "writer: column %d of the design matrix is the constant, columns %d: are the positions" % (ones_col, pos_from), nontrivial=False)

    FIT_FIELDS = {"model_jac": "grad", "model_const": "const"}

    def first_axis(sub):
        sl = sub.slice
        return sl.elts[0] if isinstance(sl, ast.Tuple) and sl.elts else sl

    def role_of(sub):
        ax = first_axis(sub)
        if isinstance(ax, ast.Constant) and ax.value == ones_col:
            return "const"
        if isinstance(ax, ast.Slice) and ax.step is None and ax.upper is None and isinstance(ax.lower, ast.Constant) and ax.lower.value == pos_from:
            return "grad"
        return None

    def reads(sol, role):
        """predicate: the expression reads rows of the solution `sol` in the given role (None = any), or hands the whole solution on"""
        def hit(e):
            inside = set()
            for n in ast.walk(e):
                if isinstance(n, ast.Subscript) and isinstance(n.value, ast.Name) and n.value.id == sol:
                    inside.add(id(n.value))
                    if role is None or role_of(n) == role:
                        return True
            return any(isinstance(n, ast.Name) and n.id == sol and id(n) not in inside for n in ast.walk(e))
        return hit

    nreaders = 0
    ncomponents = 0
    for fid in sorted(eng.prog.functions):
        fi = eng.prog.functions[fid]
        sols = []
        for n in eng.prog.own_nodes(fi):
            if isinstance(n, ast.Assign) and isinstance(n.value, ast.Call) and solve_fid in set(t.fid for t in (eng.res.calls.get(id(n.value)).targets if eng.res.calls.get(id(n.value)) else [])):
                if len(n.targets) == 1 and isinstance(n.targets[0], ast.Name):
                    sols.append((n, n.targets[0].id))
                else:
                    rep.unknown(rule, eng.where(fi, n), "solution of the interpolation system is not bound to one local name")
        if not sols:
            continue
        cfg = eng.cfg(fi)
        selfn = fi.posparams[0] if fi.posparams else None
        for (sn, sol) in sols:
            # ---- readers index the solution by the writer's layout
            for n in eng.prog.own_nodes(fi):
                if isinstance(n, ast.Subscript) and isinstance(n.value, ast.Name) and n.value.id == sol and isinstance(n.ctx, ast.Load):
                    try:
                        if not any(cfg.ast_of(d) is sn for d in cfg.defs_reaching(_stmt_of(eng, fi, n), sol)):
                            continue
                    except Exception:
                        pass
                    nreaders += 1
                    ax = first_axis(n)
                    site = eng.where(fi, n)
                    if isinstance(ax, ast.Constant) and isinstance(ax.value, int):
                        if ax.value == ones_col:
                            rep.ok(rule, site, "`%s` reads the constant row %d" % (short(n, 40), ones_col))
                        else:
                            rep.bad(rule, site, "%s|reads-row|%s" % (fid, ax.value), "`%s` reads row %d of the solution as one component, but the constant is row %d and rows %d: are the gradient"
                                    % (short(n, 40), ax.value, ones_col, pos_from))
                    elif isinstance(ax, ast.Slice) and ax.step is None and ax.upper is None and isinstance(ax.lower, ast.Constant):
                        if ax.lower.value == pos_from:
                            rep.ok(rule, site, "`%s` reads the gradient rows %d:" % (short(n, 40), pos_from))
                        else:
                            rep.bad(rule, site, "%s|reads-rows-from|%s" % (fid, ax.lower.value), "`%s` takes rows %s: of the solution; the gradient is rows %d: (row %d is the constant)"
                                    % (short(n, 40), ax.lower.value, pos_from, ones_col))
                    else:
                        rep.unknown(rule, site, "`%s`: rows of the solution selected in a form this rule does not know" % short(n, 40))
            # ---- every part of what the method hands back / stores as the fit comes from the solution
            snode = cfg.cfg_node(sn)
            if fi.qualname.split(".")[-1] == "lagrange_gradient":
                for r in [x for x in eng.prog.own_nodes(fi) if isinstance(x, ast.Return) and x.value is not None]:
                    rn = cfg.cfg_node(r)
                    if cfg.path_avoiding(snode, rn, []) is None:
                        continue
                    if not any(cfg.ast_of(d) is sn for d in cfg.defs_reaching(r, sol)):
                        continue
                    elts = r.value.elts if isinstance(r.value, ast.Tuple) else [r.value]
                    for i, e in enumerate(elts):
                        ncomponents += 1
                        v = _depends_on(cfg, e, r, reads(sol, None), selfn)
                        site = eng.where(fi, r)
                        if v is True:
                            rep.ok(rule, site, "returned component %d `%s` derives from the solution `%s`" % (i, short(e, 30), sol))
                        elif v is False:
                            rep.bad(rule, site, "%s|component-not-from-the-solution|%d" % (fid, i),
                                    "component %d (`%s`) of the returned Lagrange polynomial does not derive from the solution `%s` of the interpolation system: "
                                    "for npt > n+1 the polynomials are least-squares fits, whose value at the base point is neither 0 nor 1" % (i, short(e, 30), sol))
                        else:
                            rep.unknown(rule, site, "cannot tell whether returned component %d `%s` derives from the solution" % (i, short(e, 30)))
            fit_fields = tuple(FIT_FIELDS)
            stores = {}
            for n2, d in cfg.g.nodes(data=True):
                st = d["ast"]
                if d["kind"] == "stmt" and isinstance(st, ast.Assign):
                    for t in st.targets:
                        if isinstance(t, ast.Attribute) and isinstance(t.value, ast.Name) and t.value.id == selfn and t.attr in fit_fields:
                            stores.setdefault(t.attr, []).append((n2, st))
            for field, lst in sorted(stores.items()):
                others = [n2 for (n2, _) in lst]
                for (n2, st) in lst:
                    if cfg.path_avoiding(snode, n2, [o for o in others if o != n2]) is None:
                        continue    # a later re-write (e.g. the rank repair rebuilds J from its own SVD) or not after the solve
                    ncomponents += 1
                    v = _depends_on(cfg, st.value, st, reads(sol, FIT_FIELDS[field]), selfn)
                    site = eng.where(fi, st)
                    if v is True:
                        rep.ok(rule, site, "self.%s is computed from the %s of the solution `%s`" % (field, "constant row" if FIT_FIELDS[field] == "const" else "gradient rows", sol))
                    elif v is False:
                        rep.bad(rule, site, "%s|fit-not-from-the-solution|%s" % (fid, field), "`%s`: the first value given to self.%s after solving the interpolation system does not derive from the %s of its solution `%s`"
                                % (short(st, 60), field, "constant row" if FIT_FIELDS[field] == "const" else "gradient rows", sol))
                    else:
                        rep.unknown(rule, site, "cannot tell whether `%s` derives from the solution" % short(st, 60))
    rep.require_count(rule, "row selections on a solution of the interpolation system", nreaders, 4)
    rep.require_count(rule, "fitted components traced to the solution", ncomponents, 4)


def _stmt_of(eng, fi, node):
    """innermost statement of fi that contains node"""
    best = None
    for st in eng.prog.own_nodes(fi):
        if isinstance(st, ast.stmt) and not isinstance(st, (ast.FunctionDef, ast.If, ast.For, ast.While, ast.With, ast.Try)):
            if any(sub is node for sub in ast.walk(st)):
                best = st
    return best


def rule_assembled_model_at_current_incumbent(eng, rep, rule="C16-7.assembled-gradient-is-2-Jt-times-the-model-at-the-current-incumbent"):
    """build_full_model hands the step solvers g = 2 J'(c + J x_opt): the model residual *at the incumbent as it is now*.  The fitted (c, J) stay valid as a function
    while points are replaced, but the incumbent moves (change_point, add_new_sample, add_new_point) without a re-fit -- so x_opt must be read when the model is
    assembled, not cached at the time of the fit.  Decided on affine normal forms (T7): any algebraically equal spelling passes."""
    bf = eng.fn("model.Model.build_full_model")
    selfn = bf.posparams[0]
    jac = "%s.model_jac" % selfn
    ops = {jac: "J", jac + ".T": "Jt"}
    for _ in range(3):      # local aliases (and aliases of aliases) of the Jacobian and of its transpose
        for node in eng.prog.own_nodes(bf):
            if isinstance(node, ast.Assign) and len(node.targets) == 1 and isinstance(node.targets[0], ast.Name) and ekey(node.value) in ops:
                nm = node.targets[0].id
                ops[nm] = ops[ekey(node.value)]
                ops[nm + ".T"] = "Jt" if ops[nm] == "J" else "J"
    se = affine.SymExec(linear_ops=ops)
    site = eng.where(bf)
    try:
        st = se.run(bf.node.body)
    except AnalysisError as ex:
        rep.unknown(rule, site, str(ex))
        return
    rets = [n for n in eng.prog.own_nodes(bf) if isinstance(n, ast.Return) and isinstance(n.value, ast.Tuple) and n.value.elts]
    if len(rets) != 1:
        rep.unknown(rule, site, "expected one `return g, H`")
        return
    g = se.ev(rets[0].value.elts[0])
    xcalls = [name for (name, node, _a) in se.calls if ekey(node.func) == "%s.xopt" % selfn and not node.args and not node.keywords]
    want = None
    for xc in xcalls:
        w = affine.scale(affine.apply("Jt", affine.add(affine.sym("%s.model_const" % selfn), affine.apply("J", affine.sym(xc)))), 2)
        if w == g:
            want = w
    if want is not None:
        rep.ok(rule, site, "g == %s with x_opt read at the time of the call" % affine.fmt(want))
        return
    atoms = set(a for (_chain, a) in g)
    foreign = [a for a in atoms if (a.startswith("call") and a not in xcalls) or a.startswith("opaque")]
    if foreign:
        rep.unknown(rule, site, "the assembled gradient is %s: it goes through %s, which this rule cannot look into" % (affine.fmt(g), ", ".join(sorted(foreign))))
    else:
        rep.bad(rule, site, "model.Model.build_full_model|gradient-form",
                "the assembled gradient is %s, not 2 J'(model_const + J.xopt()) at the current incumbent: a value kept from the time of the fit goes stale as soon as the incumbent moves "
                "without a re-fit (point replaced, re-sampled or appended)" % affine.fmt(g))


def rule_rebased_locals_imply_a_shift(eng, rep, rule="C16-3b.a-local-re-based-by-the-incumbent-position-goes-with-a-base-shift"):
    """The converse of the re-basing clause of C16-3: `v = v - S` with `S = <model>.xopt()` (relative position of the incumbent) expresses v relative to the *new* base point;
    that is right only if the base really moves by S.  Every path from such a statement to the end of the function / the head of the enclosing loop passes
    `shift_base(S)`; otherwise the step is stored relative to a base that never moved (deleted or conditional call)."""
    sb = eng.fn("model.Model.shift_base")
    n = 0
    for fi in sorted(eng.prog.functions.values(), key=lambda f: f.fid):
        if fi.is_lambda or fi.cls == "Model":
            continue
        cands = []
        for node in eng.prog.own_nodes(fi):
            tgt = val = None
            if isinstance(node, ast.Assign) and len(node.targets) == 1 and isinstance(node.targets[0], ast.Name) and isinstance(node.value, ast.BinOp) and isinstance(node.value.op, ast.Sub) \
                    and isinstance(node.value.left, ast.Name) and node.value.left.id == node.targets[0].id and isinstance(node.value.right, ast.Name):
                tgt, val = node.targets[0].id, node.value.right
            elif isinstance(node, ast.AugAssign) and isinstance(node.op, ast.Sub) and isinstance(node.target, ast.Name) and isinstance(node.value, ast.Name):
                tgt, val = node.target.id, node.value
            if tgt is not None:
                cands.append((node, tgt, val))
        if not cands:
            continue
        cfg = eng.cfg(fi)
        for (node, tgt, S) in cands:
            defs = cfg.defs_reaching(node, S.id)
            dvals = [cfg.ast_of(d).value for d in defs if isinstance(cfg.ast_of(d), ast.Assign)]
            if not dvals or not all(isinstance(v, ast.Call) and isinstance(v.func, ast.Attribute) and v.func.attr == "xopt" and not v.args and not v.keywords for v in dvals):
                continue
            n += 1
            site = eng.where(fi, node)
            shifts = set()
            for ci in eng.calls_in(fi):
                if any(t.fid == sb.fid for t in ci.targets) and ci.node.args and ekey(ci.node.args[0]) == S.id:
                    shifts.add(cfg.cfg_node(ci.node))
            me = cfg.cfg_node(node)
            targets = [cfg.exit]
            for (h, kind, st) in cfg.loops:
                if me in cfg.loop_nodes(h):
                    targets.append(h)
            bad = None
            for t in targets:
                p = cfg.path_avoiding(me, t, shifts)
                if p is not None and len(p) > 1:
                    bad = p
                    break
            if bad is not None and shifts:
                # the shift may come first: `shift_base(S); v = v - S` with the same S (defined before both)
                sdefs = set(defs)
                if any(cfg.dominates(sh, me) and all(cfg.dominates(d, sh) for d in sdefs) for sh in shifts):
                    bad = None
            if not shifts or bad is not None:
                rep.bad(rule, site, "%s|rebased-without-a-shift|%s" % (fi.fid, tgt),
                        "`%s` is re-based by `%s` (the incumbent's relative position) but %s: the value is relative to a base point that did not move"
                        % (tgt, S.id, "no shift_base(%s) follows in this function" % S.id if not shifts else "a path to the end of the iteration avoids shift_base(%s)" % S.id),
                        path=cfg.describe_path(bad)[-6:] if bad else None)
            else:
                rep.ok(rule, site, "`%s = %s - %s` is followed on every path by shift_base(%s)" % (tgt, tgt, S.id, S.id))
    rep.require_count(rule, "locals re-based by the incumbent's relative position", n, 1)


def run(eng, rep):
    rep.explain("C16 (structural clauses): the read-set of Model.interpolation_matrix is computed over the call graph; a typestate data-flow over every Model method "
                "proves that each write to a member of it is followed by factorisation_current = False on every path to the exit, and that only "
                "factorise_geom_system validates the cache, after recomputing Q, R from a fresh matrix (T3); no Model field is written outside the class (T1); "
                "affine normal forms show model_const + J.(s - xbase) and model_const + J.points[k] invariant under shift_base (T7), whose argument is xopt() "
                "and across which live relative locals are re-based.")
    rep.explain('Also decided: no stored Model array is modified in place through a local it is a view of (T11, C16-5); the fitted model and every Lagrange polynomial take both their '
                'constant and their gradient from rows of one solution of the interpolation system, indexed by the layout interpolation_matrix writes (C16-6).')
    rep.not_decided += ["interpolation / least-squares / Lagrange identities and their conditioning-scaled tolerances (numerical)"]
    rep.guarded(rule_invalidation, eng, rep)
    rep.guarded(rule_ownership, eng, rep)
    rep.guarded(rule_shift_affine, eng, rep)
    rep.guarded(rule_rebased_locals_imply_a_shift, eng, rep)
    rep.guarded(rule_no_mutation_through_alias, eng, rep)
    rep.guarded(rule_solution_components, eng, rep)
    rep.guarded(rule_assembled_model_at_current_incumbent, eng, rep)
