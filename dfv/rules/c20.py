"""C20 -- results survive a JSON round trip and always print (structural clauses only).

Decided: writer/reader/constructor field agreement; only plain data leave to_dict; None is mapped back to
NaN for every NaN-capable field; __str__ never applies a numeric conversion / len() to a possibly-None
field; diagnostic columns that to_dataframe can include hold scalars.
"""
import ast
import re

from ..loader import AnalysisError, ekey
from ..norm import atom_of, is_none, const_value
from ..resolve import bind_call
from .common import mentions, guards_of, short, assigned_names


def _self_attr(node, selfname):
    if isinstance(node, ast.Attribute) and isinstance(node.value, ast.Name) and node.value.id == selfname:
        return node.attr
    return None


def ctor_fields(eng):
    """param -> attribute for OptimResults.__init__, plus attributes set to constants (diagnostic_info)."""
    init = eng.fn("solver.OptimResults.__init__")
    selfn = init.posparams[0]
    p2a, others = {}, {}
    for node in eng.prog.own_nodes(init):
        if isinstance(node, ast.Assign) and len(node.targets) == 1:
            a = _self_attr(node.targets[0], selfn)
            if a is None or a.startswith("EXIT_"):
                continue
            if isinstance(node.value, ast.Name) and node.value.id in init.posparams:
                p2a[node.value.id] = a
            else:
                others[a] = node.value
    return init, p2a, others


def writer_fields(eng):
    """key -> value expression written by to_dict: `d['k'] = v` statements, a dict literal `d = {'k': v, ...}` or `d = dict(k=v, ...)`;
    one-expression helpers are inlined."""
    from .common import inline_simple_calls
    td = eng.fn("solver.OptimResults.to_dict")
    out = {}
    dname = None
    for node in eng.prog.own_nodes(td):
        if not (isinstance(node, ast.Assign) and len(node.targets) == 1):
            continue
        t = node.targets[0]
        if isinstance(t, ast.Subscript) and isinstance(t.value, ast.Name) and isinstance(t.slice, ast.Constant) and isinstance(t.slice.value, str):
            dname = t.value.id
            out[t.slice.value] = inline_simple_calls(eng, node.value)
        elif isinstance(t, ast.Name) and isinstance(node.value, ast.Dict) and node.value.keys and all(isinstance(k, ast.Constant) and isinstance(k.value, str) for k in node.value.keys):
            dname = t.id
            for k, v in zip(node.value.keys, node.value.values):
                out[k.value] = inline_simple_calls(eng, v)
        elif isinstance(t, ast.Name) and isinstance(node.value, ast.Call) and isinstance(node.value.func, ast.Name) and node.value.func.id == "dict" and node.value.keywords \
                and not node.value.args and all(kw.arg for kw in node.value.keywords):
            dname = t.id
            for kw in node.value.keywords:
                out[kw.arg] = inline_simple_calls(eng, kw.value)
    return td, dname, out


def reader_fields(eng):
    """key -> (local name, value expr) for from_dict; plus the constructor call and post-construction stores."""
    fd = eng.fn("solver.OptimResults.from_dict")
    dparam = fd.posparams[0]
    reads = {}   # local -> (key, expr)
    ctor = None
    post = {}    # attribute -> expr (soln.attr = ...)
    from .common import inline_simple_calls
    for node in eng.prog.own_nodes(fd):
        if isinstance(node, ast.Assign) and len(node.targets) == 1:
            t = node.targets[0]
            if isinstance(t, ast.Name) and isinstance(node.value, ast.Call):
                ci = eng.res.calls.get(id(node.value))
                if ci and any(x.fid == "solver.OptimResults.__init__" for x in ci.targets):
                    ctor = (t.id, node.value)
                    continue
            value = inline_simple_calls(eng, node.value)       # `_array_or_none(d, 'x', float)` reads key 'x' exactly like the expression it wraps
            keys = _keys_read(value, dparam)
            if isinstance(t, ast.Name):
                if len(keys) == 1:
                    reads[t.id] = (list(keys)[0], value)
            elif isinstance(t, ast.Attribute) and isinstance(t.value, ast.Name):
                if len(keys) == 1:
                    post[t.attr] = (list(keys)[0], value)
    return fd, dparam, reads, ctor, post


def reader_exprs(eng):
    """key -> the expression that rebuilds it in from_dict: a local assigned from the dict entry, or the constructor argument itself (helpers inlined)."""
    from .common import inline_simple_calls
    fd, dparam, reads, ctor, post = reader_fields(eng)
    by_key = {}
    for local, (key, e) in reads.items():
        by_key[key] = e
    if ctor is not None:
        call = ctor[1]
        for e in list(call.args) + [kw.value for kw in call.keywords]:
            if isinstance(e, ast.Name) and e.id in reads:
                continue
            ie = inline_simple_calls(eng, e)
            ks = _keys_read(ie, dparam)
            if len(ks) == 1:
                by_key.setdefault(list(ks)[0], ie)
    for a_, (key, e) in post.items():
        by_key.setdefault(key, e)
    return by_key


def _keys_read(expr, dparam):
    out = set()
    for sub in ast.walk(expr):
        if isinstance(sub, ast.Subscript) and isinstance(sub.value, ast.Name) and sub.value.id == dparam \
                and isinstance(sub.slice, ast.Constant) and isinstance(sub.slice.value, str):
            out.add(sub.slice.value)
    return out


# ---------------------------------------------------------------------------------------------
def rule_field_agreement(eng, rep):
    rule = "C20-1.writer-reader-constructor-agree"
    init, p2a, others = ctor_fields(eng)
    td, dname, written = writer_fields(eng)
    fd, dparam, reads, ctor, post = reader_fields(eng)
    attrs = set(p2a.values()) | set(others)
    if not rep.require_count(rule, "result fields", len(attrs), 10):
        return
    site_w = "dfols/solver.py:OptimResults.to_dict"
    site_r = "dfols/solver.py:OptimResults.from_dict"
    W = set(written)
    for k in sorted(attrs - W):
        rep.bad(rule, site_w, "solver.OptimResults.to_dict|field-not-written|%s" % k, "result field '%s' is not written by to_dict (lost in a round trip)" % k)
    for k in sorted(W - attrs):
        rep.bad(rule, site_w, "solver.OptimResults.to_dict|key-not-a-field|%s" % k, "to_dict writes '%s' which is not a result field" % k)
    # each written value is computed from the attribute of the same name
    selfn = td.posparams[0]
    for k, v in sorted(written.items()):
        used = set(_self_attr(s, selfn) for s in ast.walk(v)) - {None}
        if used == {k}:
            rep.ok(rule, site_w, "key '%s' written from self.%s" % (k, k))
        else:
            rep.bad(rule, site_w, "solver.OptimResults.to_dict|crossed|%s" % k, "key '%s' is written from %s" % (k, sorted(used) or "no attribute"))
    if ctor is None:
        rep.unknown(rule, site_r, "constructor call not found in from_dict")
        return
    b = bind_call(ctor[1], init, True)
    if b.errors:
        rep.bad(rule, site_r, "solver.OptimResults.from_dict|ctor-binding", "; ".join(b.errors))
        return
    read_keys = set()
    for p, a in sorted(p2a.items()):
        e = b.params.get(p)
        if e is None or isinstance(e, tuple):
            rep.bad(rule, site_r, "solver.OptimResults.from_dict|param-missing|%s" % p, "constructor parameter %s not supplied" % p)
            continue
        key = None
        if isinstance(e, ast.Name) and e.id in reads:
            key = reads[e.id][0]
        else:
            from .common import inline_simple_calls
            ks = _keys_read(inline_simple_calls(eng, e), dparam)
            key = list(ks)[0] if len(ks) == 1 else None
        if key is None:
            rep.unknown(rule, site_r, "cannot tell which key feeds constructor parameter %s (%s)" % (p, short(e)))
            continue
        read_keys.add(key)
        if key == a:
            rep.ok(rule, site_r, "key '%s' -> parameter %s -> self.%s" % (key, p, a))
        else:
            rep.bad(rule, site_r, "solver.OptimResults.from_dict|crossed|%s" % a, "field '%s' is rebuilt from key '%s'" % (a, key))
    for a, (key, e) in post.items():
        read_keys.add(key)
        if a != key:
            rep.bad(rule, site_r, "solver.OptimResults.from_dict|crossed|%s" % a, "field '%s' is rebuilt from key '%s'" % (a, key))
        else:
            rep.ok(rule, site_r, "key '%s' -> soln.%s" % (key, a))
    for k in sorted(W - read_keys):
        rep.bad(rule, site_r, "solver.OptimResults.from_dict|key-not-read|%s" % k, "key '%s' is written by to_dict but never read back" % k)
    for k in sorted(read_keys - W):
        rep.bad(rule, site_r, "solver.OptimResults.from_dict|key-not-written|%s" % k, "from_dict reads '%s' which to_dict never writes (KeyError)" % k)


PLAIN_FUNCS = {"int", "float", "str", "bool"}


def _plain_form(eng, fi, v, selfn):
    """Classify a to_dict value: ('int'|'float'|'str'|'list'|'nested'|None, nullable)."""
    if isinstance(v, ast.IfExp):
        a = atom_of(v.test, True)
        if a.op in ("isnot", "is") and is_none(a.rhs):
            body, other = (v.body, v.orelse) if a.op == "isnot" else (v.orelse, v.body)
            if is_none(other):
                k, _n = _plain_form(eng, fi, body, selfn)
                return k, True
        return None, False
    if isinstance(v, ast.Call):
        if isinstance(v.func, ast.Name) and v.func.id in PLAIN_FUNCS and eng.res.scope_of(fi, v.func.id) is None:
            return v.func.id, False
        if isinstance(v.func, ast.Attribute) and v.func.attr == "tolist" and not v.args:
            return "list", False
        if isinstance(v.func, ast.Attribute) and v.func.attr == "to_dict":
            return "nested", False
    if is_none(v):
        return "none", True
    return None, False


def rule_plain_data(eng, rep):
    rule = "C20-2.only-plain-data-leaves-to_dict"
    td, dname, written = writer_fields(eng)
    selfn = td.posparams[0]
    site = "dfols/solver.py:OptimResults.to_dict"
    forms = {}
    for k, v in sorted(written.items()):
        kind, nullable = _plain_form(eng, td, v, selfn)
        forms[k] = (kind, nullable)
        if kind is None:
            rep.bad(rule, site, "solver.OptimResults.to_dict|not-plain|%s" % k, "value of '%s' (%s) is not None / tolist() / int() / float() / str() / nested to_dict()" % (k, short(v)))
        else:
            rep.ok(rule, site, "'%s' leaves as %s%s" % (k, kind, " or None" if nullable else ""))
    # NaN replacement on the replace_nan branch covers the whole dict
    cfg = eng.cfg(td)
    rets = [n for n, d in cfg.g.nodes(data=True) if d["kind"] == "stmt" and isinstance(d["ast"], ast.Return)]
    flag = td.posparams[1] if len(td.posparams) > 1 else None
    seen_true = False
    def is_wrapped(v):
        return isinstance(v, ast.Call) and id(v) in eng.res.calls and any(t.fid == "util.replace_nan_with_none" for t in eng.res.calls[id(v)].targets) \
            and v.args and isinstance(v.args[0], ast.Name) and v.args[0].id == dname

    for r in rets:
        val = cfg.ast_of(r).value
        gs = [a for (_b, a) in guards_of(cfg, r) if isinstance(a.lhs, ast.Name) and a.lhs.id == flag]
        if isinstance(val, ast.IfExp) and isinstance(val.test, ast.Name) and val.test.id == flag and not gs:
            # return f(d) if replace_nan else d
            seen_true = True
            if is_wrapped(val.body):
                rep.ok(rule, site, "`... if %s else ...`: the replace_nan arm returns replace_nan_with_none(<whole dict>)" % flag)
            else:
                rep.bad(rule, site, "solver.OptimResults.to_dict|nan-not-replaced", "replace_nan=True arm does not pass the whole dict through replace_nan_with_none")
            continue
        on_replace = any(a.op == "truth" for a in gs)
        wrapped = is_wrapped(val)
        if on_replace:
            seen_true = True
            if wrapped:
                rep.ok(rule, site, "replace_nan branch returns replace_nan_with_none(<whole dict>)")
            else:
                rep.bad(rule, site, "solver.OptimResults.to_dict|nan-not-replaced", "replace_nan=True branch does not pass the whole dict through replace_nan_with_none")
        elif not gs and not wrapped and flag is not None:
            rep.bad(rule, site, "solver.OptimResults.to_dict|nan-not-replaced", "a return not controlled by replace_nan skips the NaN replacement")
    if not seen_true:
        rep.bad(rule, site, "solver.OptimResults.to_dict|nan-not-replaced", "no return on the replace_nan=True branch")
    # recursion of replace_nan_with_none covers dict, list, float
    rn = eng.fn("util.replace_nan_with_none")
    cfgr = eng.cfg(rn)
    covered = {}
    for n in cfgr.nodes_of_kind("cond"):
        t = cfgr.ast_of(n)
        if isinstance(t, ast.Call) and isinstance(t.func, ast.Name) and t.func.id == "isinstance" and len(t.args) == 2 and isinstance(t.args[1], ast.Name):
            covered[t.args[1].id] = n
    site_r = "dfols/util.py:replace_nan_with_none"
    for ty in ("dict", "list", "float"):
        if ty not in covered:
            rep.bad(rule, site_r, "util.replace_nan_with_none|shape-not-covered|%s" % ty, "%s values are not handled (to_dict can produce them)" % ty)
            continue
        n = covered[ty]
        # what is returned on the true edge
        tgt = [m for m, e in cfgr.succ(n) if e["label"] is True]
        okc = False
        for m in tgt:
            # follow conds (e.g. `and math.isnan(d)`) to the return
            cur = m
            hops = 0
            while cfgr.kind(cur) == "cond" and hops < 4:
                nxt = [x for x, e in cfgr.succ(cur) if e["label"] is True]
                if not nxt:
                    break
                cur = nxt[0]
                hops += 1
            st = cfgr.ast_of(cur)
            if ty == "float" and not (isinstance(st, ast.Return) and is_none(st.value)):
                # the NaN / non-finite test may be spelled `not math.isfinite(d)`: the return sits on the false edge of that cond -- look through cond nodes both ways
                seen, todo = set(), [m]
                while todo:
                    c = todo.pop()
                    if c in seen or len(seen) > 8:
                        continue
                    seen.add(c)
                    if cfgr.kind(c) == "cond":
                        todo += [x for x, _e in cfgr.succ(c)]
                    elif isinstance(cfgr.ast_of(c), ast.Return) and is_none(cfgr.ast_of(c).value):
                        st = cfgr.ast_of(c)
            if isinstance(st, ast.Return):
                if ty in ("dict", "list"):
                    rec = [c for c in ast.walk(st.value) if isinstance(c, ast.Call) and any(t.fid == rn.fid for t in eng.res.calls[id(c)].targets)]
                    okc = bool(rec) and isinstance(st.value, (ast.DictComp, ast.ListComp))
                else:
                    okc = is_none(st.value) and any(("isnan" in ekey(cfgr.ast_of(x)) or "isfinite" in ekey(cfgr.ast_of(x))) for x in cfgr.nodes_of_kind("cond"))
        if okc:
            rep.ok(rule, site_r, "%s handled (%s)" % (ty, "recursion over all elements" if ty != "float" else "NaN -> None"))
        else:
            rep.bad(rule, site_r, "util.replace_nan_with_none|shape-not-covered|%s" % ty, "%s branch does not recurse over all elements / map NaN to None" % ty)
    return forms


def _maps_none_to_nan(expr, dparam, key):
    """Reader expression turns a None stored under `key` into NaN."""
    # np.array(d[key], dtype=float)
    if isinstance(expr, ast.Call) and isinstance(expr.func, ast.Attribute) and expr.func.attr in ("array", "asarray", "float64"):
        dt = [kw.value for kw in expr.keywords if kw.arg == "dtype"]
        if expr.func.attr == "float64":
            return "scalar-float64"
        if dt and isinstance(dt[0], ast.Name) and dt[0].id == "float":
            return "array-float"
        if dt and isinstance(dt[0], ast.Name) and dt[0].id == "int":
            return "array-int"
        return None
    if isinstance(expr, ast.IfExp):
        a = atom_of(expr.test, True)
        if a.op in ("is", "isnot") and is_none(a.rhs) and _keys_read(a.lhs, dparam) == {key}:
            none_branch, other = (expr.body, expr.orelse) if a.op == "is" else (expr.orelse, expr.body)
            if _is_nan_expr(none_branch):
                return "scalar-nan"
            if is_none(none_branch):
                inner = _maps_none_to_nan(other, dparam, key)
                return ("nullable-" + inner) if inner else None
    return None


def _is_nan_expr(e):
    if isinstance(e, ast.Attribute) and e.attr in ("nan", "NaN", "NAN"):
        return True
    if isinstance(e, ast.Call) and isinstance(e.func, ast.Name) and e.func.id == "float" and e.args \
            and isinstance(e.args[0], ast.Constant) and str(e.args[0].value).lower() in ("nan",):
        return True
    return False


def rule_none_back_to_nan(eng, rep, forms):
    rule = "C20-3.None-mapped-back-to-NaN"
    fd, dparam, reads, ctor, post = reader_fields(eng)
    site = "dfols/solver.py:OptimResults.from_dict"
    by_key = reader_exprs(eng)
    safe = {}
    for k, (kind, nullable) in sorted((forms or {}).items()):
        if kind in ("int", "str", "bool", "nested", "none", None):
            safe[k] = kind in ("int", "str", "bool")
            continue
        e = by_key.get(k)
        if e is None:
            rep.unknown(rule, site, "no single reader expression for key '%s'" % k)
            continue
        how = _maps_none_to_nan(e, dparam, k)
        if kind == "float":
            if how in ("scalar-nan", "scalar-float64"):
                rep.ok(rule, site, "float field '%s': None -> NaN (%s)" % (k, how))
                safe[k] = True
            else:
                rep.bad(rule, site, "solver.OptimResults.from_dict|none-not-mapped|%s" % k,
                        "float field '%s' is read back as %s: a NaN written as None stays None" % (k, short(e)))
                safe[k] = False
        elif kind == "list":
            if how in ("array-float", "nullable-array-float", "array-int", "nullable-array-int"):
                if nullable and not how.startswith("nullable-"):
                    rep.bad(rule, site, "solver.OptimResults.from_dict|none-array-not-guarded|%s" % k, "nullable array field '%s' is converted without a None test" % k)
                else:
                    rep.ok(rule, site, "array field '%s': %s" % (k, how))
            else:
                rep.bad(rule, site, "solver.OptimResults.from_dict|array-not-rebuilt|%s" % k,
                        "array field '%s' is read back as %s (not np.array(..., dtype=float|int))" % (k, short(e)))
    return safe


CONV = re.compile(r"%(?:\([^)]*\))?[-+ #0]*\d*(?:\.\d+)?([a-zA-Z%])")


def rule_str_never_formats_none(eng, rep, rule="C20-4.str-never-formats-None", safe=None):
    st = eng.fn("solver.OptimResults.__str__")
    selfn = st.posparams[0]
    cfg = eng.cfg(st)
    if safe is None:
        forms = {}
        td, dname, written = writer_fields(eng)
        for k, v in written.items():
            forms[k] = _plain_form(eng, td, v, td.posparams[0])
        safe = _quiet_safe(eng, forms)
    n = 0
    for node in eng.prog.own_nodes(st):
        if isinstance(node, ast.BinOp) and isinstance(node.op, ast.Mod) and isinstance(node.left, ast.Constant) and isinstance(node.left.value, str):
            convs = [c for c in CONV.findall(node.left.value) if c != "%"]
            args = node.right.elts if isinstance(node.right, ast.Tuple) else [node.right]
            if len(convs) != len(args):
                rep.bad(rule, eng.where(st, node), "solver.OptimResults.__str__|format-arity|%s" % node.left.value[:30].strip(),
                        "format string has %d conversions but %d arguments" % (len(convs), len(args)))
                continue
            cn = cfg.cfg_node(node)
            gs = [a for (_b, a) in guards_of(cfg, cn)]
            for c, a in zip(convs, args):
                if c in "sr":
                    continue
                n += 1
                f = _self_attr(a, selfn)
                if f is None and isinstance(a, ast.Call) and isinstance(a.func, ast.Name) and a.func.id in ("len", "int", "float") and a.args and _self_attr(a.args[0], selfn):
                    f2 = _self_attr(a.args[0], selfn)
                    if any(g.op == "isnot" and _self_attr(g.lhs, selfn) == f2 and is_none(g.rhs) for g in gs) or safe.get(f2) is True:
                        rep.ok(rule, eng.where(st, node), "%%%s of %s(self.%s): field cannot be None here" % (c, a.func.id, f2))
                    else:
                        rep.bad(rule, eng.where(st, node), "solver.OptimResults.__str__|formats-none|%s" % f2,
                                "%%%s is applied to %s(self.%s) but self.%s can be None on this branch (TypeError when printing)" % (c, a.func.id, f2, f2))
                    continue
                if f is None:
                    rep.unknown(rule, eng.where(st, node), "numeric conversion %%%s applied to %s (not a plain field)" % (c, short(a)))
                    continue
                guarded = any(g.op == "isnot" and _self_attr(g.lhs, selfn) == f and is_none(g.rhs) for g in gs)
                if guarded or safe.get(f) is True:
                    rep.ok(rule, eng.where(st, node), "%%%s of self.%s: %s" % (c, f, "guarded by None test" if guarded else "field can never be None after a round trip"))
                else:
                    rep.bad(rule, eng.where(st, node), "solver.OptimResults.__str__|formats-none|%s" % f,
                            "%%%s is applied to self.%s, which from_dict can leave None (TypeError when printing a reloaded result)" % (c, f))
        if isinstance(node, ast.Call) and isinstance(node.func, ast.Name) and node.func.id == "len" and node.args:
            f = _self_attr(node.args[0], selfn)
            if f is None:
                continue
            n += 1
            gs = [a for (_b, a) in guards_of(cfg, cfg.cfg_node(node))]
            guarded = any(g.op == "isnot" and _self_attr(g.lhs, selfn) == f and is_none(g.rhs) for g in gs)
            by_flag = any(g.op == "ne" and "EXIT_INPUT_ERROR" in (mentions(g.lhs) | mentions(g.rhs)) for g in gs)
            if f in nullable_solution_fields(eng):
                by_flag = False     # this field can be None on a result that carries a solution: only a None test of the field itself protects len()
            if guarded or by_flag:
                rep.ok(rule, eng.where(st, node), "len(self.%s) %s" % (f, "guarded by None test" if guarded else "only for results that carry a solution"))
            else:
                rep.bad(rule, eng.where(st, node), "solver.OptimResults.__str__|len-of-none|%s" % f, "len(self.%s) without a None / input-error guard" % f)
    # the diagnostic table can be empty (termination before the first iteration): positional access needs an emptiness test
    for node in eng.prog.own_nodes(st):
        if isinstance(node, ast.Subscript) and isinstance(node.ctx, ast.Load):
            root = node.value
            chain = []
            while isinstance(root, (ast.Attribute, ast.Subscript, ast.Call)):
                chain.append(root.attr if isinstance(root, ast.Attribute) else "")
                root = root.func if isinstance(root, ast.Call) else root.value
            if "diagnostic_info" not in chain or not isinstance(root, ast.Name) or root.id != selfn:
                continue
            if not (set(chain) & {"iloc", "loc", "values", "iat", "at"}) and not isinstance(node.slice, (ast.Constant, ast.UnaryOp)):
                continue
            gs = [a for (_b, a) in guards_of(cfg, cfg.cfg_node(node))]
            nonempty = any("diagnostic_info" in ekey(a.lhs) + (ekey(a.rhs) if a.rhs is not None else "") and
                           (("len(" in ekey(a.lhs) + (ekey(a.rhs) if a.rhs is not None else "")) or ".empty" in ekey(a.lhs) or ".shape" in ekey(a.lhs) + (ekey(a.rhs) if a.rhs is not None else ""))
                           for a in gs)
            if nonempty:
                rep.ok(rule, eng.where(st, node), "positional access to the diagnostic table under an emptiness test")
            else:
                rep.bad(rule, eng.where(st, node), "solver.OptimResults.__str__|indexes-possibly-empty-table|%s" % short(node, 25),
                        "`%s` indexes the diagnostic table without testing that it has a row: a run that ends before its first iteration has an empty table and str(soln) raises IndexError" % short(node, 50))
    rep.require_count(rule, "numeric conversions and len() in __str__", n, 5)


_NULLABLE = {}


def nullable_solution_fields(eng):
    """Result fields that can be None on a result that carries a solution:
    (a) beliefs of __str__ itself -- a field it compares with None anywhere is believed nullable (contradiction rule: one branch tests,
        another must not dereference unconditionally);
    (b) positions of solve_main's return tuples that hold a literal None."""
    if id(eng) in _NULLABLE:
        return _NULLABLE[id(eng)]
    out = set()
    st = eng.fn("solver.OptimResults.__str__")
    selfn = st.posparams[0]
    for node in eng.prog.own_nodes(st):
        if isinstance(node, ast.Compare) and len(node.ops) == 1 and isinstance(node.ops[0], (ast.Is, ast.IsNot)) and is_none(node.comparators[0]):
            f = _self_attr(node.left, selfn)
            if f:
                out.add(f)
    from .anchors import anchors
    from .c02 import final_ctor
    from .common import assigned_names
    A = anchors(eng)
    ci, b = final_ctor(eng, A)
    init, p2a, others = ctor_fields(eng)
    nonepos = set()
    for node in eng.prog.own_nodes(A.solve_main):
        if isinstance(node, ast.Return) and isinstance(node.value, ast.Tuple):
            for i, e in enumerate(node.value.elts):
                if is_none(e):
                    nonepos.add(i)
    names = {}
    for c in A.solve_main_calls:
        stmt = eng.prog.stmt_of(c.node)
        for i, nme in enumerate(assigned_names(stmt.targets[0])):
            names.setdefault(nme, i)
    for p, attr in p2a.items():
        e = b.params.get(p)
        if isinstance(e, ast.Name) and names.get(e.id) in nonepos:
            out.add(attr)
    _NULLABLE[id(eng)] = out
    return out


def _quiet_safe(eng, forms):
    fd, dparam, reads, ctor, post = reader_fields(eng)
    by_key = reader_exprs(eng)
    safe = {}
    for k, (kind, nullable) in forms.items():
        if kind in ("int", "str", "bool"):
            safe[k] = True
        elif kind == "float":
            e = by_key.get(k)
            safe[k] = e is not None and _maps_none_to_nan(e, dparam, k) in ("scalar-nan", "scalar-float64")
    return safe


def rule_diag_columns_scalar(eng, rep):
    rule = "C20-5.diagnostic-columns-hold-scalars"
    si = eng.fn("diagnostic_info.DiagnosticInfo.save_info_from_control")
    tdf = eng.fn("diagnostic_info.DiagnosticInfo.to_dataframe")
    # columns that to_dataframe skips unless asked
    optional = set()
    for node in eng.prog.own_nodes(tdf):
        if isinstance(node, ast.Compare) and len(node.ops) == 1 and isinstance(node.ops[0], (ast.Eq, ast.NotEq)):
            for side in (node.left, node.comparators[0]):
                if isinstance(side, ast.Constant) and isinstance(side.value, str):
                    optional.add(side.value)
    from .common import unrolled
    view, cfg = unrolled(eng, si)      # `for key in ("a", "b"): self.data[key].append(None)` counts as one append per key
    vec_positions = {0, 1, 3, 6}   # x, rvec, jac, jac_eval_nums of Model.get_final_results
    ncol = 0
    for node in [sub for st in view.body() for sub in ast.walk(st)]:
        col = _append_column(node)
        if col is None:
            continue
        ncol += 1
        name, val = col
        kind = _value_kind(eng, si, cfg, node, val, vec_positions)
        site = eng.where(si, node)
        if kind == "scalar":
            rep.ok(rule, site, "column '%s' receives a scalar (%s)" % (name, short(val, 40)), nontrivial=False)
        elif kind == "vector":
            if name in optional:
                rep.bad(rule, site, "diagnostic_info|vector-column|%s" % name,
                        "column '%s' holds arrays; with logging.save_%s the table (and to_dict) is not JSON-serialisable" % (name, name))
            else:
                rep.bad(rule, site, "diagnostic_info|vector-column-always|%s" % name, "column '%s' holds arrays and is always included" % name)
        else:
            rep.unknown(rule, site, "cannot classify the value appended to column '%s' (%s)" % (name, short(val)))
    rep.require_count(rule, "diagnostic columns appended", ncol, 20)


def _append_column(node):
    """self.data["col"].append(v) -> (col, v)"""
    if isinstance(node, ast.Call) and isinstance(node.func, ast.Attribute) and node.func.attr == "append" and len(node.args) == 1:
        r = node.func.value
        if isinstance(r, ast.Subscript) and isinstance(r.slice, ast.Constant) and isinstance(r.slice.value, str) \
                and isinstance(r.value, ast.Attribute) and r.value.attr == "data":
            return r.slice.value, node.args[0]
    return None


SCALAR_LIB = {"numpy.sum", "numpy.sqrt", "numpy.max", "numpy.min", "numpy.linalg.norm", "numpy.mean"}


def _value_kind(eng, fi, cfg, at, val, vec_positions):
    if isinstance(val, ast.Constant):
        return "scalar"
    if isinstance(val, ast.IfExp):
        ks = {_value_kind(eng, fi, cfg, at, val.body, vec_positions), _value_kind(eng, fi, cfg, at, val.orelse, vec_positions)}
        return "vector" if "vector" in ks else None if None in ks else "scalar"
    if isinstance(val, ast.Call) and isinstance(val.func, ast.Attribute) and val.func.attr == "copy" and not val.args:
        return _value_kind(eng, fi, cfg, at, val.func.value, vec_positions)
    if isinstance(val, ast.Call):
        ci = eng.res.calls.get(id(val))
        if ci is None:
            return None
        if any(t.fid in ("model.Model.xopt", "model.Model.ropt", "model.Model.xpt", "model.Model.as_absolute_coordinates", "model.Model.gopt") for t in ci.targets):
            return "vector"
        if ci.kind == "BUILTIN" and ci.libname in ("len", "int", "float", "str", "bool", "max", "min", "abs"):
            return "scalar"
        if ci.kind == "LIB" and ci.libname in SCALAR_LIB and not any(kw.arg == "axis" for kw in val.keywords):
            return "scalar"
        if any(t.fid == "util.remove_scaling" for t in ci.targets):
            return _value_kind(eng, fi, cfg, at, val.args[0], vec_positions) if val.args else None
        if any(t.fid in ("model.Model.npt", "model.Model.poisedness_constant", "model.Model.n", "model.Model.m", "model.Model.objopt") for t in ci.targets):
            return "scalar"
        return None
    if isinstance(val, ast.Attribute):
        # control.nf / control.nx / control.delta / control.rho : numbers
        if val.attr in ("nf", "nx", "delta", "rho", "rhoend", "rhobeg"):
            return "scalar"
        return None
    if isinstance(val, (ast.Name, ast.Subscript)):
        from .common import tuple_position_from_call
        try:
            got = tuple_position_from_call(eng, cfg, at, val, {"model.Model.get_final_results"})
        except Exception:
            got = None
        if got is not None:
            return "vector" if got[0] in vec_positions else "scalar"
    if isinstance(val, ast.Name):
        if val.id in fi.all_params:
            return "scalar"
        defs = cfg.defs_reaching(at, val.id)
        kinds = set()
        for d in defs:
            st = cfg.ast_of(d)
            if isinstance(st, ast.Assign) and isinstance(st.targets[0], (ast.Tuple, ast.List)) and isinstance(st.value, ast.Call):
                ci = eng.res.calls.get(id(st.value))
                if ci and any(t.fid == "model.Model.get_final_results" for t in ci.targets):
                    names = assigned_names(st.targets[0])
                    if val.id in names:
                        kinds.add("vector" if names.index(val.id) in vec_positions else "scalar")
                        continue
            if isinstance(st, ast.Assign) and len(st.targets) == 1 and isinstance(st.targets[0], ast.Name) and st.targets[0].id == val.id:
                kinds.add(_value_kind(eng, fi, cfg, st, st.value, vec_positions))
                continue
            kinds.add(None)
        if len(kinds) == 1:
            return kinds.pop()
    return None


def rule_no_raw_user_values_in_result(eng, rep, rule="C20-6.result-arrays-are-made-by-the-package-not-raw-user-return-values"):
    """to_dict calls .tolist() on x / resid / jacobian and from_dict rebuilds float arrays.  That reproduces the fields only if they are arrays made by the
    package (np.mean, copies of the model's float arrays, arithmetic): a value returned by a user callback (a list, an integer array) must not flow into a
    result field by plain copies."""
    from .anchors import anchors
    from .c02 import final_ctor
    A = anchors(eng)
    ci, b = final_ctor(eng, A)
    vfg = eng.vfg
    user_results = set()
    for (fi, node, role) in vfg.user_calls:
        if set(role.split("|")) & {"objfun", "h", "prox_uh", "nsamples"}:
            user_results.add(("e", id(node)))       # (user projections are excluded: the last projector is always the package's own box, C09-2)
    for pn in ("xmin", "rmin", "jacmin"):
        e = b.params.get(pn)
        if e is None or isinstance(e, tuple):
            continue
        w = vfg.back([vfg.key_of(e)], lambda s_, k, i, d: k in ("copy", "proj", "tup", "sel", "default", "index"), stop=lambda n: n in user_results)
        hit = [n for n in w.nodes if n in user_results]
        if hit:
            rep.bad(rule, vfg.describe(hit[0]), "result-field-is-a-raw-user-value|%s" % pn,
                    "the value returned by a user callback can reach soln.%s through plain copies: if the callback returns a list or a non-float array, to_dict()/from_dict() do not reproduce the field"
                    % {"xmin": "x", "rmin": "resid", "jacmin": "jacobian"}[pn], path=w.path(hit[0])[-10:])
        else:
            rep.ok(rule, eng.where(A.solve, ci.node), "soln.%s is never a raw callback return value (every flow from objfun passes np.mean / an array store / arithmetic)" % {"xmin": "x", "rmin": "resid", "jacmin": "jacobian"}[pn])
    rep.require_count(rule, "user callback call sites known to the value-flow graph", len(user_results), 10)


def rule_non_finite_floats_are_replaced(eng, rep, rule="C20-2c.strict-json-has-no-infinity-either"):
    """'strict JSON when NaN replacement is on': strict JSON has neither NaN nor +/-Infinity.  The scalar branch of replace_nan_with_none must test for every
    non-finite float (`not math.isfinite(d)`, or isnan and isinf), not for NaN alone."""
    fi = eng.fn("util.replace_nan_with_none")
    cfg = eng.cfg(fi)
    site = eng.where(fi)
    tests = set()
    for c in cfg.nodes_of_kind("cond"):
        for sub in ast.walk(cfg.ast_of(c)):
            if isinstance(sub, ast.Call) and isinstance(sub.func, (ast.Attribute, ast.Name)):
                nm = sub.func.attr if isinstance(sub.func, ast.Attribute) else sub.func.id
                if nm in ("isnan", "isinf", "isfinite"):
                    tests.add(nm)
    if not tests:
        rep.unknown(rule, site, "no isnan / isinf / isfinite test found in replace_nan_with_none")
    elif "isfinite" in tests or {"isnan", "isinf"} <= tests:
        rep.ok(rule, site, "the scalar branch tests for every non-finite float (%s)" % ", ".join(sorted(tests)))
    else:
        rep.bad(rule, site, "util.replace_nan_with_none|infinity-passes-through",
                "replace_nan_with_none tests %s only: a result field holding +/-inf (objective infinite at every evaluated point) is written as Infinity, which strict JSON does not allow" % ", ".join(sorted(tests)))


def rule_nan_replacement_is_total(eng, rep, rule="C20-2b.NaN-replacement-visits-every-element"):
    """replace_nan_with_none must reach every float of a nested dict/list: a container is answered by a comprehension that applies the function to every element;
    the argument itself is handed back only when it is neither a dict nor a list (a scalar).  A fast path that returns a list unchanged after a partial test
    (`not isnan(min(d))`) leaves NaN in the output, which is then no strict JSON."""
    fn = eng.fn("util.replace_nan_with_none")
    cfg = eng.cfg(fn)
    d = fn.posparams[0]

    def recursive_on(e, var):
        return isinstance(e, ast.Call) and any(t.fid == fn.fid for t in (eng.res.calls[id(e)].targets if id(e) in eng.res.calls else [])) and len(e.args) == 1 and ekey(e.args[0]) == var

    def is_inst(at, kinds):
        c = at.lhs
        return isinstance(c, ast.Call) and isinstance(c.func, ast.Name) and c.func.id == "isinstance" and len(c.args) == 2 and ekey(c.args[0]) == d \
            and set(x.id for x in ast.walk(c.args[1]) if isinstance(x, ast.Name)) & set(kinds)

    n = 0
    for node, dd in cfg.g.nodes(data=True):
        st = dd["ast"]
        if dd["kind"] != "stmt" or not isinstance(st, ast.Return) or st.value is None:
            continue
        n += 1
        v = st.value
        gs = [a for (_b, a) in guards_of(cfg, node)]
        site = eng.where(fn, st)
        in_container = [k for k in ("dict", "list", "tuple") if any(a.op == "truth" and is_inst(a, [k]) for a in gs)]
        if isinstance(v, ast.DictComp) and len(v.generators) == 1 and not v.generators[0].ifs and isinstance(v.generators[0].target, ast.Tuple) \
                and recursive_on(v.value, ekey(v.generators[0].target.elts[1])) and ekey(v.generators[0].iter).startswith(d + ".items"):
            rep.ok(rule, site, "dict: every value goes through the function again")
        elif isinstance(v, (ast.ListComp, ast.GeneratorExp)) and len(v.generators) == 1 and not v.generators[0].ifs and recursive_on(v.elt, ekey(v.generators[0].target)) and ekey(v.generators[0].iter) == d:
            rep.ok(rule, site, "list: every element goes through the function again")
        elif isinstance(v, ast.Constant) and v.value is None:
            rep.ok(rule, site, "a NaN scalar becomes None", nontrivial=False)
        elif in_container:
            rep.bad(rule, site, "util.replace_nan_with_none|container-not-fully-visited|%s" % short(v, 25),
                    "inside the %s branch the function returns `%s` instead of a comprehension over every element: NaN entries the shortcut's test does not see stay in the output" % (in_container[0], short(v, 40)))
        elif isinstance(v, ast.Name) and v.id == d:
            excluded = all(any(a.op == "false" and is_inst(a, [k]) for a in gs) for k in ("dict", "list"))
            if excluded:
                rep.ok(rule, site, "the argument is handed back unchanged only when it is neither a dict nor a list")
            else:
                rep.bad(rule, site, "util.replace_nan_with_none|returns-argument-unvisited", "the argument can be handed back unchanged although it may be a dict or a list")
        else:
            rep.unknown(rule, site, "return `%s` not classified" % short(v))
    rep.require_count(rule, "returns of replace_nan_with_none", n, 3)


def rule_table_rows_uniquely_labelled(eng, rep, rule="C20-5b.diagnostic-table-rows-are-uniquely-labelled"):
    """DataFrame.to_dict() (used by OptimResults.to_dict) keys every column by the row label: rows sharing a label collapse into one.  The table must therefore be
    built with the default RangeIndex, or with the `iters_total` column (consecutive numbers, C18-4) as index."""
    tdf = eng.fn("diagnostic_info.DiagnosticInfo.to_dataframe")
    n = 0
    for node in eng.prog.own_nodes(tdf):
        if isinstance(node, ast.Call) and ekey(node.func).split(".")[-1] == "DataFrame":
            n += 1
            idx = [kw.value for kw in node.keywords if kw.arg == "index"] + (list(node.args[1:2]))
            site = eng.where(tdf, node)
            if not idx:
                rep.ok(rule, site, "table built with the default index 0..rows-1")
            elif "iters_total" in ekey(idx[0]):
                rep.ok(rule, site, "table indexed by iters_total (consecutive numbers by C18-4)")
            else:
                rep.bad(rule, site, "diagnostic_info|table-index|%s" % short(idx[0], 30),
                        "the table is indexed by `%s`, which is not unique across runs: DataFrame.to_dict() keeps one row per label and the reloaded table loses rows" % short(idx[0], 40))
        if isinstance(node, ast.Call) and isinstance(node.func, ast.Attribute) and node.func.attr in ("set_index",):
            rep.bad(rule, eng.where(tdf, node), "diagnostic_info|table-index|set_index", "the table's index is replaced by `%s`" % short(node, 40))
    rep.require_count(rule, "DataFrame constructions in to_dataframe", n, 1)


def rule_integer_arrays_stay_integer(eng, rep, rule="C20-7.integer-valued-result-arrays-keep-an-integer-dtype"):
    """from_dict rebuilds jacmin_eval_nums with dtype=int and the counters as ints; the round trip (and str()) reproduces the original only if the Model arrays they
    are copied from are integer arrays.  Dtype inference over every (re)binding of a Model field that __init__ allocates with dtype=int: the new value must be
    an integer array again -- np.append(<int array>, <non-float>), a copy / permutation / slice of the field, an allocation with dtype=int, or an internal helper
    whose returned array is allocated with an integer dtype."""
    init = eng.fn("model.Model.__init__")
    selfn = init.posparams[0]

    def is_int_dtype(call):
        for kw in call.keywords:
            if kw.arg == "dtype":
                t = ekey(kw.value)
                return t in ("int", "np.int", "np.int64", "np.int32", "numpy.int64", "np.intp")
        return False

    ALLOC = ("zeros", "ones", "empty", "full", "arange")
    int_fields = set()
    for node in eng.prog.own_nodes(init):
        if isinstance(node, ast.Assign) and len(node.targets) == 1 and isinstance(node.targets[0], ast.Attribute) and isinstance(node.value, ast.Call) \
                and ekey(node.value.func).split(".")[-1] in ALLOC and is_int_dtype(node.value):
            int_fields.add(node.targets[0].attr)
    if not rep.require_count(rule, "Model fields allocated with an integer dtype", len(int_fields), 2):
        return

    def dtype_of(fi, cfg, at, e, sn, depth=3):
        """'int' / 'float' / None (unknown)"""
        if isinstance(e, ast.Attribute) and isinstance(e.value, ast.Name) and e.value.id == sn:
            return "int" if e.attr in int_fields else None
        if isinstance(e, ast.Subscript):
            return dtype_of(fi, cfg, at, e.value, sn, depth)
        if isinstance(e, ast.Constant):
            return "int" if isinstance(e.value, int) and not isinstance(e.value, bool) else ("float" if isinstance(e.value, float) else None)
        if isinstance(e, ast.Name) and depth > 0:
            try:
                defs = cfg.defs_reaching(at, e.id)
            except Exception:
                return None
            kinds = set()
            for dn in defs:
                st = cfg.ast_of(dn)
                if isinstance(st, ast.Assign) and len(st.targets) == 1 and isinstance(st.targets[0], ast.Name):
                    kinds.add(dtype_of(fi, cfg, st, st.value, sn, depth - 1))
                elif isinstance(st, ast.Assign) and isinstance(st.targets[0], ast.Subscript):
                    continue                     # element stores do not change the dtype of the array
                else:
                    kinds.add(None)
            return kinds.pop() if len(kinds) == 1 else None
        if isinstance(e, ast.Call):
            fn = ekey(e.func).split(".")[-1]
            if fn in ALLOC:
                return "int" if is_int_dtype(e) else ("float" if not any(kw.arg == "dtype" for kw in e.keywords) and fn != "arange" else None)
            if fn == "copy" and isinstance(e.func, ast.Attribute):
                return dtype_of(fi, cfg, at, e.func.value, sn, depth)
            if fn == "astype" and e.args:
                return "int" if ekey(e.args[0]) in ("int", "np.int64") else ("float" if ekey(e.args[0]) == "float" else None)
            if fn in ("concatenate", "hstack") and e.args and isinstance(e.args[0], (ast.Tuple, ast.List)):
                parts = []
                for part in e.args[0].elts:
                    if isinstance(part, (ast.List, ast.Tuple)) and part.elts:
                        parts += [dtype_of(fi, cfg, at, x, sn, depth) for x in part.elts]
                    else:
                        parts.append(dtype_of(fi, cfg, at, part, sn, depth))
                if "float" in parts:
                    return "float"
                return "int" if "int" in parts else None
            if (fn == "append" and len(e.args) >= 2) or (fn == "insert" and len(e.args) >= 3):
                a0 = dtype_of(fi, cfg, at, e.args[0], sn, depth)
                a1 = dtype_of(fi, cfg, at, e.args[1] if fn == "append" else e.args[2], sn, depth)
                if a0 == "int" and a1 in ("int", None):
                    return "int"              # a name appended to an integer array: its value is a counter (C03-1 / C17-3)
                return "float" if "float" in (a0, a1) else None
            ci = eng.res.calls.get(id(e))
            if ci is not None and len(ci.targets) == 1 and depth > 0 and not ci.targets[0].is_lambda:
                t = ci.targets[0]
                tcfg = eng.cfg(t)
                kinds = set()
                for r in eng.prog.own_nodes(t):
                    if isinstance(r, ast.Return) and r.value is not None:
                        kinds.add(dtype_of(t, tcfg, r, r.value, t.posparams[0] if t.is_method and t.posparams else "\0", depth - 1))
                return kinds.pop() if len(kinds) == 1 else None
        return None

    model = eng.prog.cls("Model")
    n = 0
    for m in sorted(model.methods.values(), key=lambda f: f.qualname):
        sn = m.posparams[0] if m.posparams else None
        cfg = eng.cfg(m)
        for node in eng.prog.own_nodes(m):
            if not (isinstance(node, ast.Assign) and len(node.targets) == 1):
                continue
            t = node.targets[0]
            if not (isinstance(t, ast.Attribute) and isinstance(t.value, ast.Name) and t.value.id == sn and t.attr in int_fields):
                continue
            n += 1
            d = dtype_of(m, cfg, node, node.value, sn)
            site = eng.where(m, node)
            if d == "int":
                rep.ok(rule, site, "self.%s stays an integer array (`%s`)" % (t.attr, short(node.value, 40)), nontrivial=not m.qualname.endswith("__init__"))
            elif d == "float":
                rep.bad(rule, site, "%s|integer-array-becomes-float|%s" % (m.fid, t.attr),
                        "`%s` re-binds the integer array self.%s to a floating-point array: evaluation numbers / sample counts are returned as floats, from_dict rebuilds them as ints, "
                        "str() differs ('[124. 126.]' vs '[124 126]')" % (short(node, 50), t.attr))
            else:
                rep.unknown(rule, site, "cannot infer the dtype of `%s` assigned to the integer array self.%s" % (short(node.value, 40), t.attr))
    rep.require_count(rule, "(re)bindings of integer Model arrays", n, 4)


def rule_to_dict_survives_none_fields(eng, rep, rule="C20-8.to_dict-converts-no-field-that-a-constructor-call-leaves-None"):
    """An input-error result is built with None in the solution fields (OptimResults(None, None, None, None, 0, 0, 0, flag, msg, None, None)).  to_dict must serialise
    *every* result: a numeric conversion (float(), int()) or a method call (.tolist()) on a field that some constructor call of the package leaves None needs a
    None test of that field -- as its siblings a line above and below already have (contradiction rule)."""
    td = eng.fn("solver.OptimResults.to_dict")
    init = eng.fn("solver.OptimResults.__init__")
    selfn = td.posparams[0]
    # fields that a constructor call can leave None: parameter bound to a literal None (or to a name that may be None: not followed here), stored as self.<field> = <param>
    nullable_params = set()
    nctor = 0
    for ci in eng.calls_to(init.fid):
        nctor += 1
        b = bind_call(ci.node, init, True)
        for pn, e in b.params.items():
            if isinstance(e, ast.AST) and is_none(e):
                nullable_params.add(pn)
    iself = init.posparams[0]
    field_of = {}
    for node in eng.prog.own_nodes(init):
        if isinstance(node, ast.Assign) and len(node.targets) == 1 and isinstance(node.value, ast.Name) and node.value.id in init.all_params:
            f = _self_attr(node.targets[0], iself)
            if f:
                field_of[node.value.id] = f
    nullable = set(field_of[p] for p in nullable_params if p in field_of)
    if not rep.require_count(rule, "constructor calls of OptimResults", nctor, 2):
        return
    if not rep.require_count(rule, "fields a constructor call leaves None", len(nullable), 3):
        return
    cfg = eng.cfg(td)
    n = 0
    for node in eng.prog.own_nodes(td):
        f = None
        what = None
        if isinstance(node, ast.Call) and isinstance(node.func, ast.Name) and node.func.id in ("float", "int", "len", "str") and node.args and node.func.id != "str":
            f = _self_attr(node.args[0], selfn)
            what = "%s(self.%s)" % (node.func.id, f)
        elif isinstance(node, ast.Call) and isinstance(node.func, ast.Attribute) and _self_attr(node.func.value, selfn):
            f = _self_attr(node.func.value, selfn)
            what = "self.%s.%s()" % (f, node.func.attr)
        if f is None or f not in nullable:
            continue
        n += 1
        # guarded by an enclosing conditional expression / if on `self.f is not None`
        guarded = False
        cur = node
        for _ in range(6):
            par = eng.prog.parent.get(id(cur))
            if par is None:
                break
            if isinstance(par, ast.IfExp) and par.body is cur or (isinstance(par, ast.IfExp) and any(x is node for x in ast.walk(par.body))):
                at = atom_of(par.test, True)
                if at.op == "isnot" and _self_attr(at.lhs, selfn) == f and is_none(at.rhs):
                    guarded = True
            if isinstance(par, ast.IfExp) and any(x is node for x in ast.walk(par.orelse)):
                at = atom_of(par.test, True)
                if at.op == "is" and _self_attr(at.lhs, selfn) == f and is_none(at.rhs):
                    guarded = True
            cur = par
        if not guarded:
            try:
                gs = [a for (_b, a) in guards_of(cfg, cfg.cfg_node(node))]
                guarded = any(g.op == "isnot" and _self_attr(g.lhs, selfn) == f and is_none(g.rhs) for g in gs)
            except Exception:
                pass
        site = eng.where(td, eng.prog.stmt_of(node))
        if guarded:
            rep.ok(rule, site, "%s only where self.%s is not None" % (what, f))
        else:
            rep.bad(rule, site, "solver.OptimResults.to_dict|converts-none|%s" % f,
                    "`%s` runs for every result, but the input-error result is constructed with %s = None: to_dict raises TypeError / AttributeError instead of serialising it"
                    % (what, f))
    rep.require_count(rule, "conversions of nullable fields in to_dict", n, 2)      # (the two scalar fields; the array fields may go through a helper with its own None test)


def run(eng, rep):
    rep.explain("C20: to_dict keys = from_dict keys = constructor fields, each routed to the field of the same name (T9/T4); "
                "to_dict emits only None/tolist()/int()/float()/str()/nested dict and the replace_nan branch covers the whole dict, "
                "replace_nan_with_none recurses over dict/list/float; from_dict maps None back to NaN for every float-valued field; "
                "__str__ applies numeric conversions and len() only to fields that cannot be None; diagnostic columns hold scalars.")
    rep.explain('Also decided: NaN replacement visits every element of nested containers (C20-2b); table rows are uniquely labelled (C20-5b); no raw callback return value reaches a result field by plain copies (C20-6); integer Model arrays keep an integer dtype at every re-binding, helpers included (dtype inference, C20-7).')
    rep.not_decided += ["what pandas.DataFrame.to_dict/from_dict and json do to index keys and NumPy scalars (library semantics)",
                        "bit-exact equality of reloaded arrays"]
    rep.guarded(rule_field_agreement, eng, rep)
    forms = rule_plain_data(eng, rep)
    safe = rule_none_back_to_nan(eng, rep, forms)
    rep.guarded(rule_str_never_formats_none, eng, rep, safe=safe)
    rep.guarded(rule_diag_columns_scalar, eng, rep)
    rep.guarded(rule_no_raw_user_values_in_result, eng, rep)
    rep.guarded(rule_integer_arrays_stay_integer, eng, rep)
    rep.guarded(rule_nan_replacement_is_total, eng, rep)
    rep.guarded(rule_non_finite_floats_are_replaced, eng, rep)
    rep.guarded(rule_table_rows_uniquely_labelled, eng, rep)
    rep.guarded(rule_to_dict_survives_none_fields, eng, rep)
