"""C01 -- bound constraints are never violated at any evaluation point (the statement is structural: 'which operation
is last on every path').

Decided: single sink; every evaluate_objective argument is a direct output of Model.as_absolute_coordinates; frame typing
of every clamp / scaling / callback site under each configuration of (scaling, projections, regulariser); exactness at the
two sinks (the x handed to objfun, soln.x): the last floating-point operation on every path is a clamp against the user's
bounds; relative bounds / points / base point are written only by Model.__init__ and Model.shift_base, and shift_base
keeps sl+xbase, su+xbase, points+xbase unchanged (affine normal forms).
"""
import ast

from ..loader import AnalysisError, ekey
from ..resolve import bind_call
from .. import frames, affine, tables
from .anchors import anchors
from .common import mentions, short, arg_of
from . import c02


def rule_routing(eng, rep, A, rule="C01-2.evaluated-points-come-from-the-clamp"):
    prod = eng.fn("model.Model.as_absolute_coordinates")
    n = 0
    for ci in A.evalobj_calls:
        fi = ci.caller
        cfg = eng.cfg(fi)
        x = arg_of(eng, ci.node, A.evalobj, A.evalobj.posparams[1])
        site = eng.where(fi, ci.node)
        n += 1
        if not isinstance(x, ast.Name):
            if isinstance(x, ast.Call) and any(t.fid == prod.fid for t in eng.res.calls[id(x)].targets):
                rep.ok(rule, site, "evaluated point is as_absolute_coordinates(...) itself")
            else:
                rep.bad(rule, site, "%s|evaluated-point-not-from-clamp|%s" % (fi.fid, short(x, 30)), "evaluated point `%s` is not an output of Model.as_absolute_coordinates" % short(x))
            continue
        defs = cfg.defs_reaching(x, x.id)
        bad = None
        for dn in defs:
            st = cfg.ast_of(dn)
            okd = isinstance(st, ast.Assign) and len(st.targets) == 1 and isinstance(st.value, ast.Call) and \
                any(t.fid == prod.fid for t in eng.res.calls[id(st.value)].targets)
            if not okd:
                bad = st
        if bad is None and defs:
            rep.ok(rule, site, "`%s` is assigned only from Model.as_absolute_coordinates(...) on every path" % x.id)
        else:
            rep.bad(rule, site, "%s|evaluated-point-not-from-clamp|%s" % (fi.fid, short(bad, 40) if bad is not None else x.id),
                    "evaluated point `%s` can come from `%s`, not from Model.as_absolute_coordinates" % (x.id, short(bad, 60) if bad is not None else "a parameter"))
    rep.require_count(rule, "evaluate_objective call sites", n, tables.MIN_COUNTS["evaluate_objective_call_sites"])
    # the producer itself returns either a dykstra result or a clamp expression on every path
    for fid in ("model.Model.as_absolute_coordinates", "model.Model.xpt"):
        fi = eng.fn(fid)
        rets = [r for r in eng.prog.own_nodes(fi) if isinstance(r, ast.Return) and r.value is not None]
        for r in rets:
            v = r.value
            txt = ekey(v)
            if isinstance(v, ast.Call):
                ci = eng.res.calls.get(id(v))
                if ci and any(t.fid == "util.dykstra" for t in ci.targets):
                    rep.ok(rule, eng.where(fi, r), "returns the dykstra(...) result itself")
                    continue
                if ci and ci.kind == "LIB" and ci.libname in ("numpy.minimum", "numpy.maximum", "numpy.clip"):
                    rep.ok(rule, eng.where(fi, r), "returns a clamp expression (frames/exactness decided under C01-4/6)")
                    continue
            rep.note(rule, eng.where(fi, r), "return `%s` is judged by the exactness analysis" % short(v, 50))


REQUIRED = {("lo", "user.xl"), ("hi", "user.xu")}


def required_facts(cfg):
    """The user's side(s) of the box that the configuration supplies: a missing bound is the package's own +/-1e20 default, nothing to enforce."""
    req = set()
    if cfg.bounds in ("both", "lower-only"):
        req.add(("lo", "user.xl"))
    if cfg.bounds in ("both", "upper-only"):
        req.add(("hi", "user.xu"))
    return req


def rule_frames(eng, rep, kinds=("clamp", "scaling", "callback-frame"), rule_prefix="C01-4", sinks=("objfun", "soln.x"), exact_rule="C01-6.exactness-at-the-sinks",
                configs=None, seen_issue=None):
    total_sites = 0
    seen_issue = set() if seen_issue is None else seen_issue
    sink_verdicts = {}
    for cfg in (frames.CONFIGS if configs is None else configs):
        it = frames.analyse(eng, cfg)
        for (kind, nid), (fi, node) in sorted(it.sites.items(), key=lambda x: (x[0][0], getattr(x[1][1], "lineno", 0))):
            if kind not in kinds:
                continue
            total_sites += 1
            rule = "%s.frame-agreement-%s" % (rule_prefix, kind)
            iss = it.issues.get((kind, nid))
            if iss is not None:
                if iss.key in seen_issue:
                    continue
                seen_issue.add(iss.key)
                rep.bad(rule, eng.where(fi, node), iss.key, "[%r] %s" % (cfg, iss.msg))
            else:
                rep.ok(rule, eng.where(fi, node) + " [%r]" % cfg, "operands agree: `%s`" % short(node, 50), nontrivial=kind != "arith")
        if exact_rule is None:
            continue
        for (role, fi, node, x) in it.sink_obs:
            if role not in sinks:
                continue
            key = (role, x.why, tuple(sorted(x.ex)))
            have = required_facts(cfg) <= set(x.ex)
            site = "%s <- %s" % ("x handed to objfun" if role == "objfun" else "soln.x", x.why or "clamp")
            if have:
                sink_verdicts.setdefault((role, "ok", None), []).append(cfg)
            else:
                why = x.why or "value was never clamped against the user's bounds"
                k = "exactness-lost|%s" % _why_key(why)
                sink_verdicts.setdefault((role, "bad", (k, why)), []).append(cfg)
    if exact_rule is not None:
        for (role, verdict, extra), cfgs in sorted(sink_verdicts.items(), key=str):
            cfgtxt = ", ".join(sorted(set(repr(c) for c in cfgs)))
            what = "the x handed to objfun" if role == "objfun" else "soln.x"
            if verdict == "ok":
                rep.ok(exact_rule, "%s [%s]" % (what, cfgtxt), "last operation on every path is a clamp against each bound the user supplied (facts lo:user.xl / hi:user.xu as the bound pattern requires)")
            else:
                k, why = extra
                rep.bad(exact_rule, "%s [%s]" % (what, cfgtxt), k,
                        "%s is not exactly inside the user's box: after the last clamp the value goes through %s" % (what, why))
        if not sink_verdicts:
            rep.unknown(exact_rule, "package", "no sink observation: the frame analysis did not reach objfun")
    return total_sites


def _why_key(why):
    # "<fid>: `<expr>`"  -> "<fid>|<expr>"
    if ": `" in why:
        fid, ex = why.split(": `", 1)
        return "%s|%s" % (fid, ex.split("`")[0][:50])
    return why[:60]


def rule_shift_base(eng, rep, rule="C01-5.relative-bounds-follow-the-base-point"):
    sb = eng.fn("model.Model.shift_base")
    selfn = sb.posparams[0]
    shift = sb.posparams[1]
    # who may write the base-dependent fields
    owners = {"model.Model.__init__", "model.Model.shift_base"}
    base_fields = ("xbase", "sl", "su")
    for fi in eng.prog.functions.values():
        for node in eng.prog.own_nodes(fi):
            tg = []
            if isinstance(node, ast.Assign):
                tg = node.targets
            elif isinstance(node, ast.AugAssign):
                tg = [node.target]
            for t in tg:
                root = t
                while isinstance(root, ast.Subscript):
                    root = root.value
                if isinstance(root, ast.Attribute) and root.attr in base_fields and any(a == ("C", "Model") for a in eng.res.ev(fi, root.value)):
                    if fi.fid in owners:
                        rep.ok(rule, eng.where(fi, node), "Model.%s written by its owner %s" % (root.attr, fi.qualname), nontrivial=False)
                    else:
                        rep.bad(rule, eng.where(fi, node), "%s|writes-Model.%s" % (fi.fid, root.attr),
                                "Model.%s is written outside Model.__init__/shift_base: relative bounds and base point can drift apart" % root.attr)
    # affine invariants of shift_base
    se = affine.SymExec(linear_ops={"%s.model_jac" % selfn: "J"})
    try:
        paths = se.run_paths(sb.node.body)
    except AnalysisError as ex:
        rep.unknown(rule, eng.where(sb), str(ex))
        return
    checks = [("sl + xbase", "%s.sl" % selfn), ("su + xbase", "%s.su" % selfn), ("points[k] + xbase", "%s.points[*]" % selfn)]
    X0 = affine.sym("%s.xbase" % selfn)
    # every path through the method's `if` statements (tests not interpreted): holds on all -> discharged, fails on all -> violation, mixed -> undecided
    for (txt, key) in checks:
        res = []
        for pse in paths:
            st = pse.state
            X1 = st.get("%s.xbase" % selfn, X0)
            before = affine.add(affine.sym(key), X0)
            after = affine.add(st.get(key, affine.sym(key)), X1)
            res.append((before == after, affine.fmt(before), affine.fmt(after)))
        if all(r[0] for r in res):
            rep.ok(rule, eng.where(sb), "%s is unchanged by shift_base (%s)" % (txt, res[0][2]))
        elif not any(r[0] for r in res):
            rep.bad(rule, eng.where(sb), "model.Model.shift_base|invariant|%s" % txt,
                    "%s changes under shift_base: before %s, after %s" % (txt, res[0][1], res[0][2]))
        else:
            b = [r for r in res if not r[0]][0]
            rep.unknown(rule, eng.where(sb), "%s is preserved on some paths through shift_base and changes on others (before %s, after %s): the tests are not interpreted" % (txt, b[1], b[2]))
    moved = [pse.state.get("%s.xbase" % selfn, X0) != X0 for pse in paths]
    if not any(moved):
        rep.bad(rule, eng.where(sb), "model.Model.shift_base|xbase-not-moved", "shift_base does not move xbase")
    st, se = paths[-1].state, paths[-1]
    return st, se


def rule_scaling_needs_two_sided_bounds(eng, rep, rule="C01-7.scaling-is-off-unless-both-bounds-are-given"):
    """Internal scaling maps [xl, xu] to the unit box; with a missing bound it would be built from the +/-1e20 default and lose the finite
    bound to rounding.  The interpreter is run with scaling requested and each incomplete bound pattern: scaling_changes must stay None."""
    for mode in ("lower-only", "upper-only", "none"):
        cfgm = frames.Config(True, False, False, bounds=mode)
        it = frames.Interp(eng, cfgm).run()
        sc = it.fields.get(("Controller", "scaling_changes"))
        site = "solver.solve [%r]" % cfgm
        if sc is None:
            rep.unknown(rule, site, "Controller.scaling_changes not reached by the analysis")
        elif sc.k == "none":
            rep.ok(rule, site, "scaling_within_bounds=True is overridden: scaling_changes is None on every path")
        else:
            rep.bad(rule, site, "solver.solve|scaling-with-incomplete-bounds|%s" % mode,
                    "with bounds=%s and scaling_within_bounds=True the scaling stays active (built from the +/-1e20 default bound): the finite bound is lost to rounding and points are evaluated outside it" % mode)


def run(eng, rep):
    rep.explain("C01: (1) objfun has a single call site; (2) every evaluate_objective argument is assigned only from Model.as_absolute_coordinates; "
                "(3,4,6) abstract interpretation of the whole solve call tree over the frame domain {U,A,R,?} with exactness facts, once per configuration of "
                "(scaling, projections, regulariser): every clamp / scaling / callback site has frame-consistent operands and the value reaching objfun and "
                "soln.x carries the facts lo:user.xl and hi:user.xu (last operation on every path is a clamp against the user's bounds); "
                "(5) who-may-write inventory for xbase/sl/su and affine normal forms proving sl+xbase, su+xbase, points+xbase invariant under shift_base.")
    rep.explain('Also decided: scaling is off unless both bounds are given (interpreter run per incomplete bound pattern, C01-7); one-sided / absent bound patterns are analysed as configurations of their own (each supplied side must be the last clamp); the two x0 clamp stanzas of solve are reflections of each other (T14, C01-8).')
    rep.assumptions += ["IEEE min/max return one of their operands", "bounds are consistent (lower <= upper)", "dykstra performs at least one sweep (its result is the last projector's output: C15-2)"]
    A = anchors(eng)
    c02.rule_single_sink(eng, rep, A, rule="C01-1.single-sink")
    rep.guarded(rule_routing, eng, rep, A)
    seen = rep._frames_seen = set()
    n = rule_frames(eng, rep, seen_issue=seen)
    rep.require_count("C01-4.frame-agreement", "clamp/scaling/callback sites analysed over all configurations", n, 100)
    n1 = rule_frames(eng, rep, configs=frames.ONE_SIDED, seen_issue=seen)
    rep.require_count("C01-4.frame-agreement", "clamp/scaling/callback sites analysed over the one-sided bound patterns", n1, 100)
    rep.guarded(rule_shift_base, eng, rep)
    rep.guarded(rule_scaling_needs_two_sided_bounds, eng, rep)
    rep.extra["configurations"] = [repr(c) for c in frames.CONFIGS + frames.ONE_SIDED]
    from .mirrorrule import rule_mirror
    rep.guarded(rule_mirror, eng, rep, 'C01-8.x0-is-pushed-onto-either-bound-symmetrically', ['solver.solve'])


def thorough(eng, rep):
    """Whole product scaling x projections x regulariser x bound pattern (32 configurations; the quick tier runs 12 of them)."""
    done = set(repr(c) for c in frames.CONFIGS + frames.ONE_SIDED)
    rest = [c for c in frames.FULL_PRODUCT if repr(c) not in done]
    seen = getattr(rep, "_frames_seen", set())
    n = rule_frames(eng, rep, configs=rest, seen_issue=seen)
    rep.require_count("C01-4.frame-agreement", "clamp/scaling/callback sites analysed over the remaining %d configurations of the product" % len(rest), n, 100)
    rep.extra["configurations"] = [repr(c) for c in frames.FULL_PRODUCT]
