"""C15 -- Dykstra's projection (structural clauses: sweep bound, result = last projector's output, the two premises of
the sqrt(p*tol) feasibility bound).  Accuracy / distance statements are numerical and not decided."""
import ast

from ..loader import AnalysisError, ekey
from ..norm import atom_of, const_value
from ..dataflow import Flow
from .. import affine
from .common import mentions, short, guards_of
from .c02 import _is_incr_of, _in_loop


def _dykstra(eng):
    from .common import lowered_enumerate
    fi, cfg = lowered_enumerate(eng, eng.fn("util.dykstra"))      # `for i, proj in enumerate(P): proj(..)` is read as `for i in range(0, len(P)): P[i](..)`
    wl = [(h, st) for (h, kind, st) in cfg.loops if kind == "while"]
    fl = [(h, st) for (h, kind, st) in cfg.loops if kind == "for"]
    if len(wl) != 1 or len(fl) != 1:
        raise AnalysisError("dykstra: expected one sweep loop (while) and one inner loop (for), found %d/%d" % (len(wl), len(fl)))
    return fi, cfg, wl[0], fl[0]


def rule_sweep_bound(eng, rep, rule="C15-1.at-most-max_iter-sweeps"):
    fi, cfg, (wh, wst), (fh, fst) = _dykstra(eng)
    # the conjunct  counter < max_iter  of the loop test
    maxp = None
    counter = None
    for n in cfg.nodes_of_kind("cond"):
        if cfg.stmt_of(n) is wst:
            at = atom_of(cfg.ast_of(n), True)
            if at.op == "lt" and isinstance(at.lhs, ast.Name) and isinstance(at.rhs, ast.Name) and at.rhs.id in fi.all_params:
                counter, maxp, cnode = at.lhs.id, at.rhs.id, n
    site = eng.where(fi, wst)
    if counter is None:
        rep.bad(rule, site, "util.dykstra|no-sweep-bound", "the sweep loop has no conjunct `counter < <parameter>`: the number of sweeps is unbounded")
        return
    # the bound conjunct must be able to end the loop on its own: its false edge leaves the loop
    leaves = [m for m, e in cfg.succ(cnode) if e["label"] is False and not _in_loop(cfg, wh, m)]
    if not leaves:
        rep.bad(rule, site, "util.dykstra|sweep-bound-not-conjunct", "`%s < %s` is not a conjunct of the loop test (its false edge stays in the loop)" % (counter, maxp))
    # initial value: literal 0 ; increments: exactly +1 on every path through the body ; no other writes
    defs_before = [d for (v, d) in cfg.reaching_defs()[wh] if v == counter and not _in_loop(cfg, wh, d)]
    init_ok = bool(defs_before) and all(isinstance(cfg.ast_of(d), ast.Assign) and const_value(cfg.ast_of(d).value) == 0 for d in defs_before)

    def node_fn(n, s):
        if n == wh:
            return [0]
        st = cfg.ast_of(n)
        if cfg.kind(n) == "stmt":
            inc = _is_incr_of(st, counter)
            if inc == 1:
                return [min(s + 1, 2)]
            if inc is not None:
                return [9]
            if _is_incr_of(st, maxp) is not None:
                return [9]
        return [s]

    fl = Flow(cfg, 0, node_fn)
    back = [(a, s) for a in cfg.g.nodes for s in fl.states(a) for m, e in cfg.succ(a, with_exc=False) if m == wh and e["kind"] in ("back", "continue")]
    counts = set(list(node_fn(a, s))[0] for (a, s) in back)
    if init_ok and counts == {1}:
        rep.ok(rule, site, "`%s` starts at the literal 0, the loop test has the conjunct `%s < %s`, and every path through the body increments it by exactly 1" % (counter, counter, maxp))
    else:
        rep.bad(rule, site, "util.dykstra|sweep-counter|init=%s,incr=%s" % (init_ok, sorted(counts)),
                "sweep counter `%s`: initial literal 0: %s; increments per sweep over all paths: %s (must be exactly 1; 9 = overwritten)" % (counter, init_ok, sorted(counts)))
    return counter, maxp


def rule_result_is_last_projector(eng, rep, rule="C15-2.result-is-the-last-projectors-output"):
    fi, cfg, (wh, wst), (fh, fst) = _dykstra(eng)
    rets = [n for n, d in cfg.g.nodes(data=True) if d["kind"] == "stmt" and isinstance(d["ast"], ast.Return)]
    P = fi.posparams[0]
    for r in rets:
        v = cfg.ast_of(r).value
        site = eng.where(fi, cfg.ast_of(r))
        if not isinstance(v, ast.Name):
            rep.bad(rule, site, "util.dykstra|returns-expression", "dykstra returns `%s`: arithmetic after the last projector" % short(v))
            continue
        okc = True
        for dn in cfg.defs_reaching(v, v.id):
            st = cfg.ast_of(dn)
            val = st.value if isinstance(st, ast.Assign) else None
            if isinstance(val, ast.Call) and isinstance(val.func, ast.Subscript) and ekey(val.func.value) == P:
                # x = P[i](...) inside the inner loop over all projectors
                idx = val.func.slice
                it = fst.iter
                full = isinstance(it, ast.Call) and ekey(it.func) == "range" and _range_covers_len(cfg, it, P) and isinstance(idx, ast.Name) and ekey(fst.target) == idx.id
                if not (full and _in_loop(cfg, fh, dn)):
                    okc = False
                    rep.bad(rule, site, "util.dykstra|inner-loop-not-over-all-projectors", "the projector application `%s` is not inside a loop over range(len(%s))" % (short(st), P))
            elif isinstance(val, ast.Call) and isinstance(val.func, ast.Attribute) and val.func.attr == "copy" and not _in_loop(cfg, wh, dn):
                continue  # zero sweeps: the copy of the input
            else:
                okc = False
                rep.bad(rule, site, "util.dykstra|result-touched-after-projection|%s" % short(st, 40), "the returned `%s` can be defined by `%s`, which is not a projector output" % (v.id, short(st, 60)))
        if okc:
            rep.ok(rule, site, "returned `%s` is defined only by `%s[i](...)` in a loop over all projectors (or the initial copy when no sweep runs)" % (v.id, P))


def _range_covers_len(cfg, it, P):
    args = it.args
    if len(args) == 1:
        start, stop = None, args[0]
    elif len(args) == 2:
        start, stop = args
    else:
        return False
    if start is not None and const_value(start) != 0:
        return False
    if isinstance(stop, ast.Call) and ekey(stop.func) == "len" and ekey(stop.args[0]) == P:
        return True
    if isinstance(stop, ast.Name):
        defs = cfg.defs_reaching(stop, stop.id)
        return bool(defs) and all(isinstance(cfg.ast_of(d), ast.Assign) and ekey(cfg.ast_of(d).value) == "len(%s)" % P for d in defs)
    return False


def rule_stopping_quantity(eng, rep, rule="C15-3.stopping-quantity-sums-every-correction-change"):
    fi, cfg, (wh, wst), (fh, fst) = _dykstra(eng)
    tolp = None
    cvar = None
    for n in cfg.nodes_of_kind("cond"):
        if cfg.stmt_of(n) is wst:
            at = atom_of(cfg.ast_of(n), True)
            if at.op == "le" and isinstance(at.lhs, ast.Name) and at.lhs.id in fi.all_params and isinstance(at.rhs, ast.Name):
                tolp, cvar = at.lhs.id, at.rhs.id        # tol <= cI
    site = eng.where(fi, wst)
    if cvar is None:
        rep.bad(rule, site, "util.dykstra|no-tolerance-conjunct", "the loop test has no conjunct `<accumulator> >= <tolerance parameter>`")
        return
    resets, accs, others = [], [], []
    for n, d in cfg.g.nodes(data=True):
        st = d["ast"]
        if d["kind"] != "stmt":
            continue
        if isinstance(st, ast.Assign) and len(st.targets) == 1 and ekey(st.targets[0]) == cvar:
            (resets if _in_loop(cfg, wh, n) else others).append(n)
        elif isinstance(st, ast.AugAssign) and ekey(st.target) == cvar:
            accs.append(n)
    okc = True
    if len(resets) != 1 or const_value(cfg.ast_of(resets[0]).value) != 0 or _in_loop(cfg, fh, resets[0]) or not cfg.dominates(resets[0], fh):
        okc = False
        rep.bad(rule, site, "util.dykstra|accumulator-reset", "`%s` is not reset to 0 exactly once at the top of each sweep (before the inner loop)" % cvar)
    if len(accs) != 1:
        okc = False
        rep.bad(rule, site, "util.dykstra|accumulator-updates-%d" % len(accs), "`%s` is accumulated at %d places (expected one, in the inner loop)" % (cvar, len(accs)))
    else:
        a = accs[0]
        st = cfg.ast_of(a)
        uncond = not [g for g in guards_of(cfg, a) if _in_loop(cfg, fh, g[0])]
        shape = isinstance(st.op, ast.Add) and isinstance(st.value, ast.BinOp) and isinstance(st.value.op, ast.Pow) and const_value(st.value.right) == 2 \
            and isinstance(st.value.left, ast.Call) and ekey(st.value.left.func).endswith("norm") \
            and isinstance(st.value.left.args[0], ast.BinOp) and isinstance(st.value.left.args[0].op, ast.Sub)
        if not (_in_loop(cfg, fh, a) and uncond and shape):
            okc = False
            rep.bad(rule, eng.where(fi, st), "util.dykstra|accumulator-shape", "`%s` is not increased unconditionally, once per projector, by the squared norm of the change of the correction vector" % short(st))
    # compared with tol only in the loop test
    for n in cfg.nodes_of_kind("cond"):
        if cvar in mentions(cfg.ast_of(n)) and cfg.stmt_of(n) is not wst:
            okc = False
            rep.bad(rule, eng.where(fi, cfg.ast_of(n)), "util.dykstra|accumulator-tested-elsewhere", "`%s` is tested outside the loop condition" % cvar)
    if okc:
        rep.ok(rule, site, "`%s` is reset per sweep, increased once per projector by ||prev_y - y_i||^2, and compared with `%s` only in the loop test" % (cvar, tolp))


def rule_substep_affine(eng, rep, rule="C15-4.each-substep-moves-x-by-the-change-of-its-correction-vector"):
    fi, cfg, (wh, wst), (fh, fst) = _dykstra(eng)
    se = affine.SymExec()
    try:
        st = se.run(fst.body)
    except AnalysisError as ex:
        rep.unknown(rule, eng.where(fi, fst), str(ex))
        return
    # identify x (returned variable) and the correction row y[i,:] (subscripted store in the loop)
    ret = [n for n in eng.prog.own_nodes(fi) if isinstance(n, ast.Return)][0].value
    xk = ekey(ret)
    yk = [k for k in st if k.endswith("[*]") and st[k] != affine.sym(k)]
    site = eng.where(fi, fst)
    if len(yk) != 1 or xk not in st:
        rep.unknown(rule, site, "cannot identify the iterate / correction variables in the inner loop")
        return
    yk = yk[0]
    x_old, y_old = affine.sym(xk), affine.sym(yk)
    lhs = affine.add(affine.add(st[yk], y_old, -1), affine.add(st[xk], x_old, -1), -1)
    # the projector is applied to x_old - y_old
    proj_calls = [c for c in se.calls if isinstance(c[1].func, ast.Subscript)]
    arg_ok = len(proj_calls) == 1 and proj_calls[0][2] and proj_calls[0][2][0] == affine.add(x_old, y_old, -1)
    # snapshots of an array row that is overwritten later in the same iteration must be copies, not views
    stored = set(ekey(t.value) for stt in fst.body if isinstance(stt, ast.Assign) for t in stt.targets if isinstance(t, ast.Subscript))
    for stt in fst.body:
        if isinstance(stt, ast.Assign) and isinstance(stt.value, ast.Subscript) and ekey(stt.value.value) in stored:
            rep.bad(rule, eng.where(fi, stt), "util.dykstra|snapshot-is-a-view|%s" % ekey(stt.targets[0]),
                    "`%s` takes a view of a row that is overwritten later in the iteration: the 'previous' value changes with it" % short(stt))
            arg_ok = False
    if not lhs and arg_ok:
        rep.ok(rule, site, "(y_i' - y_i) - (x' - x) has affine normal form 0 and the projector is applied to x - y_i (copies taken before the update)")
    else:
        if lhs:
            rep.bad(rule, site, "util.dykstra|substep-invariant", "(y_i' - y_i) - (x' - x) = %s, not 0: the stopping quantity no longer bounds the movement of x" % affine.fmt(lhs))
        if not arg_ok:
            rep.bad(rule, site, "util.dykstra|projector-argument", "the projector is not applied to (x - y_i) of the values before the update")


def rule_projector_argument_is_not_reused(eng, rep, rule="C15-4b.the-point-handed-to-a-projector-is-not-read-again"):
    """A user projection may work in place and return its argument.  The sweep is then still correct if the argument was a temporary (`P[i](prev_x - y[i])`), but not if
    it is a local that is read afterwards (`z = x - y[i]; x = P[i](z); y_new = x - z` gives a zero correction): every argument of a projector call must be an
    expression temporary, or a name with no read reachable from the call before its next assignment."""
    fi, cfg, (wh, wst), (fh, fst) = _dykstra(eng)
    P = fi.posparams[0]
    n = 0
    for node, d in cfg.g.nodes(data=True):
        st = d["ast"]
        if d["kind"] != "stmt" or st is None:
            continue
        for c in ast.walk(st):
            if isinstance(c, ast.Call) and isinstance(c.func, ast.Subscript) and ekey(c.func.value) == P:
                n += 1
                for a in c.args:
                    if not isinstance(a, ast.Name):
                        rep.ok(rule, eng.where(fi, st), "the projector receives the temporary `%s`" % short(a, 40))
                        continue
                    redefs = [m for m in cfg.g.nodes if a.id in cfg.defs_of(m)[0]]
                    later = None
                    for m, dd in cfg.g.nodes(data=True):
                        s2 = dd["ast"]
                        if s2 is None or m == node:
                            continue
                        reads = [x for x in ast.walk(s2) if isinstance(x, ast.Name) and x.id == a.id and isinstance(x.ctx, ast.Load)] if dd["kind"] in ("stmt", "cond") else []
                        if reads and cfg.path_avoiding(node, m, [r for r in redefs if r != m]) is not None:
                            later = s2
                            break
                    # a read in the very statement of the call, evaluated after the call?  (x = P(z) - z)
                    same = [x for x in ast.walk(st) if isinstance(x, ast.Name) and x.id == a.id and isinstance(x.ctx, ast.Load) and x is not a]
                    if later is not None or same:
                        rep.bad(rule, eng.where(fi, st), "util.dykstra|projector-argument-read-again|%s" % a.id,
                                "`%s` is handed to a projector and read again in `%s`: an in-place projector returns the same array, the correction computed from the two is zero and the sweep 'converges' to a point outside the sets"
                                % (a.id, short(later if later is not None else st, 50)))
                    else:
                        rep.ok(rule, eng.where(fi, st), "`%s` is not read after the projector call" % a.id)
    rep.require_count(rule, "projector calls in dykstra", n, 1)


def rule_limits_are_the_callers(eng, rep, rule="C15-3b.the-loop-tests-the-callers-tolerance-and-sweep-limit"):
    """The sqrt(p*tol) bound and 'at most max_iter sweeps' are statements about the values the caller passed: the loop test must compare against the parameters
    themselves, so neither parameter may be re-assigned inside dykstra (e.g. a 'scale-invariant' tol = tol * max(1, |x0|^2))."""
    dy = _dykstra(eng)[0] if isinstance(_dykstra(eng), tuple) else eng.fn("util.dykstra")
    cfg = eng.cfg(dy)
    names = [p for p in dy.all_params if p in ("tol", "max_iter")] or dy.posparams[2:4]
    for p in names:
        redefs = [n for n in cfg.g.nodes if n != cfg.entry and p in cfg.defs_of(n)[0]]
        if redefs:
            st = cfg.ast_of(redefs[0])
            rep.bad(rule, eng.where(dy, st), "util.dykstra|limit-reassigned|%s" % p,
                    "`%s` re-assigns the parameter `%s`: the loop no longer tests the value the caller asked for, so the sqrt(p*tol) distance bound / the sweep limit stated for that value do not follow" % (short(st, 50), p))
        else:
            rep.ok(rule, eng.where(dy), "parameter `%s` is never re-assigned: the loop test uses the caller's value" % p)
    # the loop test itself: `n < max_iter` and `cI >= tol` over those parameters
    tests = [ekey(cfg.ast_of(n)) for n in cfg.nodes_of_kind("cond")]
    for p in names:
        if not any(p in [x.id for x in ast.walk(cfg.ast_of(n)) if isinstance(x, ast.Name)] for n in cfg.nodes_of_kind("cond")):
            rep.bad(rule, eng.where(dy), "util.dykstra|limit-not-tested|%s" % p, "no loop test mentions the parameter `%s` (tests: %s)" % (p, tests))


def rule_complete_sweeps(eng, rep, rule="C15-2c.projectors-are-applied-in-complete-sweeps"):
    """'The result is the last projector's output' (the callers put the bound box / the trust-region ball last) needs the routine to stop only after the last set of a sweep.
    Every projector call `P[i](..)` sits in a `for` over all of range(len(P)), nested in the sweep loop, whose test is therefore evaluated between complete sweeps only.
    A flat loop (`i = n % p`) whose stopping test does not look at the position in the sweep can end after any set."""
    from .common import lowered_enumerate
    fi, cfg = lowered_enumerate(eng, eng.fn("util.dykstra"))
    P = fi.posparams[0]
    ncalls = 0
    for n, d in cfg.g.nodes(data=True):
        node = d["ast"]
        if node is None or d["kind"] not in ("stmt", "cond"):
            continue
        for sub in ast.walk(node):
            if not (isinstance(sub, ast.Call) and isinstance(sub.func, ast.Subscript) and isinstance(sub.func.value, ast.Name) and sub.func.value.id == P):
                continue
            ncalls += 1
            idx = sub.func.slice
            site = eng.where(fi, cfg.stmt_of(n) or node)
            fors = [(h, st) for (h, kind, st) in cfg.loops if kind == "for" and n in cfg.loop_nodes(h)]
            full = [(h, st) for (h, st) in fors if isinstance(idx, ast.Name) and ekey(st.target) == idx.id and isinstance(st.iter, ast.Call) and ekey(st.iter.func) == "range"]
            if full:
                h, st = full[0]
                if any(isinstance(x, ast.Break) for x in ast.walk(st)):
                    rep.bad(rule, site, "util.dykstra|sweep-can-be-cut-short", "the loop over the sets contains a `break`: a sweep can end before the last set")
                else:
                    rep.ok(rule, site, "`%s` is called for every %s of `for %s in %s`, and the stopping test is evaluated between complete sweeps" % (short(sub.func, 20), idx.id, idx.id, short(st.iter, 30)))
                continue
            whiles = [(h, st) for (h, kind, st) in cfg.loops if kind == "while" and n in cfg.loop_nodes(h)]
            if not whiles:
                rep.unknown(rule, site, "projector call `%s` outside any loop" % short(sub, 40))
                continue
            h, wst = whiles[-1]
            # which conjuncts of the loop test can end the loop, and do they look at the position in the sweep?
            idx_names = set(x.id for x in ast.walk(idx) if isinstance(x, ast.Name))
            blind = []
            for cn in cfg.nodes_of_kind("cond"):
                if cfg.stmt_of(cn) is wst:
                    leaves = [m for m, e in cfg.succ(cn) if e["label"] is False and m not in cfg.loop_nodes(h)]
                    if leaves and not (set(x.id for x in ast.walk(cfg.ast_of(cn)) if isinstance(x, ast.Name)) & idx_names):
                        at = atom_of(cfg.ast_of(cn), True)
                        # a pure iteration bound `counter < limit` ends the loop at a fixed count; anything else can become false after any set
                        if not (at.op in ("lt", "le") and isinstance(at.lhs, ast.Name) and _is_counter(cfg, h, at.lhs.id)):
                            blind.append(cfg.ast_of(cn))
            if blind:
                rep.bad(rule, site, "util.dykstra|stop-inside-a-sweep",
                        "`%s` is applied in a flat loop (index `%s`), and the stopping test `%s` does not look at the position in the sweep: the routine can stop after a set other than the "
                        "last one, so the result need not lie in the set its callers put last (bound box / trust-region ball)" % (short(sub.func, 20), short(idx, 20), short(blind[0], 40)))
            else:
                rep.unknown(rule, site, "projector call `%s` is not inside a `for` over all sets" % short(sub, 40))
    rep.require_count(rule, "projector calls in dykstra", ncalls, 1)


def _is_counter(cfg, head, name):
    """every write to `name` inside the loop is an increment by a literal"""
    okc = False
    for n in cfg.loop_nodes(head):
        st = cfg.ast_of(n)
        if cfg.kind(n) != "stmt":
            continue
        strong, weak = cfg.defs_of(n)
        if name in strong or name in weak:
            if _is_incr_of(st, name) is None:
                return False
            okc = True
    return okc


def rule_pball_is_total(eng, rep, rule="C15-2d.pball-never-divides-by-a-distance-that-can-vanish"):
    """The ball projector is applied to points that coincide with its centre all the time (a zero model gradient: trproj(xopt); a start point that is the centre).
    Every division in pball must therefore have a denominator that is positive for every x: max(distance, radius) with the radius positive by the callers' contract --
    not a bare distance, which is 0 at the centre (0/0 = nan, after which `nan >= tol` is False and Dykstra stops 'by its rule')."""
    from .common import expand_locals
    pb = eng.fn("util.pball")
    cfg = eng.cfg(pb)
    radius = pb.posparams[2] if len(pb.posparams) > 2 else None

    def sign(e, at, depth=4):
        """'pos' / 'nonneg' (can be zero) / None"""
        if isinstance(e, ast.Constant) and isinstance(e.value, (int, float)) and not isinstance(e.value, bool):
            return "pos" if e.value > 0 else "nonneg" if e.value == 0 else None
        if isinstance(e, ast.Name):
            if e.id == radius:
                return "pos"
            if depth > 0:
                e2 = expand_locals(cfg, at, e, depth=1)
                if not (isinstance(e2, ast.Name) and e2.id == e.id):
                    return sign(e2, at, depth - 1)
            return None
        if isinstance(e, ast.Call):
            name = ekey(e.func).split(".")[-1]
            args = list(e.args)
            if name in ("max", "maximum", "amax", "fmax"):
                if len(args) == 1 and isinstance(args[0], (ast.List, ast.Tuple)):
                    args = list(args[0].elts)
                ss = [sign(a, at, depth) for a in args]
                if "pos" in ss:
                    return "pos"
                if "nonneg" in ss:
                    return "nonneg"
                return None
            if name in ("norm", "sqrt", "abs", "fabs", "sumsq", "hypot"):
                return "nonneg"
            if name in ("float",) and args:
                return sign(args[0], at, depth)
            return None
        if isinstance(e, ast.BinOp) and isinstance(e.op, ast.Add):
            a, b = sign(e.left, at, depth), sign(e.right, at, depth)
            if a and b:
                return "pos" if "pos" in (a, b) else "nonneg"
            return None
        if isinstance(e, ast.BinOp) and isinstance(e.op, (ast.Mult, ast.Div)):
            a, b = sign(e.left, at, depth), sign(e.right, at, depth)
            if a == "pos" and b == "pos":
                return "pos"
            if a and b and isinstance(e.op, ast.Mult):
                return "nonneg"
            return None
        if isinstance(e, ast.BinOp) and isinstance(e.op, ast.Pow):
            a = sign(e.left, at, depth)
            return a
        return None

    ndiv = 0
    for n, d in cfg.g.nodes(data=True):
        node = d["ast"]
        if node is None or d["kind"] not in ("stmt", "cond"):
            continue
        for sub in ast.walk(node):
            if isinstance(sub, ast.BinOp) and isinstance(sub.op, (ast.Div, ast.FloorDiv, ast.Mod)):
                ndiv += 1
                sg = sign(sub.right, node)
                site = eng.where(pb, node if isinstance(node, ast.stmt) else cfg.stmt_of(n) or node)
                if sg == "pos":
                    rep.ok(rule, site, "denominator `%s` is positive for every x (it is at least the radius)" % short(sub.right, 40))
                elif sg == "nonneg":
                    rep.bad(rule, site, "util.pball|denominator-can-vanish|%s" % short(sub.right, 25),
                            "`%s` divides by `%s`, a distance that is 0 when the point is the centre of the ball: the projector returns nan there (the trust-region ball is projected "
                            "at its own centre whenever a step is zero)" % (short(sub, 50), short(sub.right, 30)))
                else:
                    rep.unknown(rule, site, "cannot bound the denominator `%s` away from zero" % short(sub.right, 40))
    rep.require_count(rule, "divisions in pball", ndiv, 1)


def run(eng, rep):
    rep.explain("C15: on util.dykstra's CFG -- counting data-flow for the sweep counter (T3), reaching definitions of the returned variable (T4), "
                "shape and placement of the stopping accumulator, and symbolic execution of one inner iteration over affine normal forms (T7) showing that "
                "each sub-step moves x by exactly the change of its correction vector (the two premises of the sqrt(p*tol) feasibility bound).")
    rep.explain("Also decided: tol and max_iter are never re-assigned, so the loop tests the caller's values (C15-3b); pbox is an exact two-sided clamp of its own parameters (C15-2b).")
    rep.not_decided += ["distance to each set / 1e-3 optimality / 'unchanged up to rounding' (numerical)"]
    for r in (rule_pball_is_total, rule_complete_sweeps, rule_sweep_bound, rule_result_is_last_projector, rule_stopping_quantity, rule_substep_affine, rule_limits_are_the_callers,
              rule_projector_argument_is_not_reused):
        try:
            r(eng, rep)
        except AnalysisError as ex:       # an unrecognised shape stops this rule only: a definite violation found by another rule must still be reported
            rep.unknown(r.__name__, "dfols/util.py:dykstra", str(ex))
    # the two projectors
    pb = eng.fn("util.pbox")
    r = [n for n in eng.prog.own_nodes(pb) if isinstance(n, ast.Return)]
    px, pl, pu = (pb.posparams + [None, None, None])[:3]

    def fname(c):
        return ekey(c.func).split(".")[-1] if isinstance(c, ast.Call) else None

    def two_sided_clamp(v):
        """min(max(x, l), u) / max(min(x, u), l) with either argument order, or clip(x, l, u): both bounds applied, nothing else"""
        if fname(v) == "clip" and len(v.args) == 3 and [ekey(a) for a in v.args] == [px, pl, pu]:
            return True
        for outer, inner, ob, ib in (("minimum", "maximum", pu, pl), ("maximum", "minimum", pl, pu)):
            if fname(v) == outer and len(v.args) == 2 and not v.keywords:
                for a, b_ in ((v.args[0], v.args[1]), (v.args[1], v.args[0])):
                    if ekey(b_) == ob and fname(a) == inner and len(a.args) == 2 and not a.keywords and sorted(ekey(z) for z in a.args) == sorted([px, ib]):
                        return True
        return False

    if len(r) == 1 and two_sided_clamp(r[0].value):
        rep.ok("C15-2b.pbox-is-a-clamp", eng.where(pb), "pbox returns a pure two-sided clamp of its first argument against its second and third (`%s`): its output lies exactly in the box" % short(r[0].value))
    else:
        txt = ekey(r[0].value) if r else "?"
        rep.bad("C15-2b.pbox-is-a-clamp", eng.where(pb), "util.pbox|not-a-clamp", "pbox returns `%s`, which is not min(max(x, l), u) / max(min(x, u), l) / clip(x, l, u): a bound is not applied, or something happens after the clamp" % txt[:60])
