"""C19 -- results are reproducible and caller data are never modified.

Decided: every use of NumPy's global generator is control dependent, along every call path from solve, on an option
documented as random (guarded taint, T13); no other source of nondeterminism or hidden state (T1); caller-owned mutable
objects are copied before anything can write to them and are never handed on un-copied (T11).
"""
import ast

import networkx as nx

from ..loader import AnalysisError, ekey
from ..norm import atom_of, const_value, is_none
from ..dataflow import Flow
from .. import tables
from .common import capacity_fields, mentions, short, guards_of, param_keys_in, assigned_names

RANDOM_KEYS = set(k for (k, _r) in tables.RANDOM_OPTION_KEYS)


def _growing_locals(eng, fi, cfg):
    """Boolean locals that mean 'the initial set is still growing / has finished growing' (defined from npt() >= num_pts)."""
    out = {}
    for n, d in cfg.g.nodes(data=True):
        st = d["ast"]
        if d["kind"] == "stmt" and isinstance(st, ast.Assign) and len(st.targets) == 1 and isinstance(st.targets[0], ast.Name):
            v = st.value
            if isinstance(v, ast.Compare) and len(v.ops) == 1 and "npt()" in ekey(v.left) and ekey(v.comparators[0]).split(".")[-1] in capacity_fields(eng):
                out[st.targets[0].id] = "finished" if isinstance(v.ops[0], (ast.GtE, ast.Gt, ast.Eq)) else "growing"
    return out


def _is_random_guard(eng, fi, cfg, at, glocals):
    """Atom (with outcome) that establishes a documented random option / the growing phase."""
    keys = param_keys_in(eng, at.lhs) | (param_keys_in(eng, at.rhs) if at.rhs is not None else set())
    if keys & RANDOM_KEYS:
        if at.op == "truth":
            return sorted(keys & RANDOM_KEYS)[0]
        if at.op == "lt" and const_value(at.lhs) == 0:      # 0 < params(key)
            return sorted(keys & RANDOM_KEYS)[0]
    if at.op in ("truth", "false") and isinstance(at.lhs, ast.Name) and at.lhs.id in glocals:
        kind = glocals[at.lhs.id]
        if (kind == "finished" and at.op == "false") or (kind == "growing" and at.op == "truth"):
            return "still growing (non-default growing.ndirs_initial / restarts.increase_npt)"
    if at.op == "lt" and "npt()" in ekey(at.lhs) and ekey(at.rhs).split(".")[-1] in capacity_fields(eng):
        return "still growing (non-default growing.ndirs_initial / restarts.increase_npt)"
    return None


def rule_rng_guarded(eng, rep, rule="C19-1.global-RNG-only-behind-a-documented-random-option"):
    # sources
    sources = [ci for ci in eng.res.calls.values() if ci.kind == "LIB" and ci.libname.startswith(("numpy.random", "random.", "scipy.stats.") ) and "linregress" not in ci.libname]
    if not rep.require_count(rule, "uses of the global generator", len(sources), 4):
        return
    # unguarded reachability from solve over call sites
    unguarded = {"solver.solve": ["solver.solve"]}
    work = ["solver.solve"]
    guard_of_site = {}
    while work:
        fid = work.pop()
        fi = eng.prog.functions[fid]
        cfg = eng.cfg(fi)
        gl = _growing_locals(eng, fi, cfg)
        for ci in eng.calls_in(fi):
            if not ci.targets:
                continue
            gs = guards_of(cfg, cfg.cfg_node(ci.node))
            g = None
            for (_b, a) in gs:
                g = g or _is_random_guard(eng, fi, cfg, a, gl)
            for t in ci.targets:
                if g is not None:
                    guard_of_site[(fid, t.fid)] = g
                    continue
                if t.fid not in unguarded:
                    unguarded[t.fid] = unguarded[fid] + [t.fid]
                    work.append(t.fid)
        for ch in fi.children:
            if ch.fid not in unguarded:
                unguarded[ch.fid] = unguarded[fid] + [ch.fid]
                work.append(ch.fid)
    reach = eng.reachable_from_solve()
    for ci in sources:
        fi = ci.caller
        site = eng.where(fi, ci.node)
        if fi.fid not in reach:
            rep.note(rule, site, "not reachable from solve")
            continue
        cfg = eng.cfg(fi)
        gl = _growing_locals(eng, fi, cfg)
        gs = guards_of(cfg, cfg.cfg_node(ci.node))
        local = None
        for (_b, a) in gs:
            local = local or _is_random_guard(eng, fi, cfg, a, gl)
        if local is not None:
            rep.ok(rule, site, "draw is control dependent on %s" % local)
            continue
        if fi.fid not in unguarded:
            # every call path passes a guarded call site
            gsites = sorted(set(v for (k, v) in guard_of_site.items()))
            rep.ok(rule, site, "every call path from solve to %s passes a call site guarded by a documented random option" % fi.qualname)
            continue
        # explicit, checked exception N1: the drawn value is used only under the rank-deficiency test of the fallback loop
        exc = _n1_exception(eng, fi, cfg, ci)
        if exc is True:
            rep.ok(rule, site, "N1: the value drawn here is used only inside the rank-deficiency fallback (`D_rank != num_directions`), which the deterministic attempts make unreachable for sets with interior")
            continue
        rep.bad(rule, site, "%s|unguarded-rng|%s" % (fi.fid, ci.libname),
                "`%s` runs on a path from solve that no documented random option guards (%s)%s: results depend on the state of the global generator"
                % (short(ci.node, 40), " -> ".join(unguarded[fi.fid][-4:]), "" if exc is None else "; " + exc))


def _n1_exception(eng, fi, cfg, ci):
    """The drawn value may only be *used* under a loop whose test contains `<rank> != <requested>`."""
    st = eng.prog.stmt_of(ci.node)
    if not (isinstance(st, ast.Assign) and len(st.targets) == 1 and isinstance(st.targets[0], ast.Name)):
        return None
    var = st.targets[0].id
    dn = cfg.cfg_node(st)
    uses = []
    for n, d in cfg.g.nodes(data=True):
        node = d["ast"]
        if node is None or d["kind"] not in ("stmt", "cond", "foriter"):
            continue
        for sub in ast.walk(node):
            if isinstance(sub, ast.Name) and sub.id == var and isinstance(sub.ctx, ast.Load) and (var, dn) in cfg.reaching_defs()[n]:
                uses.append(n)
    if not uses:
        return "the drawn value is never used"
    for u in uses:
        gs = guards_of(cfg, u)
        if not any(a.op == "ne" and "rank" in ekey(a.lhs).lower() for (_b, a) in gs):
            return "the drawn value `%s` is used outside the rank-deficiency fallback (%s)" % (var, cfg.describe(u))
    return True


def rule_random_defaults(eng, rep, rule="C19-1b.random-options-are-off-by-default"):
    """The guards of C19-1 accept a documented random option as justification.  That is only sound if those options are *off* unless the user turns
    them on: literal False / 0 defaults, `npt - 1` initial directions (no growing phase), and random initial directions by default exactly when the
    deterministic coordinate initialisation cannot be used (its own precondition npt <= (n+1)(n+2)/2 fails)."""
    from .c07 import param_registry
    from ..norm import atom_of
    defaults, typed = param_registry(eng)
    init = eng.fn("params.ParameterList.__init__")
    site = eng.where(init)
    # the precondition of the deterministic initialiser
    ci = eng.fn("controller.Controller.initialise_coordinate_directions")
    from .common import coordinate_precondition
    pre = coordinate_precondition(eng)
    for (key, _r) in tables.RANDOM_OPTION_KEYS:
        d = defaults.get(key)
        if d is None:
            rep.unknown(rule, site, "documented random option '%s' has no default" % key)
            continue
        okc, how = False, ""
        if isinstance(d, ast.Constant) and d.value in (False, 0):
            okc, how = True, "default %r" % d.value
        elif key == "growing.ndirs_initial" and ekey(d).replace(" ", "") == "npt-1":
            okc, how = True, "default npt - 1: the initial set is complete, no growing phase"
        elif key == "init.random_initial_directions" and isinstance(d, ast.IfExp) and isinstance(d.body, ast.Constant) and d.body.value is True \
                and isinstance(d.orelse, ast.Constant) and d.orelse.value is False and pre is not None:
            # default is True exactly when the deterministic initialiser's precondition fails:  cond  ==  not (npt <= K)
            t = d.test
            def norm(e):
                t_ = ekey(e).replace("self.n()", "n").replace(" ", "")
                for cf in capacity_fields(eng):
                    t_ = t_.replace("self.model.%s" % cf, "npt")
                return t_
            if isinstance(t, ast.Compare) and len(t.ops) == 1:
                exact = isinstance(t.ops[0], ast.Gt) and isinstance(pre.ops[0], ast.LtE) and norm(t.left) == norm(pre.left) and norm(t.comparators[0]) == norm(pre.comparators[0])
                exact = exact or (isinstance(t.ops[0], ast.GtE) and isinstance(pre.ops[0], ast.Lt) and norm(t.left) == norm(pre.left) and norm(t.comparators[0]) == norm(pre.comparators[0]))
                if exact:
                    okc, how = True, "default is True exactly when `%s` (the precondition of the coordinate initialisation) fails" % ekey(pre)
                else:
                    how = "default `%s` is not the exact negation of the coordinate initialiser's precondition `%s`: some supported npt gets random directions without the user asking" % (ekey(d), ekey(pre))
        if okc:
            rep.ok(rule, site, "'%s': %s" % (key, how))
        else:
            rep.bad(rule, site, "params|random-option-on-by-default|%s" % key, how or "documented random option '%s' defaults to `%s`: results depend on the global generator without the user enabling anything" % (key, ekey(d)))


BAD_IMPORTS = {"random", "time", "uuid", "secrets", "datetime"}
BAD_CALLS = {"id", "hash", "input"}
# library routines that start from a random vector of their own unless one is passed (ARPACK / LOBPCG / randomised SVD): (dotted name, keyword that makes them deterministic)
RANDOM_START_LIB = {"scipy.sparse.linalg.eigsh": "v0", "scipy.sparse.linalg.eigs": "v0", "scipy.sparse.linalg.svds": "v0", "scipy.sparse.linalg.lobpcg": None,
                    "scipy.linalg.interpolative.svd": None, "scipy.sparse.linalg.lsmr": None if False else "x0"}


def rule_no_hidden_state(eng, rep, rule="C19-2.no-other-nondeterminism-or-hidden-state"):
    reach = eng.reachable_from_solve()
    for mi in eng.prog.modules.values():
        for name, lib in mi.lib_aliases.items():
            root = lib.split(".")[0]
            if root in BAD_IMPORTS:
                rep.bad(rule, "dfols/%s.py" % mi.name, "%s|imports|%s" % (mi.name, root), "module imports `%s`" % lib)
    nfun = 0
    for fid in sorted(reach):
        fi = eng.prog.functions[fid]
        nfun += 1
        for node in eng.prog.own_nodes(fi):
            site = eng.where(fi, node)
            if isinstance(node, (ast.Global, ast.Nonlocal)):
                rep.bad(rule, site, "%s|global-statement|%s" % (fid, ",".join(node.names)), "`%s`: state shared between calls of solve" % short(node))
            elif isinstance(node, ast.Call):
                ci = eng.res.calls.get(id(node))
                if ci and ci.kind == "BUILTIN" and ci.libname in BAD_CALLS:
                    rep.bad(rule, site, "%s|calls|%s" % (fid, ci.libname), "`%s(...)` depends on the process state" % ci.libname)
                if ci and ci.kind == "LIB" and ci.libname.split(".")[0] in ("os",) and "urandom" in ci.libname:
                    rep.bad(rule, site, "%s|calls|os.urandom" % fid, "os.urandom")
                if ci and ci.kind == "LIB" and ci.libname in RANDOM_START_LIB and ci.libname.split(".")[-1] not in ("lsmr",):
                    kw = RANDOM_START_LIB[ci.libname]
                    if kw is None or not any(k.arg == kw for k in node.keywords):
                        rep.bad(rule, site, "%s|calls|%s" % (fid, ci.libname),
                                "`%s(...)` starts from a random vector of its own (not drawn from numpy's global generator, not controlled by any documented option): the last bits of its result, "
                                "and with them the evaluation points, differ between identical calls%s" % (ci.libname, "" if kw is None else " -- unless `%s=` is passed" % kw))
            elif isinstance(node, (ast.For, ast.comprehension)):
                it = node.iter
                if isinstance(it, (ast.Set, ast.SetComp)) or (isinstance(it, ast.Call) and isinstance(it.func, ast.Name) and it.func.id in ("set", "frozenset")):
                    rep.bad(rule, site, "%s|iterates-over-set" % fid, "iteration over a set: order depends on hashing")
            elif isinstance(node, (ast.Assign, ast.AugAssign)):
                tg = node.targets if isinstance(node, ast.Assign) else [node.target]
                for t in tg:
                    root = t
                    while isinstance(root, (ast.Subscript, ast.Attribute)):
                        root = root.value
                    if isinstance(root, ast.Name) and eng.res.scope_of(fi, root.id) is None and not isinstance(t, ast.Name):
                        r = eng.res.module_symbol(fi.module, root.id)
                        if r is not None and r[0] in ("glob", "cls"):
                            rep.bad(rule, site, "%s|writes-module-state|%s" % (fid, root.id), "`%s` writes module/class level state" % short(node))
        # mutable default arguments must not be mutated
        for p, dflt in fi.defaults.items():
            if isinstance(dflt, (ast.List, ast.Dict, ast.Set)):
                cfg = eng.cfg(fi)
                mutated = False
                for n, d in cfg.g.nodes(data=True):
                    strong, weak = cfg.defs_of(n)
                    if p in weak and (p, cfg.entry) in cfg.reaching_defs()[n]:
                        mutated = True
                        rep.bad(rule, eng.where(fi, d["ast"]), "%s|mutates-default-argument|%s" % (fid, p), "the mutable default of `%s` can be mutated: state leaks between calls" % p)
                if not mutated:
                    rep.ok(rule, eng.where(fi), "mutable default of `%s` is never mutated (no in-place write reaches the parameter's entry value)" % p)
    # class bodies: a mutable object created in the class body is one object shared by every instance (and every call of solve) until an instance re-binds it
    ncls = 0
    for cname, cinfo in sorted(eng.prog.classes.items()):
        ncls += 1
        for st in cinfo.node.body:
            if isinstance(st, (ast.Assign, ast.AnnAssign)) and getattr(st, "value", None) is not None:
                v = st.value
                mutable = isinstance(v, (ast.List, ast.Dict, ast.Set, ast.ListComp, ast.DictComp, ast.SetComp)) or \
                    (isinstance(v, ast.Call) and ekey(v.func).split(".")[0] in ("list", "dict", "set", "np", "numpy", "collections", "deque", "defaultdict", "bytearray"))
                names = [ekey(t) for t in (st.targets if isinstance(st, ast.Assign) else [st.target])]
                if mutable:
                    rep.bad(rule, "dfols/%s.py:%s:%d" % (cinfo.module, cname, st.lineno), "%s.%s|class-level-mutable|%s" % (cinfo.module, cname, "+".join(names)),
                            "class attribute `%s = %s` is a single mutable object shared by all instances of %s: what one solve() appends to it is still there in the next one" % (names[0], short(v, 30), cname))
    rep.ok(rule, "package", "%d functions reachable from solve: no global/nonlocal, id/hash/time/random/uuid, set iteration or module-state write; %d class bodies without mutable class attributes" % (nfun, ncls))
    # ParameterList is built inside solve
    solve = eng.fn("solver.solve")
    ctor = [ci for ci in eng.calls_in(solve) if ci.kind == "CTOR" and any(t.cls == "ParameterList" for t in ci.targets)]
    if ctor:
        rep.ok(rule, eng.where(solve, ctor[0].node), "the parameter object is constructed fresh in every call of solve")
    else:
        rep.bad(rule, eng.where(solve), "solver.solve|ParameterList-not-fresh", "solve does not construct its ParameterList")


INPLACE_METHODS = {"append", "extend", "insert", "pop", "remove", "sort", "reverse", "clear", "update", "fill", "resize", "put", "setdefault", "popitem", "itemset", "partition", "byteswap"}
FRESH_METHODS = {"copy", "tolist", "flatten"}
ALIAS_METHODS = {"reshape", "ravel", "view", "squeeze", "transpose", "swapaxes", "items", "values", "keys", "get"}
ALIAS_LIB = {"numpy.asarray", "numpy.asanyarray", "numpy.ascontiguousarray", "numpy.atleast_1d", "numpy.atleast_2d", "numpy.ravel", "numpy.reshape", "numpy.squeeze", "numpy.transpose"}
MUTABLE_PARAMS = ("x0", "bounds", "user_params", "projections")


def rule_caller_data(eng, rep, rule="C19-3.caller-data-are-copied-before-any-write"):
    solve = eng.fn("solver.solve")
    cfg = eng.cfg(solve)
    owned = [p for p in MUTABLE_PARAMS if p in solve.all_params]
    if len(owned) != len(MUTABLE_PARAMS):
        raise AnalysisError("solve no longer has the parameters %s" % (MUTABLE_PARAMS,))

    def classify(e, st):
        """'caller' if the expression may denote (a view/alias of) caller-owned storage, else 'fresh'."""
        if isinstance(e, ast.Name):
            return "caller" if e.id in st else "fresh"
        if isinstance(e, (ast.Subscript, ast.Starred)):
            return classify(e.value, st)
        if isinstance(e, ast.Attribute):
            return classify(e.value, st) if e.attr in ("T", "real", "flat") else "fresh"
        if isinstance(e, ast.IfExp):
            return "caller" if "caller" in (classify(e.body, st), classify(e.orelse, st)) else "fresh"
        if isinstance(e, ast.BoolOp):
            return "caller" if any(classify(v, st) == "caller" for v in e.values) else "fresh"
        if isinstance(e, ast.Call):
            ci = eng.res.calls.get(id(e))
            f = e.func
            if ci and ci.kind == "METHOD":
                if ci.libname == "astype":
                    cp = [kw for kw in e.keywords if kw.arg == "copy"]
                    if cp and not (isinstance(cp[0].value, ast.Constant) and cp[0].value.value is True):
                        return classify(f.value, st)
                    return "fresh"
                if ci.libname in FRESH_METHODS:
                    return "fresh"
                if ci.libname in ALIAS_METHODS:
                    return classify(f.value, st)
                return "fresh"
            if ci and ci.kind == "LIB":
                if ci.libname in ALIAS_LIB or (ci.libname == "numpy.array" and any(kw.arg == "copy" and isinstance(kw.value, ast.Constant) and kw.value.value is False for kw in e.keywords)):
                    return classify(e.args[0], st) if e.args else "fresh"
                return "fresh"
            if ci and ci.kind == "BUILTIN":
                return "fresh"      # list(x), dict(x), tuple(x), float(x) ... build new objects
            if ci and ci.targets:
                # an internal function returns (a view of) an argument only through the parameters its return statements may alias
                from ..resolve import bind_call
                for (t, bound) in eng.res.call_targets(solve, e):
                    ap = alias_params(t)
                    b = bind_call(e, t, bound and t.is_method)
                    for pn, a in b.params.items():
                        if pn in ap and not isinstance(a, tuple) and classify(a, st) == "caller":
                            return "caller"
                return "fresh"
            return "fresh"
        if isinstance(e, (ast.Tuple, ast.List)):
            return "caller" if any(classify(x, st) == "caller" for x in e.elts) else "fresh"
        return "fresh"

    _alias_memo = {}

    def alias_params(t, depth=0):
        if t.fid in _alias_memo:
            return _alias_memo[t.fid]
        _alias_memo[t.fid] = set()
        out = set()
        if t.is_lambda or depth > 3:
            return out
        for node in eng.prog.own_nodes(t):
            if isinstance(node, ast.Return) and node.value is not None:
                for pn in t.all_params:
                    if _may_alias(node.value, pn):
                        out.add(pn)
        _alias_memo[t.fid] = out
        return out

    def _may_alias(e, pn):
        if isinstance(e, ast.Name):
            return e.id == pn
        if isinstance(e, (ast.Tuple, ast.List)):
            return any(_may_alias(x, pn) for x in e.elts)
        if isinstance(e, (ast.Subscript, ast.Starred)):
            return _may_alias(e.value, pn)
        if isinstance(e, ast.IfExp):
            return _may_alias(e.body, pn) or _may_alias(e.orelse, pn)
        if isinstance(e, ast.Attribute) and e.attr == "T":
            return _may_alias(e.value, pn)
        return False

    violations = []
    passes = []

    def node_fn(n, s):
        st = set(s)
        d = cfg.g.nodes[n]
        node = d["ast"]
        if d["kind"] == "for":
            # iteration variable over caller data: elements (keys/values) are immutable scalars/strings here; tracked as caller to be safe
            it = cfg.stmt_of(n).iter
            if classify(it, st) == "caller":
                for nm in assigned_names(node):
                    st.add(nm)
            return [frozenset(st)]
        if d["kind"] != "stmt":
            return [s]
        # in-place operations on caller-owned storage
        if isinstance(node, ast.Assign):
            for t in node.targets:
                if isinstance(t, (ast.Subscript, ast.Attribute)) and classify(t.value, st) == "caller":
                    violations.append((n, "`%s` stores into caller-owned data" % short(node)))
            cls_ = classify(node.value, st)
            for t in node.targets:
                for nm in assigned_names(t):
                    if cls_ == "caller":
                        st.add(nm)
                    else:
                        st.discard(nm)
        elif isinstance(node, ast.AugAssign):
            if classify(node.target, st) == "caller":
                violations.append((n, "`%s` updates caller-owned data in place" % short(node)))
        for sub in ast.walk(node) if not isinstance(node, (ast.FunctionDef,)) else []:
            if isinstance(sub, ast.Call):
                ci = eng.res.calls.get(id(sub))
                if ci and ci.kind == "METHOD" and ci.libname in INPLACE_METHODS and classify(sub.func.value, st) == "caller":
                    violations.append((n, "`%s` mutates caller-owned data" % short(sub)))
                if any(kw.arg == "out" and classify(kw.value, st) == "caller" for kw in sub.keywords):
                    violations.append((n, "`%s` writes into caller-owned data through out=" % short(sub)))
                if ci and ci.targets and ci.kind in ("INTERNAL", "CTOR"):
                    for a in list(sub.args) + [kw.value for kw in sub.keywords]:
                        if classify(a, st) == "caller" and isinstance(a, (ast.Name, ast.Subscript)):
                            root = a
                            while isinstance(root, ast.Subscript):
                                root = root.value
                            passes.append((n, sub, ekey(a), [t.fid for t in ci.targets]))
        return [frozenset(st)]

    Flow(cfg, frozenset(owned), node_fn)
    seen = set()
    for (n, msg) in violations:
        key = "solver.solve|in-place-on-caller-data|%s" % short(cfg.ast_of(n), 50)
        if key in seen:
            continue
        seen.add(key)
        rep.bad(rule, eng.where(solve, cfg.ast_of(n)), key, msg + ": solve modifies its caller's arguments")
    # hand-overs of still caller-owned mutable objects to internal callees (which may write to them)
    for (n, call, txt, tfids) in passes:
        key = "solver.solve|caller-data-handed-on|%s->%s" % (txt, tfids[0])
        if key in seen:
            continue
        seen.add(key)
        # read-only callee?  (ParameterList.__call__ with a key/value of user_params is fine: strings/scalars)
        if all(f == "params.ParameterList.__call__" for f in tfids):
            rep.ok(rule, eng.where(solve, call), "user_params entries are read (keys/values) and stored by value in the fresh ParameterList", nontrivial=False)
            continue
        if txt == "projections":
            # the (possibly empty / default) projection list is handed on: nobody may mutate a list that can be the caller's
            from .c09 import _is_fresh_copy
            bad_mut = []
            for fi2 in eng.prog.functions.values():
                for c2 in eng.calls_in(fi2):
                    f2 = c2.node.func
                    if c2.kind == "METHOD" and c2.libname in INPLACE_METHODS and isinstance(f2, ast.Attribute):
                        atoms = eng.res.ev(fi2, f2.value)
                        if any(a == ("L", ("U", "proj")) for a in atoms) or (fi2.fid != "solver.solve" and ekey(f2.value).endswith("projections")):
                            if not (isinstance(f2.value, ast.Name) and _is_fresh_copy(eng, fi2, f2.value)):
                                bad_mut.append((fi2, c2))
            if bad_mut:
                for (fi2, c2) in bad_mut:
                    rep.bad(rule, eng.where(fi2, c2.node), "%s|mutates-callers-projection-list" % fi2.fid, "`%s` can mutate the caller's projection list" % short(c2.node))
            else:
                rep.ok(rule, eng.where(solve, call), "`projections` may still be the caller's list when handed to %s, but every in-place list operation in the package acts on a fresh copy" % tfids[0])
            continue
        rep.bad(rule, eng.where(solve, call), key, "`%s` (still the caller's object) is handed to %s un-copied: any in-place update there modifies the caller's data" % (txt, tfids[0]))
    if not violations and not [p for p in passes if not all(f == "params.ParameterList.__call__" for f in p[3]) and p[2] != "projections"]:
        rep.ok(rule, eng.where(solve), "x0, bounds[0], bounds[1], projections are re-bound to fresh copies (astype / list) before any in-place operation; user_params is only iterated; "
               "nothing caller-owned and mutable is handed to another function")
    # positive control: the clamp-by-mask stores on the *fresh* x0 are seen by the matcher
    stores = [n for n, d in cfg.g.nodes(data=True) if d["kind"] == "stmt" and isinstance(d["ast"], ast.Assign) and any(isinstance(t, ast.Subscript) for t in d["ast"].targets)]
    rep.require_count(rule, "subscript stores inspected in solve (matcher alive)", len(stores), 2)


def rule_restores_use_copies(eng, rep, rule="C19-4.a-row-saved-for-restoring-is-a-copy"):
    """Save / overwrite / restore: `old = A[i]` ... `A[i] = new` ... `A[i] = old`.  If `old` is a plain basic-index view of `A` (no .copy(), no arithmetic) the
    restore copies the row onto itself: the candidate written in between is never reverted.  In the rank-deficiency fallback of the coordinate initialiser
    that is what keeps the result independent of the random selectors (exception N1 of C19-1): only the rank-raising change survives.  Decided for every
    function of the package: a store `A[i] = v` where every reaching definition of `v` is the view `A[i]` of the same array and index text, with a store to that
    region on a path in between."""
    n = 0
    for fi in eng.prog.functions.values():
        if fi.is_lambda:
            continue
        cands = []
        for node in eng.prog.own_nodes(fi):
            if isinstance(node, ast.Assign) and len(node.targets) == 1 and isinstance(node.targets[0], ast.Subscript) and isinstance(node.value, ast.Name):
                cands.append(node)
        if not cands:
            continue
        cfg = eng.cfg(fi)
        for st in cands:
            tgt = st.targets[0]
            try:
                defs = cfg.defs_reaching(st, st.value.id)
            except Exception:
                continue
            if not defs:
                continue
            kinds = []
            for dn in defs:
                ds = cfg.ast_of(dn)
                if isinstance(ds, ast.Assign) and len(ds.targets) == 1 and isinstance(ds.targets[0], ast.Name) and isinstance(ds.value, ast.Subscript) \
                        and ekey(ds.value) == ekey(tgt) and not any(isinstance(x, (ast.List, ast.Compare)) for x in ast.walk(ds.value.slice)):
                    kinds.append(("view", dn))
                elif isinstance(ds, ast.Assign) and isinstance(ds.value, ast.Call) and isinstance(ds.value.func, ast.Attribute) and ds.value.func.attr == "copy" \
                        and isinstance(ds.value.func.value, ast.Subscript) and ekey(ds.value.func.value) == ekey(tgt):
                    kinds.append(("copy", dn))
                elif isinstance(ds, ast.Assign) and isinstance(ds.value, ast.Call) and ekey(ds.value.func).split(".")[-1] in ("copy", "array") and ds.value.args \
                        and isinstance(ds.value.args[0], ast.Subscript) and ekey(ds.value.args[0]) == ekey(tgt):
                    kinds.append(("copy", dn))          # np.copy(A[i]) / np.array(A[i])
                else:
                    kinds.append(("other", dn))
            if not any(k in ("view", "copy") for (k, _d) in kinds):
                continue
            n += 1
            site = eng.where(fi, st)
            views = [d for (k, d) in kinds if k == "view"]
            if not views:
                rep.ok(rule, site, "`%s` is restored from a copy taken before the row was overwritten" % short(tgt))
                continue
            # is the region written between the view's creation and the restore?
            me = cfg.cfg_node(st)
            between = False
            for m, d in cfg.g.nodes(data=True):
                ms = d.get("ast")
                if d.get("kind") != "stmt" or m == me or not isinstance(ms, (ast.Assign, ast.AugAssign)):
                    continue
                tg = ms.targets if isinstance(ms, ast.Assign) else [ms.target]
                if not any(isinstance(t, ast.Subscript) and ekey(t.value) == ekey(tgt.value) for t in tg):
                    continue
                if any(cfg.path_avoiding(v, m, []) is not None for v in views) and cfg.path_avoiding(m, me, []) is not None:
                    between = True
            if between:
                rep.bad(rule, site, "%s|restore-from-a-view|%s" % (fi.fid, short(tgt, 30)),
                        "`%s = %s` restores the row from `%s`, which is a view of that very row (no copy): the value written in between is kept, the restore does nothing"
                        % (short(tgt), st.value.id, st.value.id))
            else:
                rep.ok(rule, site, "`%s` is written back from a view with no store in between (no-op)" % short(tgt), nontrivial=False)
    rep.require_count(rule, "save / restore pairs on array rows", n, 1)


def run(eng, rep):
    rep.explain("C19: guarded taint (T13) -- every call of numpy.random.* reachable from solve is control dependent, in its own function or at a call site on every call "
                "path, on a test that establishes an option from the frozen documented-random table or the growing phase (one checked exception, N1); inventory (T1) "
                "of other nondeterminism/hidden state over all functions reachable from solve; flow-sensitive ownership lattice {caller, fresh} over solve (T11): "
                "every in-place operation has a fresh receiver and no caller-owned mutable object is handed on.")
    rep.explain("Also decided: the documented random options are off by default, the default of init.random_initial_directions being the exact negation of the coordinate initialiser's precondition (C19-1b); no mutable object is created in a class body (C19-2).")
    rep.not_decided += ["bit-identical repetition additionally assumes deterministic NumPy/SciPy kernels (trusted)"]
    rep.assumptions += ["astype() copies by default, slicing/.T/reshape/asarray are views, list()/dict() build new containers"]
    rep.guarded(rule_rng_guarded, eng, rep)
    rep.guarded(rule_random_defaults, eng, rep)
    rep.guarded(rule_no_hidden_state, eng, rep)
    rep.guarded(rule_caller_data, eng, rep)
    rep.guarded(rule_restores_use_copies, eng, rep)
