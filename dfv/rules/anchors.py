"""Anchors derived from the repository on every run (never from line numbers).

  sink function      the one function that calls the user's objfun
  NF / NX ports      its parameters printed as "Function eval %i at point %i"
  evaluation sites   calls of the sink function and of Controller.evaluate_objective
"""
import ast
import re

from ..loader import AnalysisError, ekey
from ..resolve import bind_call
from ..roles import closure_back
from .common import arg_of

_CACHE = {}


class Anchors(object):
    def __init__(self, eng):
        self.eng = eng
        # --- the sink: function(s) that call objfun
        sinks = set()
        self.objfun_calls = []
        for ci in eng.res.calls.values():
            if ci.kind == "USER" and ci.role and "objfun" in ci.role.split("|"):
                sinks.add(ci.caller.fid)
                self.objfun_calls.append(ci)
        if len(sinks) != 1:
            self.sink = None
            self.sink_candidates = sorted(sinks)
        else:
            self.sink = eng.prog.functions[list(sinks)[0]]
            self.sink_candidates = sorted(sinks)
        self.nf_port = self.nx_port = None
        if self.sink is not None:
            self._ports()
        self.sink_calls = eng.calls_to(self.sink.fid) if self.sink is not None else []
        self.evalobj = eng.fn("controller.Controller.evaluate_objective")
        self.evalobj_calls = eng.calls_to(self.evalobj.fid)
        self.solve = eng.fn("solver.solve")
        self.solve_main = eng.fn("solver.solve_main")
        self.solve_main_calls = eng.calls_to(self.solve_main.fid)

    def _ports(self):
        """Which parameters of the sink are logged as evaluation number / point number."""
        fi = self.sink
        for node in self.eng.prog.own_nodes(fi):
            if isinstance(node, ast.BinOp) and isinstance(node.op, ast.Mod) and isinstance(node.left, ast.Constant) \
                    and isinstance(node.left.value, str) and isinstance(node.right, ast.Tuple):
                fmt = node.left.value
                m = re.search(r"eval\s+%[id]\s+at\s+point\s+%[id]", fmt)
                if not m:
                    continue
                convs = [mm.start() for mm in re.finditer(r"%[-+ #0]*\d*(?:\.\d+)?[a-zA-Z]", fmt)]
                first = [i for i, pos in enumerate(convs) if pos >= m.start()][0]
                a, b = node.right.elts[first], node.right.elts[first + 1]
                if isinstance(a, ast.Name) and isinstance(b, ast.Name) and a.id in fi.all_params and b.id in fi.all_params:
                    self.nf_port, self.nx_port = a.id, b.id
        if self.nf_port is None:
            raise AnalysisError("cannot find the 'Function eval i at point j' log statement in %s" % fi.fid)

    def sink_arg(self, ci, pname):
        return arg_of(self.eng, ci.node, self.sink, pname)

    def counter_closures(self):
        """(NF closure walk, NX closure walk): everything that flows into eval_num= / pt_num= by copies and +/-const."""
        vfg = self.eng.vfg
        nf_args, nx_args = [], []
        for ci in self.sink_calls:
            a, b = self.sink_arg(ci, self.nf_port), self.sink_arg(ci, self.nx_port)
            if a is None or b is None:
                raise AnalysisError("sink call without explicit %s=/%s= at %s" % (self.nf_port, self.nx_port, self.eng.where(ci.caller, ci.node)))
            nf_args.append(vfg.key_of(a))
            nx_args.append(vfg.key_of(b))
        return closure_back(vfg, nf_args), closure_back(vfg, nx_args), nf_args, nx_args


def anchors(eng):
    a = _CACHE.get(id(eng))
    if a is None:
        a = Anchors(eng)
        _CACHE[id(eng)] = a
    return a
