"""C14 -- initial interpolation set / random direction generators (generator clauses only: requested count, clamp is the
last write to every returned column).  Distances, affine independence and conditioning are numerical and not decided."""
import ast

from ..loader import AnalysisError, ekey
from ..norm import const_value
from .common import mentions, short, guards_of
from .c02 import _in_loop

GENS = ("util.random_directions_within_bounds", "util.random_orthog_directions_within_bounds")


def rule_generator(eng, rep, fid):
    rule_n = "C14-1.requested-number-of-directions"
    rule_c = "C14-2.clamp-is-the-last-write-to-every-returned-column"
    fi = eng.fn(fid)
    cfg = eng.cfg(fi)
    params = fi.posparams
    count, lower, upper = params[0], params[2], params[3]
    rets = [n for n, d in cfg.g.nodes(data=True) if d["kind"] == "stmt" and isinstance(d["ast"], ast.Return)]
    if not rets:
        rep.unknown(rule_n, eng.where(fi), "no return found")
        return
    # the main return is the last one in the text; any other (early) return is judged below: it must not be reachable without the final clamp
    rets.sort(key=lambda n: cfg.ast_of(n).lineno)
    r = rets[-1]
    early = rets[:-1]
    rv = cfg.ast_of(r).value
    # returned expression:  R.T  or  R[:, :count].T
    if not (isinstance(rv, ast.Attribute) and rv.attr == "T"):
        rep.bad(rule_n, eng.where(fi, cfg.ast_of(r)), "%s|return-shape" % fid, "returns `%s`, not the transposed result matrix" % short(rv))
        return
    base = rv.value
    sliced = None
    if isinstance(base, ast.Subscript):
        sl = base.slice
        if isinstance(sl, ast.Tuple) and len(sl.elts) == 2 and isinstance(sl.elts[1], ast.Slice) and sl.elts[1].lower is None and ekey(sl.elts[1].upper) == count:
            sliced = True
            arr = base.value
        else:
            rep.bad(rule_n, eng.where(fi, cfg.ast_of(r)), "%s|returned-slice|%s" % (fid, short(sl, 20)), "returned slice `%s` is not the first `%s` columns" % (short(base), count))
            return
    else:
        arr = base
    if not isinstance(arr, ast.Name):
        rep.unknown(rule_n, eng.where(fi), "result matrix is not a local")
        return
    A = arr.id
    # allocation(s): np.zeros((n, K)) with K == count, or K == max(.., count) when the result is sliced to count columns
    allocs = [d for d in cfg.defs_reaching(arr, A) if isinstance(cfg.ast_of(d), ast.Assign) and ekey(cfg.ast_of(d).targets[0]) == A]
    okn = bool(allocs)
    for dn in allocs:
        st = cfg.ast_of(dn)
        v = st.value
        shape = v.args[0] if isinstance(v, ast.Call) and ekey(v.func).endswith("zeros") and v.args else None
        if not (isinstance(shape, ast.Tuple) and len(shape.elts) == 2):
            okn = False
            continue
        K = shape.elts[1]
        if ekey(K) == count and not sliced:
            continue
        if sliced and isinstance(K, ast.Call) and ekey(K.func) == "max" and count in [ekey(a) for a in K.args]:
            continue
        if sliced and ekey(K) == count:
            continue
        okn = False
    if okn:
        rep.ok(rule_n, eng.where(fi, cfg.ast_of(r)), "result matrix has %s%s columns and exactly `%s` are returned" % ("max(.., %s) >= " % count if sliced else "", count, count))
    else:
        rep.bad(rule_n, eng.where(fi), "%s|allocation-vs-returned-count" % fid, "the allocated number of columns does not guarantee `%s` returned directions" % count)
    # clamp loop: for i in range(count): A[:, i] = max(min(A[:, i], upper), lower)
    clamp_loops = []
    for (h, kind, st) in cfg.loops:
        if kind != "for":
            continue
        body = [s for s in st.body if not isinstance(s, ast.Expr)]
        if len(body) == 1 and isinstance(body[0], ast.Assign) and isinstance(body[0].targets[0], ast.Subscript) and ekey(body[0].targets[0].value) == A:
            v = body[0].value
            is_clamp = isinstance(v, ast.Call) and ekey(v.func).endswith(("maximum", "minimum", "clip")) and {lower, upper} <= mentions(v) \
                and ekey(body[0].targets[0]) in [ekey(s) for s in ast.walk(v)]
            if is_clamp:
                clamp_loops.append((h, st, body[0]))
    site = eng.where(fi)
    if len(clamp_loops) != 1:
        rep.bad(rule_c, site, "%s|clamp-loop-count-%d" % (fid, len(clamp_loops)), "expected exactly one final clamp loop over the result columns, found %d" % len(clamp_loops))
        return
    h, st, asg = clamp_loops[0]
    for r2 in early:
        if cfg.path_avoiding(cfg.entry, r2, [h]) is not None:
            rep.bad(rule_c, eng.where(fi, cfg.ast_of(r2)), "%s|early-return-bypasses-clamp" % fid,
                    "`%s` hands back directions that never went through the final clamp against (%s, %s): they can leave the bounds" % (short(cfg.ast_of(r2), 60), lower, upper))
        elif ekey(cfg.ast_of(r2).value) != ekey(rv):
            rep.unknown(rule_c, eng.where(fi, cfg.ast_of(r2)), "a second return with a different value `%s`" % short(cfg.ast_of(r2).value, 50))
    it = st.iter
    trip_ok = isinstance(it, ast.Call) and ekey(it.func) == "range" and len(it.args) == 1 and ekey(it.args[0]) == count \
        and ekey(asg.targets[0].slice) == "(slice(None, None, None), %s)" % ekey(st.target) or ekey(asg.targets[0]) == "%s[:, %s]" % (A, ekey(st.target))
    trip_ok = trip_ok and isinstance(it, ast.Call) and len(it.args) == 1 and ekey(it.args[0]) == count
    if not trip_ok:
        rep.bad(rule_c, eng.where(fi, st), "%s|clamp-loop-trip-count" % fid, "the clamp loop does not run over range(%s) / column i" % count)
    # no other write to A after the clamp loop (on any path to the return), and every other write precedes it
    late = []
    for n, d in cfg.g.nodes(data=True):
        s2 = d["ast"]
        if d["kind"] != "stmt" or n in cfg.loop_nodes(h):
            continue
        strong, weak = cfg.defs_of(n)
        if A in strong or A in weak:
            if cfg.path_avoiding(h, n, []) is not None:
                late.append(n)
    if late:
        rep.bad(rule_c, eng.where(fi, cfg.ast_of(late[0])), "%s|write-after-clamp|%s" % (fid, short(cfg.ast_of(late[0]), 30)),
                "`%s` is written after the final clamp loop: a returned direction can leave the bounds" % A)
    elif cfg.path_avoiding(cfg.entry, r, [h]) is not None:
        rep.bad(rule_c, site, "%s|return-bypasses-clamp" % fid, "a path reaches the return without the clamp loop")
    elif trip_ok:
        rep.ok(rule_c, eng.where(fi, st), "the last write to every returned column is `%s` for i in range(%s)" % (short(asg, 60), count))


INF = float("inf")


def _interval(eng, fi, cfg, e, at, arr, depth=0):
    """Interval of a scalar step in units of delta: (lo, hi) or None (unknown).  Facts used: delta > 0, sl <= 0 <= su (bounds relative to the base point,
    which lies in the box), stored steps of earlier points are themselves within [-2, 2] (inductive)."""
    from ..norm import const_value
    if isinstance(e, ast.Attribute) and e.attr == "delta":
        return (1.0, 1.0)
    if isinstance(e, ast.UnaryOp) and isinstance(e.op, ast.USub):
        r = _interval(eng, fi, cfg, e.operand, at, arr, depth)
        return None if r is None else (-r[1], -r[0])
    if isinstance(e, ast.BinOp) and isinstance(e.op, ast.Mult):
        for c, x in ((e.left, e.right), (e.right, e.left)):
            cv = const_value(c)
            if cv is not None:
                r = _interval(eng, fi, cfg, x, at, arr, depth)
                if r is None:
                    return None
                lo, hi = sorted((cv * r[0], cv * r[1]))
                return (lo, hi)
        return None
    if isinstance(e, ast.Subscript):
        t = ekey(e.value)
        if t.endswith(".su"):
            return (0.0, INF)
        if t.endswith(".sl"):
            return (-INF, 0.0)
        if t == arr:
            return (-2.0, 2.0)
        return None
    if isinstance(e, ast.Call) and isinstance(e.func, ast.Name) and e.func.id in ("min", "max") and len(e.args) == 2:
        a, b = _interval(eng, fi, cfg, e.args[0], at, arr, depth), _interval(eng, fi, cfg, e.args[1], at, arr, depth)
        if a is None or b is None:
            return None
        f = min if e.func.id == "min" else max
        return (f(a[0], b[0]), f(a[1], b[1]))
    if isinstance(e, ast.IfExp):
        a, b = _interval(eng, fi, cfg, e.body, at, arr, depth), _interval(eng, fi, cfg, e.orelse, at, arr, depth)
        if a is None or b is None:
            return None
        return (min(a[0], b[0]), max(a[1], b[1]))
    if isinstance(e, ast.Name) and depth < 4:
        out = None
        for dn in cfg.defs_reaching(at, e.id):
            st = cfg.ast_of(dn)
            if not (isinstance(st, ast.Assign) and len(st.targets) == 1):
                return None
            if isinstance(st.value, ast.Constant) and st.value.value is None:
                continue
            r = _interval(eng, fi, cfg, st.value, st, arr, depth + 1)
            if r is None:
                return None
            out = r if out is None else (min(out[0], r[0]), max(out[1], r[1]))
        return out
    return None


def rule_coordinate_steps_bounded(eng, rep, rule="C14-4.coordinate-initialisation-steps-are-at-most-2-delta"):
    """Ordering clause of 'each point lies between 0.01*rhobeg and 2*rhobeg from x0' for the coordinate initialisation: every step stored in the table of
    initial points is, by interval reasoning over +/-c*delta, min/max and the signs of the relative bounds, within [-2*delta, 2*delta]."""
    fi = eng.fn("controller.Controller.initialise_coordinate_directions")
    cfg = eng.cfg(fi)
    n = 0
    for node in eng.prog.own_nodes(fi):
        if isinstance(node, ast.Assign) and len(node.targets) == 1 and isinstance(node.targets[0], ast.Subscript) and isinstance(node.targets[0].value, ast.Name) \
                and node.targets[0].value.id.startswith("xpts"):
            t = node.targets[0]
            if isinstance(node.value, ast.Subscript) and ekey(node.value.value) == t.value.id:
                continue       # copies / swaps of rows already stored
            n += 1
            r = _interval(eng, fi, cfg, node.value, node, t.value.id)
            site = eng.where(fi, node)
            if r is None:
                rep.unknown(rule, site, "cannot bound the step `%s`" % short(node.value))
            elif -2.0 <= r[0] and r[1] <= 2.0:
                rep.ok(rule, site, "step `%s` lies in [%g, %g] * delta" % (short(node.value, 40), r[0], r[1]))
            else:
                rep.bad(rule, site, "controller.Controller.initialise_coordinate_directions|step-exceeds-2-delta|%s" % short(node.value, 30),
                        "step `%s` can lie in [%s, %s] * delta: an initial point farther than 2*rhobeg from x0 (min/max or sign slip in a mirrored block)" % (short(node.value), r[0], r[1]))
    rep.require_count(rule, "steps stored in the table of initial points", n, 3)


def run(eng, rep):
    rep.explain("C14 (generator clauses): for both random-direction generators the result matrix is allocated with at least num_pts columns and exactly the first "
                "num_pts are returned (shape expressions compared symbolically); the only writes after all construction steps are the clamp loop "
                "results[:, i] = max(min(results[:, i], upper), lower) over range(num_pts), which dominates the return (T2). The first evaluated point and the "
                "coordinate initialisation points go through the clamp decided under C01.")
    rep.explain('Also decided: coordinate steps lie in [-2 delta, 2 delta] (interval reasoning, C14-4); lower/upper handling in get_scale, both generators and the coordinate initialiser are reflections (T14, C14-5); generators receive (sl - c, su - c) with c = xopt() in relative coordinates (C14-3).')
    rep.not_decided += ["distances in [0.01, 2]*rhobeg, affine independence, condition number < 1e4 (numerical)",
                        "'no longer than the requested length' (in doubt for the extra active-constraint directions built with 2*delta; numerical, noted, not armed)"]
    for fid in GENS:
        rule_generator(eng, rep, fid)
    rep.guarded(rule_coordinate_steps_bounded, eng, rep)
    # who calls them: every use passes bounds relative to the centre (sl - xopt, su - xopt) -- frames decided under C13/C01
    n = 0
    for fid in GENS:
        for ci in eng.calls_to(fid):
            n += 1
            a = ci.node.args
            okc = False
            if len(a) >= 4 and all(isinstance(x, ast.BinOp) and isinstance(x.op, ast.Sub) for x in (a[2], a[3])):
                lo, up = a[2], a[3]
                same_centre = ekey(lo.right) == ekey(up.right)
                sides = ekey(lo.left).split(".")[-1] == "sl" and ekey(up.left).split(".")[-1] == "su" and ekey(lo.left).rsplit(".", 1)[0] == ekey(up.left).rsplit(".", 1)[0]
                # the centre is the incumbent in the frame of sl/su (relative to xbase): xopt() without abs_coordinates
                cexpr = lo.right
                if isinstance(cexpr, ast.Name):
                    ccfg = eng.cfg(ci.caller)
                    defs = ccfg.defs_reaching(cexpr, cexpr.id)
                    cexpr = ccfg.ast_of(list(defs)[0]).value if len(defs) == 1 and isinstance(ccfg.ast_of(list(defs)[0]), ast.Assign) else None
                centre_ok = isinstance(cexpr, ast.Call) and ekey(cexpr.func).endswith(".xopt") and not cexpr.args and not cexpr.keywords
                okc = same_centre and sides and centre_ok
            if okc:
                rep.ok("C14-3.generators-get-the-box-around-the-centre", eng.where(ci.caller, ci.node), "called with (%s, %s)" % (short(a[2], 30), short(a[3], 30)))
            else:
                rep.bad("C14-3.generators-get-the-box-around-the-centre", eng.where(ci.caller, ci.node), "%s|generator-bounds" % ci.caller.fid, "generator is not given (sl - xopt, su - xopt) with xopt = <model>.xopt() in relative coordinates (got `%s`, `%s`)" % (short(a[2], 30) if len(a) > 2 else "?", short(a[3], 30) if len(a) > 3 else "?"))
    rep.require_count("C14-3.generators-get-the-box-around-the-centre", "generator call sites", n, 5)
    from .mirrorrule import rule_mirror
    rep.guarded(rule_mirror, eng, rep, 'C14-5.lower-and-upper-bound-handling-are-reflections', ['util.get_scale', 'util.random_directions_within_bounds', 'util.random_orthog_directions_within_bounds', 'controller.Controller.initialise_coordinate_directions'])
