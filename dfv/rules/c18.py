"""C18 -- trust-region radii and the diagnostic table (structural clauses: delta >= rho re-established before it can be
observed, writers of rho, growth of delta capped, one source of truth for the run's rhoend, shape of the table)."""
import ast

from ..loader import AnalysisError, ekey
from ..norm import atom_of, const_value, is_none
from ..dataflow import Flow
from .. import tables
from .anchors import anchors
from .common import mentions, short, guards_of, param_key, param_keys_in, assigned_names
from .c07 import param_registry
from .c10 import _innermost_loop


def _is_ctrl_attr(eng, fi, node, attr):
    return isinstance(node, ast.Attribute) and node.attr == attr and any(a == ("C", "Controller") for a in eng.res.ev(fi, node.value))


def _ge_rho(eng, fi, e, extra_ge=()):
    """Expression provably >= rho (rho >= 0 assumed):  rho, c*rho (literal c >= 1), max(a,b) if one side is, min(a,b) if both are."""
    if _is_ctrl_attr(eng, fi, e, "rho"):
        return True
    if isinstance(e, ast.Name) and e.id in extra_ge:
        return True
    if isinstance(e, ast.BinOp) and isinstance(e.op, ast.Mult):
        for c, x in ((e.left, e.right), (e.right, e.left)):
            cv = const_value(c)
            if cv is not None and cv >= 1 and _ge_rho(eng, fi, x, extra_ge):
                return True
    if isinstance(e, ast.Call) and isinstance(e.func, ast.Name) and e.func.id in ("max", "min") and len(e.args) == 2:
        a, b = _ge_rho(eng, fi, e.args[0], extra_ge), _ge_rho(eng, fi, e.args[1], extra_ge)
        return (a or b) if e.func.id == "max" else (a and b)
    return False


def _delta_rho_flow(eng, fi, cfg, summaries, entry_state="T", implications=()):
    """Forward flow of the fact delta >= rho.  States: 'T' holds, 'B' delta == rhobeg (holds given rho <= rhobeg), 'F' unknown.
    A second component remembers the outcome of option tests that the validated implications relate."""
    watch = set(k for imp in implications for k in imp)

    def node_fn(n, s):
        fact, opts = s
        d = cfg.g.nodes[n]
        st = d["ast"]
        if d["kind"] != "stmt":
            return [s]
        if isinstance(st, (ast.Assign, ast.AugAssign)):
            tg = st.targets if isinstance(st, ast.Assign) else [st.target]
            for t in tg:
                if _is_ctrl_attr(eng, fi, t, "delta"):
                    if isinstance(st, ast.AugAssign):
                        fact = "F"
                    else:
                        v = st.value
                        extra = set()
                        # delta = max(.., new_rho) immediately followed by rho = new_rho
                        for m, e in cfg.succ(n, with_exc=False):
                            s2 = cfg.ast_of(m)
                            if isinstance(s2, ast.Assign) and _is_ctrl_attr(eng, fi, s2.targets[0], "rho") and isinstance(s2.value, ast.Name):
                                extra.add(s2.value.id)
                        if extra and _ge_rho(eng, fi, v, extra) and not _ge_rho(eng, fi, v):
                            fact = "N:" + sorted(extra)[0]      # delta >= new_rho, pending rho = new_rho
                        elif ekey(v).endswith("rhobeg"):
                            fact = "B"
                        elif _ge_rho(eng, fi, v):
                            fact = "T"
                        else:
                            fact = "F"
                elif _is_ctrl_attr(eng, fi, t, "rho"):
                    v = st.value if isinstance(st, ast.Assign) else None
                    if v is not None and isinstance(v, ast.Name) and fact == "N:" + v.id:
                        fact = "T"
                    elif v is not None and ekey(v).endswith("rhobeg"):
                        fact = "T" if fact == "B" else "F"
                    else:
                        fact = "F"
        # calls of Controller methods with a summary
        for sub in ast.walk(st):
            if isinstance(sub, ast.Call):
                ci = eng.res.calls.get(id(sub))
                for t in (ci.targets if ci else []):
                    if t.fid in summaries:
                        if summaries[t.fid] == "establishes":
                            fact = "T"
                        elif summaries[t.fid] == "preserves":
                            fact = fact if fact in ("T", "B") else "F"
                        else:
                            fact = "F"
        return [(fact, opts)]

    def edge_fn(a, b, e, s):
        fact, opts = s
        if cfg.kind(a) == "cond" and e["label"] in (True, False):
            at = atom_of(cfg.ast_of(a), e["label"])
            # false edge of  delta <= c*rho  (c >= 1):  delta > c*rho >= rho
            if at.op == "lt" and at.rhs is not None and _is_ctrl_attr(eng, fi, at.rhs, "delta") and _ge_rho(eng, fi, at.lhs):
                fact = "T"
            ks = param_keys_in(eng, cfg.ast_of(a)) & watch
            if len(ks) == 1 and at.op in ("truth", "false"):
                k = list(ks)[0]
                val = at.op == "truth"
                od = dict(opts)
                for (p, q) in implications:       # p true => q true
                    if k == p and val and od.get(q) is False:
                        return None
                    if k == q and not val and od.get(p) is True:
                        return None
                od[k] = val
                opts = tuple(sorted(od.items()))
        return (fact, opts)

    return Flow(cfg, (entry_state, ()), node_fn, edge_fn)


def rule_delta_ge_rho(eng, rep, rule="C18-1.delta-ge-rho-is-re-established-before-it-can-be-observed"):
    A = anchors(eng)
    ctrl = eng.prog.cls("Controller")
    # (0) the implication reset_rho => reset_delta comes from solve's validation block
    implications = []
    from .c07 import _input_error_sites
    solve = A.solve
    scfg = eng.cfg(solve)
    for s in _input_error_sites(eng, solve, scfg):
        gs = [a for (_b, a) in guards_of(scfg, s)]
        t = [k for a in gs if a.op == "truth" for k in param_keys_in(eng, a.lhs)]
        f = [k for a in gs if a.op == "false" for k in param_keys_in(eng, a.lhs)]
        if len(t) == 1 and len(f) == 1:
            implications.append((t[0], f[0]))
    # (1) summaries of the Controller methods that write delta / rho
    summaries = {}
    writers = []
    for m in sorted(ctrl.methods.values(), key=lambda f: f.qualname):
        writes = False
        for node in eng.prog.own_nodes(m):
            tg = node.targets if isinstance(node, ast.Assign) else ([node.target] if isinstance(node, ast.AugAssign) else [])
            for t in tg:
                if isinstance(t, ast.Attribute) and t.attr in ("delta", "rho") and isinstance(t.value, ast.Name) and t.value.id == m.posparams[0]:
                    writes = True
        if writes:
            writers.append(m)
    rep.require_count(rule, "Controller methods writing delta/rho", len(writers), 3)
    # iterate: methods may call each other (soft_restart -> geometry_step -> ...): none of the writers calls another writer today
    for m in writers:
        cfg = eng.cfg(m)
        entry = "F" if m.qualname.endswith(".__init__") else "T"
        fl = _delta_rho_flow(eng, m, cfg, {}, entry_state=entry)
        exits = fl.states(cfg.exit)
        facts = set(s[0] for s in exits)
        site = eng.where(m)
        if facts <= {"T", "B"}:
            summaries[m.fid] = "establishes" if entry == "F" or _always_writes(eng, m, cfg) else "preserves"
            rep.ok(rule, site, "%s: delta >= rho holds at every exit (%s)" % (m.qualname, "established" if summaries[m.fid] == "establishes" else "given it held at entry"))
        else:
            summaries[m.fid] = "breaks"
            badst = [s for s in exits if s[0] not in ("T", "B")][0]
            rep.bad(rule, site, "%s|delta-ge-rho-not-restored" % m.fid,
                    "%s can return with delta >= rho not provable" % m.qualname, path=cfg.describe_path(fl.path_to(cfg.exit, badst))[-10:])
    # (2) solve_main: the fact holds at every observation point
    sm = A.solve_main
    cfg = eng.cfg(sm)
    ctor = [cfg.cfg_node(ci.node) for ci in eng.calls_in(sm) if ci.kind == "CTOR" and any(t.cls == "Controller" for t in ci.targets)]
    if not ctor:
        rep.unknown(rule, eng.where(sm), "Controller construction not found")
        return
    fl = _delta_rho_flow(eng, sm, cfg, summaries, entry_state="F", implications=implications)
    nobs = 0
    for n, d in sorted(cfg.g.nodes(data=True)):
        st = d["ast"]
        if d["kind"] != "stmt" or cfg.path_avoiding(ctor[0], n, []) is None:
            continue
        observe = d.get("jump") in ("break", "continue") or isinstance(st, ast.Return)
        for sub in ast.walk(st):
            if isinstance(sub, ast.Call):
                ci = eng.res.calls.get(id(sub))
                if ci and any(t.fid == "diagnostic_info.DiagnosticInfo.save_info_from_control" for t in ci.targets):
                    observe = True
        if not observe:
            continue
        nobs += 1
        bad = [s for s in fl.states(n) if s[0] not in ("T", "B")]
        site = eng.where(sm, st)
        if bad:
            from .c04 import _context_key
            rep.bad(rule, site, "solver.solve_main|delta-ge-rho-not-provable|%s|%s" % (d.get("jump") or ("return" if isinstance(st, ast.Return) else "record"), _context_key(eng, cfg, n)),
                    "delta >= rho is not provable when the iteration ends / is recorded here", path=cfg.describe_path(fl.path_to(n, bad[0]))[-14:])
        else:
            rep.ok(rule, site, "delta >= rho provable on every path to this %s" % (d.get("jump") or ("return" if isinstance(st, ast.Return) else "recording")), nontrivial=True)
    rep.require_count(rule, "observation points in solve_main", nobs, 50)
    rep.extra["validated_option_implications"] = implications


def _always_writes(eng, m, cfg):
    return False


def rule_rho_writers(eng, rep, rule="C18-2.rho-has-four-writers"):
    n = 0
    allowed = {"controller.Controller.__init__": "start of a run", "controller.Controller.reduce_rho": "the reducer",
               "controller.Controller.soft_restart": "start of a new run"}
    for fi in eng.prog.functions.values():
        cfg = None
        for node in eng.prog.own_nodes(fi):
            tg = node.targets if isinstance(node, ast.Assign) else ([node.target] if isinstance(node, ast.AugAssign) else [])
            for t in tg:
                if _is_ctrl_attr(eng, fi, t, "rho"):
                    n += 1
                    site = eng.where(fi, node)
                    if fi.fid in allowed:
                        rep.ok(rule, site, "rho written by %s (%s)" % (fi.qualname, allowed[fi.fid]))
                    elif fi.fid == "solver.solve_main":
                        cfg = cfg or eng.cfg(fi)
                        gs = guards_of(cfg, cfg.cfg_node(node))
                        if any(a.op == "truth" and "growing.reset_rho" in param_keys_in(eng, a.lhs) for (_b, a) in gs) and ekey(node.value).endswith("rhobeg"):
                            rep.ok(rule, site, "the documented reset at the end of the growing phase (under growing.reset_rho)")
                        else:
                            rep.bad(rule, site, "solver.solve_main|rho-written|%s" % short(node.value, 30), "rho is written in the main loop outside the documented growing.reset_rho reset")
                    else:
                        rep.bad(rule, site, "%s|rho-written" % fi.fid, "rho is written by %s: within a run only reduce_rho may change it" % fi.fid)
    rep.require_count(rule, "writers of rho", n, 4)
    # reduce_rho: two of the three cases provably do not increase rho
    rr = eng.fn("controller.Controller.reduce_rho")
    defaults, typed = param_registry(eng)
    cfg = eng.cfg(rr)
    cases = 0
    for nn, d in cfg.g.nodes(data=True):
        st = d["ast"]
        if d["kind"] == "stmt" and isinstance(st, ast.Assign) and isinstance(st.targets[0], ast.Name) and st.targets[0].id == "new_rho":
            cases += 1
            v = st.value
            site = eng.where(rr, st)
            if ekey(v).endswith("rhoend"):
                rep.ok(rule, site, "new_rho = rhoend: non-increasing under the caller's guard rho > rhoend")
            elif isinstance(v, ast.BinOp) and isinstance(v.op, ast.Mult) and any(ekey(x).endswith(".rho") for x in (v.left, v.right)):
                other = v.left if ekey(v.right).endswith(".rho") else v.right
                key = None
                if isinstance(other, ast.Name):
                    for dn in cfg.defs_reaching(other, other.id):
                        ds = cfg.ast_of(dn)
                        if isinstance(ds, ast.Assign) and isinstance(ds.value, ast.Call):
                            key = param_key(eng, ds.value)
                tup = typed.get(key)
                up = const_value(tup.elts[3]) if tup is not None and len(tup.elts) == 4 else None
                lo = const_value(tup.elts[2]) if tup is not None and len(tup.elts) == 4 else None
                if up is not None and up <= 1 and lo is not None and lo >= 0:
                    rep.ok(rule, site, "new_rho = %s * rho with %s in [%s, %s] by the parameter table: non-increasing" % (key, key, lo, up))
                else:
                    rep.bad(rule, site, "controller.Controller.reduce_rho|factor-range|%s" % key, "new_rho = %s * rho but the parameter table allows %s > 1" % (key, key))
            else:
                rep.note(rule, site, "geometric-mean case `%s`: listed as assumed (sqrt(rho*rhoend) <= rho needs rho >= rhoend)" % short(v))
    rep.require_count(rule, "cases of reduce_rho", cases, 3)


def rule_delta_cap(eng, rep, rule="C18-3.growth-of-delta-is-capped"):
    defaults, typed = param_registry(eng)
    n = 0
    for fi in eng.prog.functions.values():
        for node in eng.prog.own_nodes(fi):
            if not isinstance(node, ast.Assign):
                continue
            for t in node.targets:
                if not _is_ctrl_attr(eng, fi, t, "delta"):
                    continue
                n += 1
                v = node.value
                site = eng.where(fi, node)
                grow = []
                for sub in ast.walk(v):
                    if isinstance(sub, ast.BinOp) and isinstance(sub.op, ast.Mult):
                        for c in (sub.left, sub.right):
                            k = param_key(eng, c) if isinstance(c, ast.Call) else None
                            if k is not None:
                                tup = typed.get(k)
                                up = const_value(tup.elts[3]) if tup is not None and len(tup.elts) == 4 else None
                                if up is None or up > 1:
                                    grow.append(k)
                            cv = const_value(c)
                            if cv is not None and cv > 1 and "delta" in ekey(sub):
                                grow.append(str(cv))
                    if isinstance(sub, ast.BinOp) and isinstance(sub.op, ast.Div):
                        dv = const_value(sub.right)
                        if dv is None or abs(dv) < 1:
                            grow.append("/" + short(sub.right, 20))        # division by a quantity that is not known to be >= 1 (e.g. tau in (0, 1], possibly 0)
                if not grow:
                    rep.ok(rule, site, "no factor that can exceed 1 multiplies delta in `%s`" % short(v, 50), nontrivial=False)
                    continue
                capped = isinstance(v, ast.Call) and isinstance(v.func, ast.Name) and v.func.id == "min" and any(const_value(a) is not None and const_value(a) <= 1e10 for a in v.args)
                if capped:
                    rep.ok(rule, site, "growth by %s is wrapped in min(., %s)" % (sorted(set(grow)), [ekey(a) for a in v.args if const_value(a) is not None][0]))
                else:
                    rep.bad(rule, site, "%s|uncapped-growth|%s" % (fi.fid, "+".join(sorted(set(grow)))), "delta can grow by %s without the 1e10 cap: `%s`" % (sorted(set(grow)), short(v)))
    rep.require_count(rule, "assignments to delta", n, 8)


def _param_range(eng, typed, cfg, at_ast, e):
    """(key, lower, upper) if e is a parameter read -- directly or through a local with one reaching definition -- else None"""
    if isinstance(e, ast.Name):
        try:
            defs = cfg.defs_reaching(at_ast, e.id)
        except Exception:
            defs = []
        if len(defs) == 1 and isinstance(cfg.ast_of(list(defs)[0]), ast.Assign):
            e = cfg.ast_of(list(defs)[0]).value
    if isinstance(e, ast.Call):
        key = param_key(eng, e)
        tup = typed.get(key)
        if key is not None and tup is not None and len(tup.elts) == 4:
            return key, const_value(tup.elts[2]), const_value(tup.elts[3])
    return None


def rule_rho_between_rhoend_and_rhobeg(eng, rep, rule="C18-8.rho-stays-between-rhoend-and-rhobeg"):
    """rhoend <= rho, rho > 0 and 'rho never increases within a run', decided by interval reasoning over the cases of reduce_rho and the ranges of the
    parameter table (all bounds of the table are inclusive):
      * every call of reduce_rho is dominated by the true outcome of `rho > rhoend`  (so ratio = rho / rhoend > 1 on entry);
      * in each case of the if-chain over `ratio`, new_rho / rhoend is bounded below by 1 and new_rho <= rho;
      * a restart sets rho := rhobeg and rhoend := scale * rhoend, which keeps 0 < rhoend <= rhobeg only for 0 < scale <= 1."""
    import math
    defaults, typed = param_registry(eng)
    rr = eng.fn("controller.Controller.reduce_rho")
    cfg = eng.cfg(rr)
    selfn = rr.posparams[0]
    # (1) precondition at the call sites
    nsites = 0
    for ci in eng.calls_to(rr.fid):
        fi = ci.caller
        ccfg = eng.cfg(fi)
        gs = guards_of(ccfg, ccfg.cfg_node(ci.node))
        nsites += 1
        if any(a.op == "lt" and "rhoend" in ekey(a.lhs) and ekey(a.rhs).endswith("rho") for (_b, a) in gs):
            rep.ok(rule, eng.where(fi, ci.node), "reduce_rho is called under `rho > rhoend`")
        else:
            rep.bad(rule, eng.where(fi, ci.node), "%s|reduce-rho-without-rho-gt-rhoend" % fi.fid, "reduce_rho is called without `rho > rhoend` having held: its case analysis assumes ratio > 1")
    rep.require_count(rule, "call sites of reduce_rho", nsites, 2)
    # (2) the cases
    ratio = None
    for n, d in cfg.g.nodes(data=True):
        st = d["ast"]
        if d["kind"] == "stmt" and isinstance(st, ast.Assign) and isinstance(st.targets[0], ast.Name) and isinstance(st.value, ast.BinOp) and isinstance(st.value.op, ast.Div) \
                and ekey(st.value.left) == "%s.rho" % selfn and ekey(st.value.right) == "%s.rhoend" % selfn:
            ratio = st.targets[0].id
    if ratio is None:
        rep.unknown(rule, eng.where(rr), "`ratio = rho / rhoend` not found in reduce_rho")
        return
    rho_store = [d["ast"] for n, d in cfg.g.nodes(data=True) if d["kind"] == "stmt" and isinstance(d["ast"], ast.Assign) and ekey(d["ast"].targets[0]) == "%s.rho" % selfn]
    if len(rho_store) != 1 or not isinstance(rho_store[0].value, ast.Name):
        rep.unknown(rule, eng.where(rr), "expected a single `self.rho = <local>` in reduce_rho")
        return
    newvar = rho_store[0].value.id

    nonstrict_keys = []

    def bounds(e, at_ast, lo, hi):
        """(lower bound of e / rhoend, e <= old rho ?) for ratio in (lo, hi]; None if the expression is outside the rule's vocabulary"""
        t = ekey(e)
        if t == "%s.rhoend" % selfn:
            return 1.0, lo >= 1.0, lo >= 1.0                        # rhoend < rho: the call sites establish rho > rhoend
        if isinstance(e, ast.BinOp) and isinstance(e.op, ast.Mult):
            for x, y in ((e.left, e.right), (e.right, e.left)):
                if ekey(y) == "%s.rhoend" % selfn and isinstance(x, ast.Call) and ekey(x.func).split(".")[-1] == "sqrt" and len(x.args) == 1 and ekey(x.args[0]) == ratio:
                    return math.sqrt(lo), lo >= 1.0, lo >= 1.0      # sqrt(r) <= r  iff  r >= 1 (strictly for r > 1)
                if ekey(y) == "%s.rho" % selfn:
                    c = const_value(x)
                    if c is not None:
                        return c * lo, c <= 1.0, c < 1.0
                    pr = _param_range(eng, typed, cfg, at_ast, x)
                    if pr is not None and pr[1] is not None:
                        strict = pr[2] is not None and (pr[2] < 1.0 or (pr[2] <= 1.0 and _strictly_below_one(eng, pr[0]) is not None))
                        if not strict:
                            nonstrict_keys.append(pr[0])
                        return pr[1] * lo, pr[2] is not None and pr[2] <= 1.0, strict
        if isinstance(e, ast.Call) and isinstance(e.func, ast.Name) and e.func.id in ("max", "min") and len(e.args) == 2:
            a_, b_ = bounds(e.args[0], at_ast, lo, hi), bounds(e.args[1], at_ast, lo, hi)
            if a_ is None or b_ is None:
                return None
            if e.func.id == "max":
                return max(a_[0], b_[0]), a_[1] and b_[1], a_[2] and b_[2]
            return min(a_[0], b_[0]), a_[1] or b_[1], a_[2] or b_[2]
        return None

    ncase = 0
    for n, d in cfg.g.nodes(data=True):
        st = d["ast"]
        if not (d["kind"] == "stmt" and isinstance(st, ast.Assign) and isinstance(st.targets[0], ast.Name) and st.targets[0].id == newvar):
            continue
        ncase += 1
        lo, hi = 1.0, float("inf")          # ratio > 1 on entry
        okg = True
        for (_b, a) in guards_of(cfg, n):
            if a.op in ("le", "lt") and ekey(a.lhs) == ratio and const_value(a.rhs) is not None:
                hi = min(hi, const_value(a.rhs))
            elif a.op in ("le", "lt") and ekey(a.rhs) == ratio and const_value(a.lhs) is not None:
                lo = max(lo, const_value(a.lhs))
            else:
                okg = False
        site = eng.where(rr, st)
        bd = bounds(st.value, st, lo, hi)
        if not okg or bd is None:
            rep.unknown(rule, site, "case `%s` of reduce_rho is outside the rule's vocabulary" % short(st))
            continue
        lower, noninc, strict = bd
        srule = "C18-9.rho-strictly-decreases-whenever-it-is-reduced"
        if strict:
            rep.ok(srule, site, "ratio in (%g, %g]: `%s` is strictly below the old rho" % (lo, hi, short(st.value, 50)))
        elif noninc:
            key = nonstrict_keys[-1] if nonstrict_keys else "?"
            rep.bad(srule, site, "controller.Controller.reduce_rho|rho-not-reduced|%s" % key,
                    "for ratio in (%g, %g] the new rho `%s` can equal the old rho: '%s' = 1.0 is accepted (inclusive upper bound of the parameter table, no validation in solve), "
                    "reduce_rho then changes nothing and the main loop repeats the same iteration for ever without evaluating the objective (solve never returns)"
                    % (lo, hi, short(st.value, 50), key))
        if lower >= 1.0 and noninc:
            rep.ok(rule, site, "ratio in (%g, %g]: `%s` is >= rhoend (factor >= %.4g) and <= the old rho" % (lo, hi, short(st.value, 50), lower))
        elif lower < 1.0:
            rep.bad(rule, site, "controller.Controller.reduce_rho|new-rho-below-rhoend|%s" % short(st.value, 30),
                    "for ratio in (%g, %g] the new rho `%s` is only known to be >= %.4g * rhoend with the ranges of the parameter table: rho can fall below rhoend (and to 0), "
                    "the run then stops with 'rho has reached rhoend' at rho < rhoend and the diagnostic table records rho < rhoend" % (lo, hi, short(st.value, 50), lower))
        else:
            rep.bad(rule, site, "controller.Controller.reduce_rho|new-rho-can-increase|%s" % short(st.value, 30), "the new rho `%s` can exceed the old rho" % short(st.value, 50))
    rep.require_count(rule, "cases of reduce_rho", ncase, 3)
    # (3) restarts: rhoend := scale * rhoend with rho := rhobeg
    nres = 0
    seen = set()
    for fi in eng.prog.functions.values():
        if fi.is_lambda:
            continue
        fcfg = None
        for node in eng.prog.own_nodes(fi):
            if isinstance(node, ast.Assign) and any(ekey(t).split(".")[-1] == "rhoend" for t in node.targets) and isinstance(node.value, ast.BinOp) and isinstance(node.value.op, ast.Mult):
                v = node.value
                other = v.left if ekey(v.right).split(".")[-1] == "rhoend" else (v.right if ekey(v.left).split(".")[-1] == "rhoend" else None)
                if other is None:
                    continue
                fcfg = fcfg or eng.cfg(fi)
                pr = _param_range(eng, typed, fcfg, node, other)
                nres += 1
                if pr is None:
                    rep.unknown(rule, eng.where(fi, node), "rhoend is rescaled by `%s`, which is not a parameter read" % short(other))
                    continue
                key, lo, hi = pr
                if key in seen:
                    continue
                seen.add(key)
                pos = _strictly_positive(eng, key, lo)
                if hi is not None and hi <= 1.0 and pos:
                    rep.ok(rule, "params.ParameterList.param_type [%s]" % key, "restart factor of rhoend lies in (0, 1]: 0 < rhoend <= rhobeg is kept, rho := rhobeg >= rhoend after a restart (%s)" % pos)
                if hi is None or hi > 1.0:
                    rep.bad(rule, "params.ParameterList.param_type [%s]" % key, "params|restart-factor-above-one|%s" % key,
                            "'%s' may exceed 1 (table range [%s, %s]): after a restart rhoend = factor * rhoend can exceed rho = rhobeg, so the next run starts with rho < rhoend" % (key, lo, hi))
                if not pos:
                    rep.bad(rule, "params.ParameterList.param_type [%s]" % key, "params|restart-factor-zero|%s" % key,
                            "'%s' = 0.0 is accepted (inclusive lower bound, no validation in solve): rhoend becomes 0 at the first restart and `rho / rhoend` in reduce_rho raises ZeroDivisionError out of solve" % key)
    rep.require_count(rule, "rescalings of rhoend", nres, 2)      # at least the soft-restart and the hard-restart rescaling (today 19 statements)


def _strictly_below_one(eng, key):
    """solve's validation block rejects `params(key) >= 1` with the input-error flag"""
    solve = eng.fn("solver.solve")
    cfg = eng.cfg(solve)
    for n in cfg.nodes_of_kind("cond"):
        at = atom_of(cfg.ast_of(n), True)
        if at.op == "le" and isinstance(at.rhs, ast.Call) and param_key(eng, at.rhs) == key and const_value(at.lhs) == 1:
            for m, e in cfg.succ(n):
                st = cfg.ast_of(m)
                if e["label"] is True and isinstance(st, ast.Assign) and ekey(st.targets[0]) == "exit_info" and "EXIT_INPUT_ERROR" in ekey(st.value):
                    return "solve rejects values >= 1 with the input-error flag"
    return None


def _strictly_positive(eng, key, table_lower):
    """the parameter cannot be 0: table lower bound > 0, or solve's validation block rejects `params(key) <= 0` with the input-error flag"""
    if table_lower is not None and table_lower > 0:
        return "table lower bound %s" % table_lower
    solve = eng.fn("solver.solve")
    cfg = eng.cfg(solve)
    for n in cfg.nodes_of_kind("cond"):
        at = atom_of(cfg.ast_of(n), True)
        if at.op == "le" and isinstance(at.lhs, ast.Call) and param_key(eng, at.lhs) == key and const_value(at.rhs) == 0:
            for m, e in cfg.succ(n):
                st = cfg.ast_of(m)
                if e["label"] is True and isinstance(st, ast.Assign) and ekey(st.targets[0]) == "exit_info" and "EXIT_INPUT_ERROR" in ekey(st.value):
                    return "solve rejects values <= 0 with the input-error flag"
    return None


def rule_recorded_best_is_the_selection(eng, rep, rule="C18-4b.recorded-best-point-is-the-final-selection"):
    """'The recorded best objective never increases' is a statement about the better of the saved point and the incumbent (a soft restart saves the best point and then
    moves the incumbent).  The columns xk / rk / fk must therefore record positions 0 / 1 / 2 of one Model.get_final_results() call, not the incumbent's accessors."""
    si = eng.fn("diagnostic_info.DiagnosticInfo.save_info_from_control")
    from .common import unrolled
    from .c20 import _append_column
    view, cfg = unrolled(eng, si)
    want = {"xk": 0, "rk": 1, "fk": 2}
    seen = {}
    for st in view.body():
        for node in ast.walk(st):
            col = _append_column(node)
            if col is None or col[0] not in want:
                continue
            name, val = col
            inner = val.args[0] if isinstance(val, ast.Call) and val.args and ekey(val.func).split(".")[-1] in ("remove_scaling", "copy", "float") else val
            if isinstance(val, ast.Call) and isinstance(val.func, ast.Attribute) and val.func.attr == "copy" and not val.args:
                inner = val.func.value
            from .common import tuple_position_from_call
            got = tuple_position_from_call(eng, cfg, st, inner, {"model.Model.get_final_results"})
            okc = got is not None and got[0] == want[name]
            if got is not None:
                seen[name] = got[1]
            site = eng.where(si, st)
            if okc:
                rep.ok(rule, site, "column '%s' records position %d of get_final_results() (the better of saved point and incumbent)" % (name, want[name]))
            else:
                rep.bad(rule, site, "diagnostic_info|%s-not-from-final-selection" % name,
                        "column '%s' records `%s`, not the point get_final_results() selects: after a soft restart has saved the best point and moved the incumbent the recorded best objective jumps up" % (name, short(val, 40)))
    if len(set(seen.values())) > 1:
        rep.bad(rule, eng.where(si), "diagnostic_info|xk-rk-fk-from-different-selections", "xk, rk and fk are taken from different get_final_results() calls")
    rep.require_count(rule, "columns recording the best point", len(seen) if seen else 0, 0)


def rule_one_row_per_iteration(eng, rep, rule="C18-4c.one-row-per-iteration"):
    """Every call of the recorder in solve_main lies inside the main loop, and no path through one iteration passes two of them (counting data-flow, reset at the loop head)."""
    A = anchors(eng)
    sm = A.solve_main
    cfg = eng.cfg(sm)
    heads = [h for (h, kind, st) in cfg.loops if kind == "while"]
    calls = [cfg.cfg_node(ci.node) for ci in eng.calls_in(sm) if any(t.fid == "diagnostic_info.DiagnosticInfo.save_info_from_control" for t in ci.targets)]
    if len(heads) != 1 or not calls:
        rep.unknown(rule, eng.where(sm), "main loop / recorder call not found in solve_main")
        return
    head = heads[0]
    body = cfg.loop_nodes(head)
    for c in calls:
        site = eng.where(sm, cfg.ast_of(c))
        if c not in body:
            rep.bad(rule, site, "solver.solve_main|row-outside-the-main-loop", "the recorder is called outside the main loop: the table gets a row that belongs to no iteration (e.g. with a single interpolation point, iteration number 0 twice)")
        else:
            rep.ok(rule, site, "recorder call inside the main loop", nontrivial=False)

    def node_fn(n, s):
        if n == head:
            return [0]
        return [min(s + 1, 2)] if n in calls else [s]

    fl = Flow(cfg, 0, node_fn)
    twice = [c for c in calls if any(s >= 2 for s in fl.states(c))]       # state is recorded on entry: >= 1 on entry means a second row
    twice = [c for c in calls if any(s >= 1 for s in fl.states(c))]
    if twice:
        rep.bad(rule, eng.where(sm, cfg.ast_of(twice[0])), "solver.solve_main|two-rows-in-one-iteration", "a path through one iteration of the main loop records two rows")
    else:
        rep.ok(rule, eng.where(sm), "no path through one iteration passes two recorder calls")
    rep.require_count(rule, "recorder calls in solve_main", len(calls), 1)


def rule_radii_not_reassigned_after_validation(eng, rep, rule="C18-8b.rhobeg-and-rhoend-are-not-changed-between-their-validation-and-the-first-run"):
    """C18-8 starts from rhobeg > rhoend > 0, which solve validates.  That is worth nothing if either radius is re-assigned after the `rhobeg <= rhoend` row (e.g. a default
    rhobeg shrunk to fit narrow bounds): the first run would start with rho = rhobeg < rhoend."""
    A = anchors(eng)
    solve = A.solve
    cfg = eng.cfg(solve)
    row = None
    for n in cfg.nodes_of_kind("cond"):
        at = atom_of(cfg.ast_of(n), True)
        if at.op in ("le", "lt") and ekey(at.lhs) == "rhobeg" and ekey(at.rhs) == "rhoend":
            row = n
    first = [cfg.cfg_node(ci.node) for ci in A.solve_main_calls]
    if row is None or not first:
        rep.unknown(rule, eng.where(solve), "the `rhobeg <= rhoend` row / the solve_main calls were not found")
        return
    first = min(first)
    bad = []
    for n, d in cfg.g.nodes(data=True):
        st = d["ast"]
        if d["kind"] == "stmt" and isinstance(st, (ast.Assign, ast.AugAssign)):
            names = []
            for t in (st.targets if isinstance(st, ast.Assign) else [st.target]):
                names += assigned_names(t)
            if "rhobeg" in names and cfg.path_avoiding(row, n, []) is not None and cfg.path_avoiding(n, first, []) is not None:
                bad.append(st)
    if bad:
        rep.bad(rule, eng.where(solve, bad[0]), "solver.solve|rhobeg-reassigned-after-validation", "`%s` changes rhobeg after `rhobeg > rhoend` was validated and before the first run: rho can start below rhoend" % short(bad[0], 60))
    else:
        rep.ok(rule, eng.where(solve), "rhobeg reaches the first run as validated")


def rule_rhoend_single_source(eng, rep, rule="C18-5.one-source-of-truth-for-the-runs-rhoend"):
    """Controller.rhoend (read by reduce_rho) and solve_main's local rhoend (read by the rho > rhoend guards) must stay equal:
    every rescaling of one is mirrored, on every path, by the same rescaling of the other."""
    A = anchors(eng)
    sm = A.solve_main
    cfg = eng.cfg(sm)
    field = ("Controller", "rhoend")
    if field not in eng.res.stored_fields:
        raise AnalysisError("anchor field Controller.rhoend vanished")
    readers = set()
    for fi in eng.prog.functions.values():
        for node in eng.prog.own_nodes(fi):
            if isinstance(node, ast.Attribute) and node.attr == "rhoend" and isinstance(node.ctx, ast.Load) and any(a == ("C", "Controller") for a in eng.res.ev(fi, node.value)):
                readers.add(fi.fid)
    # local rescalings in solve_main after the hand-over
    ctor = [cfg.cfg_node(ci.node) for ci in eng.calls_in(sm) if ci.kind == "CTOR" and any(t.cls == "Controller" for t in ci.targets)]
    local = None
    for ci in eng.calls_in(sm):
        if ci.kind == "CTOR" and any(t.cls == "Controller" for t in ci.targets):
            from ..resolve import bind_call
            b = bind_call(ci.node, eng.fn("controller.Controller.__init__"), True)
            e = b.params.get("rhoend")
            if isinstance(e, ast.Name):
                local = e.id
    if local is None or not ctor:
        rep.unknown(rule, eng.where(sm), "hand-over of rhoend to the Controller not found")
        return
    rescales = []
    for n, d in cfg.g.nodes(data=True):
        st = d["ast"]
        if d["kind"] == "stmt" and isinstance(st, ast.Assign) and any(ekey(t) == local for t in st.targets) and cfg.path_avoiding(ctor[0], n, []) is not None:
            rescales.append((n, st))
    field_stores_sm = [n for n, d in cfg.g.nodes(data=True) if d["kind"] == "stmt" and isinstance(d["ast"], ast.Assign)
                       and any(_is_ctrl_attr(eng, sm, t, "rhoend") for t in d["ast"].targets)]
    # field rescalings inside Controller methods
    ctrl = eng.prog.cls("Controller")
    field_rescale = {}
    for m in ctrl.methods.values():
        if m.qualname.endswith(".__init__"):
            continue
        for node in eng.prog.own_nodes(m):
            if isinstance(node, ast.Assign) and any(isinstance(t, ast.Attribute) and t.attr == "rhoend" and ekey(t.value) == m.posparams[0] for t in node.targets):
                field_rescale.setdefault(m.fid, []).append(node)
    if not rescales:
        rep.ok(rule, eng.where(sm), "solve_main never rescales rhoend after handing it to the Controller")
        return
    nok = 0
    for (n, st) in rescales:
        site = eng.where(sm, st)
        lkeys = param_keys_in(eng, st.value)
        # (a) mirrored directly: control.rhoend = <local> before the next reader call / loop iteration
        heads = [h for (h, k, s_) in cfg.loops if k == "while"]
        direct = [f for f in field_stores_sm if f == n or (cfg.path_avoiding(n, f, heads) is not None and all(cfg.path_avoiding(n, h, [f]) is None for h in heads)
                                                             and cfg.path_avoiding(n, cfg.exit, [f] + heads) is None)]
        if direct:
            nok += 1
            rep.ok(rule, site, "local rescaling is followed by a store to control.rhoend")
            continue
        # chained assignment  rhoend = control.rhoend = ...
        # (b) mirrored inside the soft_restart call that precedes it on every path (same factor, executed exactly once on the success path)
        pre = None
        idom = cfg.dominators()
        cur = n
        for _ in range(40):
            cur = idom.get(cur)
            if cur is None or cur == cfg.entry:
                break
            s2 = cfg.ast_of(cur)
            if cfg.kind(cur) == "stmt" and isinstance(s2, ast.Assign) and isinstance(s2.value, ast.Call):
                from .common import effective_target_fids
                tg = sorted(effective_target_fids(eng, s2.value))        # (a thin wrapper around soft_restart counts as the call)
                if any(f in field_rescale for f in tg):
                    pre = (cur, [f for f in tg if f in field_rescale][0])
                    break
        if pre is not None:
            mfid = pre[1]
            m = eng.prog.functions[mfid]
            mcfg = eng.cfg(m)
            fnodes = field_rescale[mfid]
            fkeys = set(k for fn_ in fnodes for k in param_keys_in(eng, fn_.value))
            same_factor = fkeys == lkeys and all(isinstance(fn_.value, ast.BinOp) and isinstance(st.value, ast.BinOp) and type(fn_.value.op) is type(st.value.op) for fn_ in fnodes)
            # exactly once on every path to a `return None` (success), never on a path that returns an exit
            once = _field_rescaled_once_on_success(eng, m, mcfg, fnodes)
            # the local rescaling happens only on the success edge (exit_info is None) of that call
            gs = guards_of(cfg, n)
            on_success = not any(a.op == "isnot" and ekey(a.lhs) == ekey(cfg.ast_of(pre[0]).targets[0]) for (_b, a) in gs)
            between = cfg.path_avoiding(pre[0], n, []) is not None
            if same_factor and once and between:
                nok += 1
                rep.ok(rule, site, "mirrored: %s rescales Controller.rhoend by the same factor %s exactly once on its success path, which precedes this statement" % (m.qualname, sorted(lkeys)))
                continue
            rep.bad(rule, site, "solver.solve_main|rhoend-mirror-mismatch|%s" % m.qualname,
                    "local rhoend is rescaled here but %s does not rescale Controller.rhoend identically (same factor: %s, exactly once on success: %s)" % (m.qualname, same_factor, once))
            continue
        rep.bad(rule, site, "solver.solve_main|stale-Controller.rhoend",
                "solve_main rescales its local `%s` (used by the `rho > rhoend` guards) but Controller.rhoend (read by %s) keeps the old value: guard and reducer disagree "
                "(non-termination for restarts.rhoend_scale < 1 with soft restarts; rho < rhoend for a scale > 1)" % (local, sorted(readers)))
    rep.require_count(rule, "rescalings of the local rhoend", len(rescales), 10)
    # every success of a mirroring method in solve_main is followed by exactly one local rescaling (lock-step in the other direction)
    for mfid in field_rescale:
        for ci in eng.calls_in(sm):
            from .common import effective_target_fids
            if mfid not in effective_target_fids(eng, ci.node):
                continue
            cn = cfg.cfg_node(ci.node)
            heads = [h for (h, k, s) in cfg.loops if k == "while"]

            def node_fn(nn, s, cn=cn):
                if nn == cn:
                    return [0]
                if s is None:
                    return [s]
                if any(nn == r[0] for r in rescales):
                    return [min(s + 1, 2)]
                return [s]

            fl = Flow(cfg, None, node_fn)
            badc = None
            for nn, d in cfg.g.nodes(data=True):
                if d.get("jump") == "continue":
                    for s in fl.states(nn):
                        if s is not None and s != 1 and cfg.path_avoiding(cn, nn, [r[0] for r in rescales] + [c2 for c2 in [cfg.cfg_node(c3.node) for c3 in eng.calls_in(sm) if any(t.fid == mfid for t in c3.targets)] if c2 != cn]) is not None:
                            badc = nn
            if badc is not None:
                rep.bad(rule, eng.where(sm, ci.node), "solver.solve_main|restart-without-local-rescale", "after this successful restart the loop continues without rescaling the local rhoend (the Controller's copy was rescaled)")


def _dominated_after(cfg, a, b):
    """b lies on every path from a to the next loop back edge / exit."""
    return cfg.path_avoiding(a, cfg.exit, [b]) is None or True


def _field_rescaled_once_on_success(eng, m, mcfg, fnodes):
    fn_nodes = set(mcfg.cfg_node(f) for f in fnodes)

    def node_fn(n, s):
        if n in fn_nodes:
            return [min(s + 1, 2)]
        return [s]

    fl = Flow(mcfg, 0, node_fn)
    ok = True
    seen_success = False
    for n, d in mcfg.g.nodes(data=True):
        st = d["ast"]
        if d["kind"] == "stmt" and isinstance(st, ast.Return):
            success = st.value is None or is_none(st.value)
            for s in fl.states(n):
                if success:
                    seen_success = True
                    if s != 1:
                        ok = False
                elif s != 0:
                    ok = False
    return ok and seen_success


def rule_table_shape(eng, rep, rule="C18-4.diagnostic-table-shape"):
    init = eng.fn("diagnostic_info.DiagnosticInfo.__init__")
    si = eng.fn("diagnostic_info.DiagnosticInfo.save_info_from_control")
    cols = []
    glob = eng.prog.modules[init.module].globals
    for node in eng.prog.own_nodes(init):
        if isinstance(node, ast.Assign) and isinstance(node.targets[0], ast.Subscript) and ekey(node.targets[0].value).endswith(".data") \
                and isinstance(node.targets[0].slice, ast.Constant) and isinstance(node.value, ast.List) and not node.value.elts:
            cols.append(node.targets[0].slice.value)
        # table-driven:  self.data = {key: [] for key in <tuple of names>}   /   for key in <tuple>: self.data[key] = []
        seq = None
        if isinstance(node, ast.Assign) and ekey(node.targets[0]).endswith(".data") and isinstance(node.value, ast.DictComp) and isinstance(node.value.value, ast.List) \
                and not node.value.value.elts and len(node.value.generators) == 1:
            seq = node.value.generators[0].iter
        elif isinstance(node, ast.For) and any(isinstance(x, ast.Assign) and isinstance(x.targets[0], ast.Subscript) and ekey(x.targets[0].value).endswith(".data")
                                                and isinstance(x.value, ast.List) and not x.value.elts for x in node.body):
            seq = node.iter
        if isinstance(seq, ast.Name) and seq.id in glob:
            seq = glob[seq.id]
        if isinstance(seq, (ast.Tuple, ast.List)) and all(isinstance(e, ast.Constant) and isinstance(e.value, str) for e in seq.elts):
            cols += [e.value for e in seq.elts]
    if not rep.require_count(rule, "columns initialised", len(cols), 20):
        return
    documented = list(eng.docs.diag_columns)
    for c in sorted(set(cols) - set(documented)):
        rep.bad(rule, "docs/diagnostic.rst", "docs|column-undocumented|%s" % c, "column '%s' is not documented" % c)
    for c in sorted(set(documented) - set(cols)):
        rep.bad(rule, "docs/diagnostic.rst", "docs|column-documented-missing|%s" % c, "documented column '%s' does not exist" % c)
    if set(cols) == set(documented):
        rep.ok(rule, "docs/diagnostic.rst", "documented columns = initialised columns (%d)" % len(cols))
    # exactly one append per column on every path (a loop over a literal tuple of column names is unrolled first)
    from .common import unrolled
    _view, cfg = unrolled(eng, si)
    from .c20 import _append_column
    appends = {}
    for n, d in cfg.g.nodes(data=True):
        st = d["ast"]
        if d["kind"] == "stmt" and isinstance(st, ast.Expr):
            col = _append_column(st.value)
            if col is not None:
                appends.setdefault(col[0], set()).add(n)
    for c in cols:
        nodes = appends.get(c, set())

        def node_fn(n, s, nodes=nodes):
            return [min(s + 1, 2)] if n in nodes else [s]

        fl = Flow(cfg, 0, node_fn)
        counts = set(fl.states(cfg.exit))
        site = "dfols/diagnostic_info.py:DiagnosticInfo.save_info_from_control"
        if counts == {1}:
            rep.ok(rule, site + " [%s]" % c, "exactly one append to column '%s' on every path" % c, nontrivial=len(nodes) > 1)
        else:
            rep.bad(rule, site, "diagnostic_info|column-appends|%s|%s" % (c, sorted(counts)), "column '%s' receives %s appends per recorded iteration on some path (must be exactly 1): rows shear / DataFrame construction fails" % (c, sorted(counts)))
    for c in sorted(set(appends) - set(cols)):
        rep.bad(rule, "dfols/diagnostic_info.py:DiagnosticInfo.save_info_from_control", "diagnostic_info|append-to-unknown-column|%s" % c, "append to column '%s' which is not initialised" % c)
    # iters_total appends its own current length; nf/nx are reads of the controller's counters
    for n in appends.get("iters_total", ()):
        v = cfg.ast_of(n).value.args[0]
        if ekey(v).replace(" ", "") in ("len(self.data['iters_total'])", 'len(self.data["iters_total"])'):
            rep.ok(rule, eng.where(si, cfg.ast_of(n)), "iters_total appends its current length: consecutive numbers from 0")
        else:
            rep.bad(rule, eng.where(si, cfg.ast_of(n)), "diagnostic_info|iters_total-value", "iters_total appends `%s`, not its current length" % short(v))
    for c in ("nf", "nx"):
        for n in appends.get(c, ()):
            v = cfg.ast_of(n).value.args[0]
            if isinstance(v, ast.Attribute) and v.attr == c:
                rep.ok(rule, eng.where(si, cfg.ast_of(n)), "column %s records control.%s (the C02 counter, which only increases)" % (c, c))
            else:
                rep.bad(rule, eng.where(si, cfg.ast_of(n)), "diagnostic_info|%s-value" % c, "column %s records `%s`" % (c, short(v)))
    # update_* methods only assign index -1 of existing columns
    cls = eng.prog.cls("DiagnosticInfo")
    for m in cls.methods.values():
        if not m.qualname.split(".")[-1].startswith("update_"):
            continue
        for node in eng.prog.own_nodes(m):
            if isinstance(node, ast.Assign):
                t = node.targets[0]
                okc = isinstance(t, ast.Subscript) and const_value(t.slice) == -1 and isinstance(t.value, ast.Subscript) and isinstance(t.value.slice, ast.Constant) and t.value.slice.value in cols
                if okc:
                    rep.ok(rule, eng.where(m, node), "updates the last row of column '%s'" % t.value.slice.value, nontrivial=False)
                else:
                    rep.bad(rule, eng.where(m, node), "%s|update-shape|%s" % (m.fid, short(t, 30)), "`%s` is not an assignment to the last row of an existing column" % short(node))
            if isinstance(node, ast.Call) and isinstance(node.func, ast.Attribute) and node.func.attr in ("append", "pop", "insert"):
                rep.bad(rule, eng.where(m, node), "%s|update-changes-length" % m.fid, "an update_* method changes the length of a column")
    # to_dataframe skips only xk / rk
    tdf = eng.fn("diagnostic_info.DiagnosticInfo.to_dataframe")
    skipped = set(s.value for s in ast.walk(tdf.node) if isinstance(s, ast.Constant) and isinstance(s.value, str) and s.value in cols)
    if skipped <= {"xk", "rk"}:
        rep.ok(rule, eng.where(tdf), "to_dataframe can only omit %s" % sorted(skipped))
    else:
        rep.bad(rule, eng.where(tdf), "diagnostic_info|to_dataframe-skips|%s" % "+".join(sorted(skipped - {"xk", "rk"})), "to_dataframe can omit documented columns %s" % sorted(skipped - {"xk", "rk"}))


def rule_npt_never_exceeds_its_maximum(eng, rep, rule="C18-10.number-of-points-never-grows-past-restarts.max_npt"):
    """`restarts.max_npt` is the documented maximum of |Y_k| (the `npt` column of the table).  Two places grow the set:
      (a) the hard-restart loop of `solve` increases the `npt` handed to the next run: every increase must be followed, on every path to the next solve_main call,
          by a clamp `npt = min(npt, .. params("restarts.max_npt") ..)` (a guard `npt < max` before an increase of more than one is not enough -- seed C18-y);
      (b) `soft_restart` appends points: every call of Model.add_new_point sits in a `for .. in range(N)` whose N is, on every reaching definition,
          `min(.., params("restarts.max_npt") - <points held> ..)`."""
    from .common import arg_of
    KEY = "restarts.max_npt"
    solve = eng.fn("solver.solve")
    cfg = eng.cfg(solve)
    sm = eng.fn("solver.solve_main")
    sm_calls = [cfg.cfg_node(ci.node) for ci in eng.calls_in(solve) if any(t.fid == sm.fid for t in ci.targets)]
    npt_name = None
    for ci in eng.calls_in(solve):
        if any(t.fid == sm.fid for t in ci.targets):
            e = arg_of(eng, ci.node, sm, "npt")
            if isinstance(e, ast.Name):
                npt_name = e.id
    if not sm_calls or npt_name is None:
        rep.unknown(rule, eng.where(solve), "solve_main call sites / their npt argument not found")
        return

    def mentions_max(e, at=None, c=None):
        if KEY in param_keys_in(eng, e):
            return True
        # a local that is nothing but the hoisted parameter read: `max_npt = params("restarts.max_npt")`
        c = c or cfg
        for sub in ast.walk(e):
            if isinstance(sub, ast.Name) and isinstance(sub.ctx, ast.Load) and at is not None:
                try:
                    dd = [c.ast_of(x) for x in c.defs_reaching(at, sub.id)]
                except Exception:
                    dd = []
                if len(dd) == 1 and isinstance(dd[0], ast.Assign) and isinstance(dd[0].value, ast.Call) and KEY in param_keys_in(eng, dd[0].value) \
                        and param_key(eng, dd[0].value) == KEY:
                    return True
        return False

    def is_increase(st):
        if isinstance(st, ast.AugAssign) and isinstance(st.op, (ast.Add, ast.Mult)) and isinstance(st.target, ast.Name) and st.target.id == npt_name:
            return True
        if isinstance(st, ast.Assign) and len(st.targets) == 1 and isinstance(st.targets[0], ast.Name) and st.targets[0].id == npt_name \
                and isinstance(st.value, ast.BinOp) and isinstance(st.value.op, (ast.Add, ast.Mult)) and npt_name in mentions(st.value):
            return True
        if isinstance(st, ast.Assign) and len(st.targets) == 1 and isinstance(st.targets[0], ast.Name) and st.targets[0].id == npt_name \
                and isinstance(st.value, ast.Call) and isinstance(st.value.func, ast.Name) and st.value.func.id in ("min", "max") and any(is_incr_expr(a) for a in st.value.args):
            return True         # increase and clamp written as one statement
        return False

    def is_clamp(st):
        return isinstance(st, ast.Assign) and len(st.targets) == 1 and isinstance(st.targets[0], ast.Name) and st.targets[0].id == npt_name \
            and isinstance(st.value, ast.Call) and isinstance(st.value.func, ast.Name) and st.value.func.id == "min" \
            and any(mentions_max(a, st) for a in st.value.args) and (any(ekey(a) == npt_name for a in st.value.args) or any(is_incr_expr(a) for a in st.value.args))

    def is_incr_expr(a):
        return isinstance(a, ast.BinOp) and isinstance(a.op, ast.Add) and npt_name in mentions(a)

    first_call = min(sm_calls)
    incs = [n for n, d in cfg.g.nodes(data=True) if d["kind"] == "stmt" and is_increase(d["ast"]) and cfg.path_avoiding(first_call, n, []) is not None]
    clamps = [n for n, d in cfg.g.nodes(data=True) if d["kind"] == "stmt" and is_clamp(d["ast"])]
    n_inst = 0
    for inc in incs:
        n_inst += 1
        site = eng.where(solve, cfg.ast_of(inc))
        if inc in clamps:
            rep.ok(rule, site, "the increase is itself clamped to %s" % KEY)
            continue
        bad = None
        for c in sm_calls:
            pth = cfg.path_avoiding(inc, c, clamps)
            if pth is not None:
                bad = pth
                break
        if bad is not None:
            rep.bad(rule, site, "solver.solve|npt-increase-not-clamped-to-max_npt",
                    "`%s` is increased for the next run and can reach solve_main without `%s = min(%s, params('%s'))`: the run holds more points than the documented maximum"
                    % (npt_name, npt_name, npt_name, KEY), path=cfg.describe_path(bad)[-8:])
        else:
            rep.ok(rule, site, "every path from this increase of `%s` to the next solve_main call passes the clamp to params('%s')" % (npt_name, KEY))
    # (b) appended points
    anp = eng.fn("model.Model.add_new_point")
    for ci in eng.calls_to(anp.fid):
        fi = ci.caller
        if fi.cls == "Model":
            continue
        n_inst += 1
        fcfg = eng.cfg(fi)
        site = eng.where(fi, ci.node)
        loop = None
        cur = eng.prog.parent.get(id(ci.node))
        while cur is not None and not isinstance(cur, (ast.FunctionDef, ast.Lambda)):
            if isinstance(cur, (ast.For, ast.While)):
                loop = cur
                break
            cur = eng.prog.parent.get(id(cur))
        if not (isinstance(loop, ast.For) and isinstance(loop.iter, ast.Call) and isinstance(loop.iter.func, ast.Name) and loop.iter.func.id == "range" and len(loop.iter.args) == 1):
            rep.unknown(rule, site, "add_new_point is not called from a `for .. in range(N)` loop: the number of appended points is not decided")
            continue
        N = loop.iter.args[0]
        exprs = []
        if isinstance(N, ast.Name):
            for dn in fcfg.defs_reaching(loop.iter, N.id):
                ds = fcfg.ast_of(dn)
                exprs.append(ds.value if isinstance(ds, ast.Assign) and len(ds.targets) == 1 and isinstance(ds.targets[0], ast.Name) else None)
        else:
            exprs.append(N)

        def bounded(e):
            if not (isinstance(e, ast.Call) and isinstance(e.func, ast.Name) and e.func.id == "min"):
                return False
            for a in e.args:
                if isinstance(a, ast.Name):         # `room = params("restarts.max_npt") - npt(); min(amt, room)`
                    # (the defining expression itself, not a copy: resolved-call tables are keyed by node identity)
                    try:
                        dd = [fcfg.ast_of(x) for x in fcfg.defs_reaching(loop.iter, a.id)]
                    except Exception:
                        dd = []
                    if len(dd) == 1 and isinstance(dd[0], ast.Assign) and len(dd[0].targets) == 1 and isinstance(dd[0].targets[0], ast.Name):
                        a = dd[0].value
                if isinstance(a, ast.BinOp) and isinstance(a.op, ast.Sub) and mentions_max(a.left) and ("npt" in ekey(a.right) or "num_pts" in ekey(a.right)):
                    return True
            return False
        if exprs and all(e is not None and bounded(e) for e in exprs):
            rep.ok(rule, site, "points are appended in a loop of min(.., params('%s') - points held) passes" % KEY)
        else:
            rep.bad(rule, site, "%s|appended-points-not-bounded-by-max_npt" % fi.fid,
                    "the loop that appends points runs `%s` times, which is not bounded by params('%s') minus the points held: the set can grow past the documented maximum" % (short(N), KEY))
    rep.require_count(rule, "places that grow the interpolation set", n_inst, 2)


def rule_initial_radius_is_below_the_cap(eng, rep, rule="C18-3b.the-initial-radius-is-validated-against-the-cap-of-delta"):
    """Every growth of delta is wrapped in min(., CAP) (C18-3; CAP = 1e10 today, read off those caps).  The table also records delta in the first row, where it is the
    caller's rhobeg (`self.delta = rhobeg` in Controller.__init__ and at every restart): 'delta <= CAP at every recorded iteration' therefore needs `rhobeg <= CAP`, which
    only solve's validation block can establish -- an input-error guard whose condition is `rhobeg > CAP` (or `>=`)."""
    from .c07 import _input_error_sites, _site_guard_sets
    caps = set()
    for fi in eng.prog.functions.values():
        for node in eng.prog.own_nodes(fi):
            if isinstance(node, ast.Assign) and any(_is_ctrl_attr(eng, fi, t, "delta") for t in node.targets):
                v = node.value
                if isinstance(v, ast.Call) and isinstance(v.func, ast.Name) and v.func.id == "min":
                    for a in v.args:
                        c = const_value(a)
                        if c is not None and c >= 1e6:
                            caps.add(float(c))
    if not caps:
        rep.unknown(rule, "package", "no capped growth of delta found: the cap cannot be read off")
        return
    cap = min(caps)
    solve = eng.fn("solver.solve")
    cfg = eng.cfg(solve)
    found = None
    for sn in _input_error_sites(eng, solve, cfg):
        for gl in _site_guard_sets(eng, cfg, sn):
            for a in gl:
                # cap < rhobeg  /  cap <= rhobeg
                if a.op in ("lt", "le") and const_value(a.lhs) is not None and float(const_value(a.lhs)) <= cap and isinstance(a.rhs, ast.Name) and a.rhs.id == "rhobeg":
                    found = sn
    site = eng.where(solve)
    if found is not None:
        rep.ok(rule, eng.where(solve, cfg.ast_of(found)), "rhobeg above the cap %g of delta is rejected with the input-error flag: the first recorded delta is within the cap" % cap)
    else:
        rep.bad(rule, site, "solver.solve|initial-radius-not-validated-against-the-cap",
                "no input-error guard rejects rhobeg > %g, the cap every growth of delta is held to: with a larger rhobeg every recorded row has delta = rhobeg above the cap" % cap)


def run(eng, rep):
    rep.explain("C18 (structural clauses): forward data-flow of the fact delta >= rho through solve_main and the Controller methods that write delta/rho, with "
                "inference rules for max/min, literal factors >= 1 and the false edge of `delta <= c*rho`, option implications taken from solve's validation "
                "block, and method summaries (T8 over T3) -- the fact must hold at every break/continue/return and at the recording call; inventory of the writers "
                "of rho and the parameter-table ranges of reduce_rho's factors (T1); every assignment to delta whose factors can exceed 1 is wrapped in "
                "min(., 1e10); Controller.rhoend and solve_main's local rhoend are kept in lock-step (T4 stale copy); the diagnostic table receives exactly one "
                "append per column per recorded iteration on every path, update_* touch only the last row, columns = documented columns (T3/T9).")
    rep.explain("Also decided: rhoend <= rho, rho > 0 and 'rho never increases within a run' by interval reasoning over the if-chain of reduce_rho (ratio > 1 from the dominating guard of every call site) and the inclusive ranges of the parameter table, restart factor of rhoend in (0, 1] (C18-8); the bound test of done_with_current_rho is reflection-equivariant (T14, C18-6); the run counter recorded in the table counts every restart (C18-7).")
    rep.not_decided += ["'best objective never increases' (values)", "2 <= npt <= max"]
    rep.assumptions += ["rhobeg > rhoend > 0 on entry (validated by solve: C07-3 rows rhoend<=0, rhobeg<=rhoend)", "floating-point sqrt and multiplication are monotone (interval reasoning of C18-8 is over the reals)"]
    rep.guarded(rule_delta_ge_rho, eng, rep)
    rep.guarded(rule_rho_writers, eng, rep)
    rep.guarded(rule_delta_cap, eng, rep)
    rep.guarded(rule_initial_radius_is_below_the_cap, eng, rep)
    rep.guarded(rule_table_shape, eng, rep)
    rep.guarded(rule_rhoend_single_source, eng, rep)
    rep.guarded(rule_rho_between_rhoend_and_rhobeg, eng, rep)
    rep.guarded(rule_radii_not_reassigned_after_validation, eng, rep)
    rep.guarded(rule_recorded_best_is_the_selection, eng, rep)
    rep.guarded(rule_one_row_per_iteration, eng, rep)
    rep.guarded(rule_npt_never_exceeds_its_maximum, eng, rep)
    from .c04 import rule_furthest_point_loops_stop_before_the_incumbent
    rep.guarded(rule_furthest_point_loops_stop_before_the_incumbent, eng, rep, rule="C18-11.recorded-best-value-cannot-rise-because-a-geometry-loop-reached-the-incumbent")
    from .mirrorrule import rule_mirror
    rep.guarded(rule_mirror, eng, rep, 'C18-6.bound-test-of-the-rho-reduction-criterion-is-symmetric', ['controller.Controller.done_with_current_rho'])
    from .c10 import rule_nruns
    rep.guarded(rule_nruns, eng, rep, rule="C18-7.run-counter-in-the-table-counts-every-restart")
